//! Bounded exploration for C24 ("each iso literal resolves to its own generated overload") on the
//! REAL compiler, including the part no contract covers (build_iso_overload_artifact).
//! Client fields Query.A, Query.AB, Query.ABC, Query.B (names that are prefixes of one another),
//! each absent / a plain field / a @component field, plus an entrypoint for every present
//! field: all 81 projects are compiled; the generated iso.ts is read and every literal of the
//! project is resolved the way the file relies on — strip leading ' ' | '\t' | '\n', take the
//! FIRST overload whose pattern is a prefix of the rest — and must hit the overload of its own
//! declaration. Exit 0 = always, exit 1 = a literal that receives another declaration's types.
use std::{fs, path::{Path, PathBuf}};

use common_lang_types::CurrentWorkingDirectory;
use graphql_network_protocol::GraphQLAndJavascriptProfile;
use intern::string_key::Intern;
use isograph_compiler::{CompilerState, batch_compile::compile};
use isograph_config::create_config;

type P = GraphQLAndJavascriptProfile;
const NAMES: [&str; 4] = ["A", "AB", "ABC", "B"];

fn literals(state: &[usize]) -> Vec<(String, String)> {
    // (header = expected pattern, full literal text)
    let mut v = vec![];
    for (i, n) in NAMES.iter().enumerate() {
        if state[i] == 0 { continue; }
        let dir = if state[i] == 2 { " @component" } else { "" };
        v.push((format!("field Query.{n}"), format!("\n  field Query.{n}{dir} {{\n    hello\n  }}\n")));
        v.push((format!("entrypoint Query.{n}"), format!("\n\tentrypoint Query.{n}")));
    }
    v
}
fn source(state: &[usize]) -> String {
    let mut s = String::from("import { iso } from '@iso';\n");
    for (k, (header, text)) in literals(state).iter().enumerate() {
        if header.starts_with("field") {
            s += &format!("export const C{k} = iso(`{text}`)(() => null);\n");
        } else {
            s += &format!("iso(`{text}`);\n");
        }
    }
    s
}
fn setup(root: &Path, state: &[usize], no_babel: bool) {
    let _ = fs::remove_dir_all(root);
    fs::create_dir_all(root.join("src")).unwrap();
    fs::write(root.join("schema.graphql"), "type Query {\n  hello: String\n}\n").unwrap();
    fs::write(root.join("isograph.config.json"), if no_babel { "{ \"project_root\": \"./src\", \"schema\": \"./schema.graphql\", \"options\": { \"no_babel_transform\": true } }" } else { "{ \"project_root\": \"./src\", \"schema\": \"./schema.graphql\" }" }).unwrap();
    fs::write(root.join("src/a.ts"), source(state)).unwrap();
}
fn overloads(iso_ts: &str) -> Vec<String> {
    let marker = "MatchesWhitespaceAndString<'";
    let mut out = vec![];
    let mut rest = iso_ts;
    while let Some(i) = rest.find(marker) {
        rest = &rest[i + marker.len()..];
        let Some(end) = rest.find("', T>") else { break };
        // the explanatory comment of the file mentions 'field Query.foo': not an overload
        if !rest[..end].ends_with("Query.foo") { out.push(rest[..end].to_string()); }
        rest = &rest[end..];
    }
    out
}

fn main() {
    let root = PathBuf::from(std::env::args().nth(1).unwrap_or("p_iso_overload".into()));
    let root = if root.is_absolute() { root } else { std::env::current_dir().unwrap().join(root) };
    let mut n = 0usize;
    // every project in both modes of the generated file (options.no_babel_transform)
    for code in 0..162usize {
        let no_babel = code >= 81;
        let mut c = code % 81;
        let state: Vec<usize> = (0..4).map(|_| { let d = c % 3; c /= 3; d }).collect();
        setup(&root, &state, no_babel);
        let cwd: CurrentWorkingDirectory = root.to_str().unwrap().intern().into();
        let config = create_config(&root.join("isograph.config.json"), cwd);
        let mut st = CompilerState::<P>::new(config, cwd).map_err(|e| e.0).expect("state");
        if let Err(e) = compile::<P>(&mut st) {
            println!("DIFFERENT: project {state:?} (A AB ABC B; 0 absent 1 field 2 @component) does not compile: {:?}", e.iter().map(|d| d.0.message.clone()).collect::<Vec<_>>());
            std::process::exit(1);
        }
        let iso_ts = fs::read_to_string(root.join("src/__isograph/iso.ts")).unwrap();
        let pats = overloads(&iso_ts);
        for (header, text) in literals(&state) {
            n += 1;
            let stripped = text.trim_start_matches([' ', '\t', '\n']);
            match pats.iter().find(|p| stripped.starts_with(p.as_str())) {
                Some(p) if *p == header => {}
                other => {
                    println!("DIFFERENT: project {state:?} (A AB ABC B; 0 absent 1 field 2 @component; no_babel_transform = {no_babel}): the literal `{header} ..` resolves to the overload {other:?} (overload order: {pats:?})");
                    std::process::exit(1);
                }
            }
        }
    }
    let _ = fs::remove_dir_all(&root);
    println!("projects=81 x 2 modes literals={n}: every literal resolves to the overload of its own declaration");
}
