//! kani_replay <unit> <harness> <hex bytes of each kani::any() value, in call order>...
//! Runs the SAME harness body that Kani verified, natively, against the real /repo crates
//! (built with --cfg isographlabs_isograph_verif so the visibility hooks exist).
//! exit 101 (panic) = the contract violation reproduces on the real code;
//! exit 0 = it does not; exit 3 = the input does not satisfy the harness precondition.
#![allow(unused, dead_code)]

#[path = "../../../units/common/src_kani.rs"]
pub mod src_trait;
#[path = "../../../units/common/src_native.rs"]
pub mod src_native;

macro_rules! unit {
    ($m:ident, $path:literal, { $($t:item)* }) => {
        pub mod $m {
            pub mod src_kani { pub use crate::src_trait::Src; }
            pub mod target { $($t)* }
            #[path = $path]
            pub mod harness;
        }
    };
}

unit!(arena, "/verif/units/arena/harness.rs", { pub use intern::verif_hooks::*; });
unit!(overload_order, "/verif/units/overload_order/harness.rs", { pub use artifact_content::verif_hooks::*; });
unit!(folder_prefix, "/verif/units/folder_prefix/harness.rs", {
    /// real code: build a database, register one iso-literal source under path `k`,
    /// remove folder `f` through the real API and observe whether `k` is gone
    pub fn api_removed(k: &str, f: &str) -> bool {
        use intern::string_key::Intern;
        let mut db = isograph_schema::IsographDatabase::<graphql_network_protocol::GraphQLAndJavascriptProfile>::default();
        let key: common_lang_types::RelativePathToSourceFile = k.intern().into();
        db.insert_iso_literal(key, String::new());
        db.remove_iso_literals_from_path(f);
        db.get_iso_literal(key).is_none()
    }
});
unit!(small_bytes, "/verif/units/small_bytes/harness.rs", { pub use intern::verif_hooks::SmallBytes; });
unit!(alias_chunk, "/verif/units/alias_chunk/harness.rs", {
    /// real code: the response-key chunk of a one-character string argument, minus "s_"
    pub fn api_alias_char(c: char) -> char {
        use intern::string_key::Intern;
        let v: isograph_lang_types::NonConstantValue =
            isograph_lang_types::NonConstantValueInner::String(c.to_string().intern().into());
        let chunk = v.to_alias_str_chunk();
        let rest = chunk.strip_prefix("s_").expect("string chunk starts with s_");
        let mut it = rest.chars();
        let r = it.next().expect("one char per source char");
        assert!(it.next().is_none(), "exactly one char per source char");
        r
    }
});
unit!(lsp_tokens, "/verif/units/lsp_tokens/harness.rs", { pub use isograph_lsp::verif_hooks::api_tokens; });
unit!(lsp_positions, "/verif/units/lsp_positions/harness.rs", { pub use isograph_lsp::verif_hooks::*; });

fn main() {
    let args: Vec<String> = std::env::args().collect();
    if args.len() < 3 {
        eprintln!("usage: kani_replay <unit> <harness> <hex>...");
        std::process::exit(2);
    }
    let vals: Vec<Vec<u8>> = args[3..]
        .iter()
        .map(|h| if h == "-" { vec![] } else { (0..h.len() / 2).map(|i| u8::from_str_radix(&h[2 * i..2 * i + 2], 16).unwrap()).collect() })
        .collect();
    let mut src = src_native::VecSrc { vals, pos: 0 };
    let unit = args[1].clone();
    let name = args[2].clone();
    let r = std::panic::catch_unwind(std::panic::AssertUnwindSafe(|| match unit.as_str() {
        "arena" => arena::harness::dispatch(&name, &mut src),
        "overload_order" => overload_order::harness::dispatch(&name, &mut src),
        "folder_prefix" => folder_prefix::harness::dispatch(&name, &mut src),
        "small_bytes" => small_bytes::harness::dispatch(&name, &mut src),
        "alias_chunk" => alias_chunk::harness::dispatch(&name, &mut src),
        "lsp_tokens" => lsp_tokens::harness::dispatch(&name, &mut src),
        "lsp_positions" => lsp_positions::harness::dispatch(&name, &mut src),
        _ => false,
    }));
    match r {
        Ok(true) => { println!("harness {unit}::{name} passed on the real code with this input"); }
        Ok(false) => { eprintln!("unknown unit/harness"); std::process::exit(2); }
        Err(e) => {
            if e.downcast_ref::<src_native::AssumptionNotMet>().is_some() {
                eprintln!("input does not satisfy the harness precondition");
                std::process::exit(3);
            }
            println!("REPRODUCED: harness {unit}::{name} panics on the real code with this input");
            std::process::exit(101);
        }
    }
}
