//! Known finding F-C03a (C03: "no history ... reads freed memory"), deterministic reproducer on
//! the REAL pico. Two memoized functions over two different tables intern a REFERENCE to equal
//! rows in the same epoch: they share one interned node, which keeps the address handed in by the
//! FIRST caller (intern_ref re-points only `if revision.time_verified != current_epoch`). The
//! interned node has no dependency on the node that owns that memory. With a cache of one recent
//! top-level call, a collection keeps the SECOND caller, its own table's rows and the interned
//! node - and frees the first caller's rows, into which the interned node still points.
//! Detection without reading the freed data: a global allocator that never reuses memory and
//! records every freed range; the address MemoRef::lookup returns is looked up in that record.
//! Exit 1 + "DIFFERENT: ..." = the reference handed out points into freed memory; exit 0 = not.
//! usage: pico_intern_dangling [<capacity>|default <history..>]   (no arguments: the two recorded histories)
use std::alloc::{GlobalAlloc, Layout, System};
use std::sync::atomic::{AtomicUsize, Ordering};

use pico::{Database, MemoRef, SourceId, Storage};
use pico_macros::{Db, Source, memo};

const MAX_FREED: usize = 1 << 16;
static FREED_START: [AtomicUsize; MAX_FREED] = [const { AtomicUsize::new(0) }; MAX_FREED];
static FREED_LEN: [AtomicUsize; MAX_FREED] = [const { AtomicUsize::new(0) }; MAX_FREED];
static N_FREED: AtomicUsize = AtomicUsize::new(0);
struct Quarantine;
unsafe impl GlobalAlloc for Quarantine {
    unsafe fn alloc(&self, l: Layout) -> *mut u8 { unsafe { System.alloc(l) } }
    unsafe fn dealloc(&self, p: *mut u8, l: Layout) {
        // never handed back: the range is recorded and poisoned
        let i = N_FREED.fetch_add(1, Ordering::SeqCst);
        if i < MAX_FREED { FREED_START[i].store(p as usize, Ordering::SeqCst); FREED_LEN[i].store(l.size(), Ordering::SeqCst); }
        unsafe { std::ptr::write_bytes(p, 0xDE, l.size()); }
    }
}
#[global_allocator]
static ALLOC: Quarantine = Quarantine;
fn is_freed(addr: usize) -> bool {
    let n = N_FREED.load(Ordering::SeqCst).min(MAX_FREED);
    (0..n).any(|i| { let s = FREED_START[i].load(Ordering::SeqCst); addr >= s && addr < s + FREED_LEN[i].load(Ordering::SeqCst) })
}

#[derive(Db)]
struct TestDatabase { storage: Storage<Self> }
#[derive(Debug, Clone, PartialEq, Eq, Hash)]
struct Row { name: String }
#[derive(Debug, Clone, PartialEq, Eq, Source)]
struct Table { #[key] pub key: &'static str, pub rows: Vec<Row> }
#[memo]
fn rows(db: &TestDatabase, table: SourceId<Table>) -> Vec<Row> { db.get(table).rows.clone() }
#[memo]
fn pick_a(db: &TestDatabase, table: SourceId<Table>) -> MemoRef<Row> { db.intern_ref(&rows(db, table)[0]) }
#[memo]
fn pick_b(db: &TestDatabase, table: SourceId<Table>) -> MemoRef<Row> { db.intern_ref(&rows(db, table)[0]) }

fn main() {
    let args: Vec<String> = std::env::args().skip(1).collect();
    if args.is_empty() {
        // the two recorded histories: eviction from a cache of one, and - with the DEFAULT cache -
        // a write to the first owner's table followed by its re-execution and a collection
        run(Some(1), &["pick_b", "pick_a", "collect", "pick_a"].map(String::from));
        run(None, &["pick_b", "pick_a", "set_b", "pick_b", "collect", "pick_a"].map(String::from));
    } else {
        let cap = if args[0] == "default" { None } else { Some(args[0].parse().expect("capacity or `default`")) };
        run(cap, &args[1..]);
    }
}
fn run(cap: Option<usize>, hist: &[String]) {
    let mut db = match cap {
        Some(c) => TestDatabase { storage: Storage::new_with_capacity(std::num::NonZeroUsize::new(c).unwrap()) },
        None => TestDatabase { storage: Storage::new() },
    };
    let ta = db.set(Table { key: "a", rows: vec![Row { name: "shared".into() }, Row { name: "a2".into() }] });
    let tb = db.set(Table { key: "b", rows: vec![Row { name: "shared".into() }, Row { name: "b2".into() }] });
    for (i, step) in hist.iter().enumerate() {
        let r: Option<&Row> = match step.as_str() {
            "pick_a" => Some(pick_a(&db, ta).lookup(&db)),
            "pick_b" => Some(pick_b(&db, tb).lookup(&db)),
            "collect" => { db.run_garbage_collection(); None }
            "set_b" => { db.set(Table { key: "b", rows: vec![Row { name: "other".into() }, Row { name: "b2".into() }] }); None }
            other => panic!("unknown step {other}"),
        };
        if let Some(r) = r {
            let addr = r as *const Row as usize;
            if is_freed(addr) {
                println!("DIFFERENT: history {hist:?} ({}; tables a and b both start with the row \"shared\"): at step {} MemoRef::lookup hands out a reference to {addr:#x}, which lies in memory freed by the collection (the rows of the other table)", match cap { Some(c) => format!("cache of {c} recent top-level call(s)"), None => "default cache".to_string() }, i + 1);
                std::process::exit(1);
            }
        }
    }
    println!("history {hist:?}: every reference handed out points into live memory");
}
