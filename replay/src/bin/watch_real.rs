//! C20 with the REAL watcher (thorough tier only; timing dependent, hence conservative):
//! a tiny project is compiled the way watch mode does at start-up, the real debounced notify
//! watcher (isograph_compiler::watch::create_debounced_file_watcher, which also runs the real
//! event categorisation) is started, ONE file-system change is made, the categorised events
//! that arrive within the settle time are handed to update_sources, the project is recompiled
//! and artifacts + diagnostics are compared with a fresh batch compile.
//! Exit 0 = every scenario agrees; exit 1 = a difference (printed); exit 2 = the watcher
//! delivered nothing at all in a scenario where the control scenario proves it must (undecided:
//! inotify not available / too slow) - never an alarm.
//! usage: watch_real <dir> [settle_ms = 1500]
use std::{collections::BTreeMap, fs, path::{Path, PathBuf}, time::Duration};

use common_lang_types::CurrentWorkingDirectory;
use graphql_network_protocol::GraphQLAndJavascriptProfile;
use intern::string_key::Intern;
use isograph_compiler::{CompilerState, batch_compile::compile, update_sources, watch::{ChangedFileKind, SourceEventKind, create_debounced_file_watcher, has_config_changes}};
use isograph_config::create_config;

type P = GraphQLAndJavascriptProfile;
type Outcome = (Vec<String>, BTreeMap<String, String>);

fn component(name: &str, field: &str) -> String {
    format!("import {{ iso }} from '@iso';\nexport const {name} = iso(`\n  field Query.{name} @component {{\n    {field}\n  }}\n`)(() => null);\n")
}
fn write(path: &Path, content: &str) { fs::create_dir_all(path.parent().unwrap()).unwrap(); fs::write(path, content).unwrap(); }
fn make_project(root: &Path) {
    let _ = fs::remove_dir_all(root);
    fs::create_dir_all(root).unwrap();
    write(&root.join("isograph.config.json"), r#"{ "project_root": "./src", "artifact_directory": "./out", "schema": "./schema.graphql" }"#);
    write(&root.join("schema.graphql"), "type Query {\n  hello: String\n  world: String\n}\n");
    write(&root.join("src/pages/Home.ts"), &component("Home", "hello"));
    write(&root.join("src/old/Legacy.ts"), &component("Legacy", "hello"));
}
fn new_state(root: &Path) -> CompilerState<P> {
    let cwd: CurrentWorkingDirectory = root.to_str().unwrap().intern().into();
    let config = create_config(&root.join("isograph.config.json"), cwd);
    CompilerState::new(config, cwd).unwrap_or_else(|e| panic!("sources cannot be read: {e}"))
}
fn artifacts(root: &Path) -> BTreeMap<String, String> {
    fn visit(base: &Path, dir: &Path, out: &mut BTreeMap<String, String>) {
        let Ok(entries) = fs::read_dir(dir) else { return };
        for entry in entries.flatten() {
            let path = entry.path();
            if path.is_dir() { visit(base, &path, out) } else { out.insert(path.strip_prefix(base).unwrap().to_string_lossy().to_string(), fs::read_to_string(&path).unwrap_or_default()); }
        }
    }
    let base = root.join("out");
    let mut out = BTreeMap::new();
    visit(&base, &base, &mut out);
    out
}
fn outcome(root: &Path, state: &mut CompilerState<P>) -> Outcome {
    let diags = match compile::<P>(state) { Ok(_) => vec![], Err(es) => { let mut m: Vec<String> = es.iter().map(|e| e.0.message.clone()).collect(); m.sort(); m } };
    (diags, artifacts(root))
}
fn show(e: &(SourceEventKind, ChangedFileKind)) -> String {
    let k = match e.1 { ChangedFileKind::Config => "Config", ChangedFileKind::Schema => "Schema", ChangedFileKind::SchemaExtension => "SchemaExtension", ChangedFileKind::JavaScriptSourceFile => "SourceFile", ChangedFileKind::JavaScriptSourceFolder => "SourceFolder" };
    format!("{:?} as {k}", e.0)
}

const SCENARIOS: [&str; 12] = ["modify source file", "create source file", "remove source file", "rename source file", "remove folder",
    "schema modified in place", "schema saved atomically", "schema removed", "schema renamed away",
    "source file moved out of the project", "folder moved out of the project", "source file saved atomically"];

async fn scenario(root: &Path, kind: usize, settle: Duration) -> Result<usize, String> {
    make_project(root);
    let root = &root.canonicalize().unwrap();
    let mut state = new_state(root);
    let (d0, _) = outcome(root, &mut state);
    if !d0.is_empty() { return Err(format!("initial compile fails: {d0:?}")); }
    let config = state.db.get_isograph_config().clone();
    let (mut rx, mut watcher) = create_debounced_file_watcher(&config);
    tokio::time::sleep(Duration::from_millis(200)).await;
    let schema = root.join("schema.graphql");
    let new_schema = "type Query {\n  hello: Int\n  world: String\n}\n";
    match kind {
        0 => write(&root.join("src/old/Legacy.ts"), &component("Legacy", "world")),
        1 => write(&root.join("src/old/New.ts"), &component("New", "world")),
        2 => fs::remove_file(root.join("src/old/Legacy.ts")).unwrap(),
        3 => fs::rename(root.join("src/old/Legacy.ts"), root.join("src/old/Renamed.ts")).unwrap(),
        4 => fs::remove_dir_all(root.join("src/old")).unwrap(),
        5 => write(&schema, new_schema),
        6 => { let tmp = root.join("schema.graphql.tmp"); write(&tmp, new_schema); fs::rename(&tmp, &schema).unwrap(); }
        7 => fs::remove_file(&schema).unwrap(),
        8 => fs::rename(&schema, root.join("schema.moved")).unwrap(),
        9 => fs::rename(root.join("src/old/Legacy.ts"), root.join("Legacy.moved.ts")).unwrap(),
        10 => fs::rename(root.join("src/old"), root.join("old.moved")).unwrap(),
        _ => { let tmp = root.join("src/old/.Legacy.ts.swp"); write(&tmp, &component("Legacy", "world")); fs::rename(&tmp, root.join("src/old/Legacy.ts")).unwrap(); }
    }
    // collect every batch that arrives until the watcher has been quiet for `settle`
    let mut delivered: Vec<String> = vec![];
    let mut n_events = 0usize;
    loop {
        match tokio::time::timeout(settle, rx.recv()).await {
            Ok(Some(Ok(changes))) => {
                for c in &changes { delivered.push(show(c)); }
                n_events += changes.len();
                if has_config_changes(&changes) { return Err(format!("{}: unexpected config change event", SCENARIOS[kind])); }
                if let Err(es) = update_sources(&mut state.db, &changes) {
                    // handle_watch_command returns this error: watch mode ENDS here
                    watcher.stop();
                    let fresh_ok = std::panic::catch_unwind(|| { let mut s = new_state(root); outcome(root, &mut s).0.is_empty() }).unwrap_or(false);
                    let msg = format!("{}: update_sources fails ({:?}), so watch mode stops (events delivered: {delivered:?})", SCENARIOS[kind], es.iter().map(|e| e.to_string()).collect::<Vec<_>>());
                    // acceptable only if a fresh start cannot proceed either
                    if fresh_ok { return Err(format!("{msg}, although a fresh batch compile of the files succeeds")); }
                    println!("{msg}; a fresh start fails too");
                    return Ok(n_events);
                }
            }
            Ok(Some(Err(errs))) => return Err(format!("{}: the watcher reported errors: {errs:?}", SCENARIOS[kind])),
            Ok(None) => break,
            Err(_) => break,
        }
    }
    watcher.stop();
    let watch = outcome(root, &mut state);
    let _ = fs::remove_dir_all(root.join("out"));
    let fresh = match std::panic::catch_unwind(|| { let mut s = new_state(root); outcome(root, &mut s) }) {
        Ok(o) => o,
        // a fresh start fails outright (e.g. no schema file): watch mode must at least report errors
        Err(_) => (vec!["<fresh start fails>".to_string()], BTreeMap::new()),
    };
    let what = SCENARIOS[kind];
    if fresh.0 == vec!["<fresh start fails>".to_string()] {
        if watch.0.is_empty() { return Err(format!("{what}: a fresh start fails, but watch mode compiles without any diagnostic (events delivered: {delivered:?})")); }
        return Ok(n_events);
    }
    if watch.0 != fresh.0 { return Err(format!("{what}: diagnostics differ: watch {:?} / fresh {:?} (events delivered: {delivered:?})", watch.0, fresh.0)); }
    if watch.0.is_empty() && watch.1 != fresh.1 {
        let stale: Vec<&String> = watch.1.keys().filter(|k| !fresh.1.contains_key(*k)).collect();
        let missing: Vec<&String> = fresh.1.keys().filter(|k| !watch.1.contains_key(*k)).collect();
        let wrong: Vec<&String> = watch.1.iter().filter(|(k, v)| fresh.1.get(*k).is_some_and(|w| w != *v)).map(|(k, _)| k).collect();
        return Err(format!("{what}: artifacts differ from a fresh batch compile: stale {stale:?} missing {missing:?} wrong content {wrong:?} (events delivered: {delivered:?})"));
    }
    println!("{what}: agrees ({n_events} event(s): {delivered:?})");
    Ok(n_events)
}

fn main() {
    let root = PathBuf::from(std::env::args().nth(1).unwrap_or("p_watch_real".into()));
    let root = if root.is_absolute() { root } else { std::env::current_dir().unwrap().join(root) };
    let settle = Duration::from_millis(std::env::args().nth(2).and_then(|s| s.parse().ok()).unwrap_or(1500));
    if std::env::var("SHOW_PANICS").is_err() { std::panic::set_hook(Box::new(|_| {})); }
    let rt = tokio::runtime::Builder::new_multi_thread().enable_all().build().unwrap();
    // control: a plain modification of a source file must be seen by the watcher
    match rt.block_on(scenario(&root, 0, settle)) {
        Ok(0) => { println!("UNDECIDED: the watcher delivered no event for a modified source file within {settle:?} (inotify unavailable or too slow)"); std::process::exit(2); }
        Ok(_) => {}
        Err(m) => { println!("DIFFERENT: {m}"); std::process::exit(1); }
    }
    let mut bad = 0;
    for kind in 1..SCENARIOS.len() {
        if rt.block_on(scenario(&root, kind, settle)).is_err() {
            // timing: a difference is reported only if it shows again with four times the settle time
            if let Err(m) = rt.block_on(scenario(&root, kind, settle * 4)) { println!("DIFFERENT: {m}"); bad += 1; }
        }
    }
    let _ = fs::remove_dir_all(&root);
    if bad > 0 { std::process::exit(1); }
    println!("scenarios={} the real watcher + categorisation + handlers agree with a fresh batch compile", SCENARIOS.len());
}
