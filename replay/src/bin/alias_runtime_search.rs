//! Bounded exploration for C12, clause "the key the compiler writes equals the key the runtime
//! computes": every argument value from a small universe — integers, booleans, null, word
//! strings, variables, and objects with 1..3 entries over the keys {b, a, c} in EVERY order,
//! nested one level — is parsed by the REAL parser as `f(arg: VALUE)` and the REAL
//! SelectionFieldArgument::to_alias_str_chunk is compared with a transcription of the runtime's
//! getNetworkResponseKey / getArgumentValueChunk (libs/isograph-react/src/core/cache.ts), which
//! walks the argument in SOURCE order (that is how the normalization AST lists it).
//! Strings are restricted to word characters (non-word characters are the separate known
//! findings C12.O-2b / O-3b). Exit 0 = all agree, exit 1 = a value whose keys differ.
use common_lang_types::{RelativePathToSourceFile, TextSource};
use intern::string_key::Intern;
use isograph_lang_parser::{IsoLiteralExtractionResult, parse_iso_literal};
use isograph_lang_types::SelectionType;

#[derive(Clone)]
enum V { Int(i64), Bool(bool), Null, Str(&'static str), Var(&'static str), Obj(Vec<(&'static str, V)>) }

fn text(v: &V) -> String {
    match v {
        V::Int(i) => i.to_string(), V::Bool(b) => b.to_string(), V::Null => "null".into(),
        V::Str(s) => format!("\"{s}\""), V::Var(n) => format!("${n}"),
        V::Obj(es) => format!("{{{}}}", es.iter().map(|(k, x)| format!("{k}: {}", text(x))).collect::<Vec<_>>().join(", ")),
    }
}
/// cache.ts getArgumentValueChunk, on the normalization AST's ArgumentValue (source order)
fn runtime_chunk(v: &V) -> String {
    match v {
        V::Int(i) => format!("l_{i}"), V::Bool(b) => format!("l_{b}"), V::Null => "l_null".into(),
        V::Str(s) => format!("s_{}", s.chars().map(|c| if c.is_ascii_alphanumeric() || c == '_' { c } else { '_' }).collect::<String>()),
        V::Var(n) => format!("v_{n}"),
        V::Obj(es) => format!("o_{}_c", es.iter().map(|(k, x)| format!("{k}__{}", runtime_chunk(x))).collect::<Vec<_>>().join("_")),
    }
}

fn compiler_chunk(value_text: &str) -> Result<String, String> {
    let rel: RelativePathToSourceFile = "src/a.ts".intern().into();
    let ts = TextSource { relative_path_to_source_file: rel, span: None };
    let lit = format!("field Query.x {{\n  f(arg: {value_text})\n}}");
    let r = parse_iso_literal(lit.clone(), rel, Some("x".to_string()), ts).map_err(|d| format!("{} ({lit})", d.0.message))?;
    let IsoLiteralExtractionResult::ClientFieldDeclaration(decl) = r else { return Err("not a field".into()) };
    let sel = &decl.item.selection_set.item.selections[0].item;
    let args = match sel { SelectionType::Scalar(s) => &s.arguments, SelectionType::Object(o) => &o.arguments };
    Ok(args[0].item.to_alias_str_chunk())
}

fn compiler_key(args_text: &str, linked: bool) -> Result<String, String> {
    use isograph_lang_types::ArgumentKeyAndValue;
    let rel: RelativePathToSourceFile = "src/a.ts".intern().into();
    let ts = TextSource { relative_path_to_source_file: rel, span: None };
    let lit = format!("field Query.x {{\n  items({args_text})\n}}");
    let r = parse_iso_literal(lit.clone(), rel, Some("x".to_string()), ts).map_err(|d| format!("{} ({lit})", d.0.message))?;
    let IsoLiteralExtractionResult::ClientFieldDeclaration(decl) = r else { return Err("not a field".into()) };
    let sel = &decl.item.selection_set.item.selections[0].item;
    let args = match sel { SelectionType::Scalar(s) => &s.arguments, SelectionType::Object(o) => &o.arguments };
    let arguments: Vec<ArgumentKeyAndValue> = args.iter().map(|a| a.item.into_key_and_value()).collect();
    let name: common_lang_types::SelectableName = "items".intern().into();
    Ok(if linked {
        isograph_schema::MergedLinkedFieldSelection { name, arguments, is_fallible: false, selection_map: std::collections::BTreeMap::new(),
            concrete_target_entity_name: isograph_schema::ConcreteTargetEntityName::Abstract }.normalization_alias().unwrap_or_else(|| name.to_string())
    } else {
        isograph_schema::MergedScalarFieldSelection { name, arguments, is_fallible: false }.normalization_alias().unwrap_or_else(|| name.to_string())
    })
}

fn scalars() -> Vec<V> {
    vec![V::Int(10), V::Int(-2), V::Bool(true), V::Null, V::Str("abc"), V::Str("x_1"), V::Var("v")]
}
fn permutations(keys: &[&'static str]) -> Vec<Vec<&'static str>> {
    if keys.len() <= 1 { return vec![keys.to_vec()]; }
    let mut out = vec![];
    for i in 0..keys.len() {
        let mut rest = keys.to_vec();
        let k = rest.remove(i);
        for mut p in permutations(&rest) { p.insert(0, k); out.push(p); }
    }
    out
}

fn main() {
    let mut universe: Vec<V> = scalars();
    let flat_objects: Vec<V> = {
        let mut v = vec![];
        for subset in [vec!["a"], vec!["b", "a"], vec!["b", "a", "c"]] {
            for order in permutations(&subset) {
                // values cycle through the scalars so that every key sees different kinds
                for shift in 0..scalars().len() {
                    v.push(V::Obj(order.iter().enumerate().map(|(i, k)| (*k, scalars()[(i + shift) % scalars().len()].clone())).collect()));
                }
            }
        }
        v
    };
    universe.extend(flat_objects.iter().cloned());
    // one level of nesting: an object whose entries are flat objects / scalars, both key orders
    for (i, inner) in flat_objects.iter().enumerate().step_by(5) {
        universe.push(V::Obj(vec![("z", inner.clone()), ("a", scalars()[i % 7].clone())]));
        universe.push(V::Obj(vec![("a", scalars()[i % 7].clone()), ("z", inner.clone())]));
    }
    let mut n = 0;
    for v in &universe {
        n += 1;
        let want = format!("arg___{}", runtime_chunk(v));
        match compiler_chunk(&text(v)) {
            Ok(got) if got == want => {}
            Ok(got) => { println!("DIFFERENT: for f(arg: {}) the compiler's key chunk is {got:?}, the runtime computes {want:?}", text(v)); std::process::exit(1); }
            Err(m) => { println!("DIFFERENT: f(arg: {}) is rejected by the parser: {m}", text(v)); std::process::exit(1); }
        }
    }
    // ARGUMENT LISTS: the whole response key of a selection with up to three arguments (variables
    // and literals in every order), parsed by the real parser and keyed by the real
    // MergedScalarFieldSelection / MergedLinkedFieldSelection::normalization_alias, against the
    // runtime's getNetworkResponseKey on the normalization AST (arguments in written order)
    let pool: Vec<(&str, V)> = vec![("after", V::Var("cursor")), ("first", V::Int(10)), ("flag", V::Bool(true)), ("q", V::Var("q")), ("name", V::Str("a b"))];
    let mut lists = 0;
    for len in 1..=3usize {
        for code in 0..pool.len().pow(len as u32) {
            let mut c = code;
            let idx: Vec<usize> = (0..len).map(|_| { let i = c % pool.len(); c /= pool.len(); i }).collect();
            let mut sorted = idx.clone(); sorted.sort(); sorted.dedup();
            if sorted.len() != idx.len() { continue; }   // argument names are unique
            let args: Vec<&(&str, V)> = idx.iter().map(|i| &pool[*i]).collect();
            let args_text = args.iter().map(|(k, v)| format!("{k}: {}", text(v))).collect::<Vec<_>>().join(", ");
            let want = format!("items{}", args.iter().map(|(k, v)| format!("____{k}___{}", runtime_chunk(v))).collect::<String>());
            for linked in [false, true] {
                match compiler_key(&args_text, linked) {
                    Ok(got) if got == want => {}
                    Ok(got) => { println!("DIFFERENT: for the {} selection items({args_text}) the compiler's response key is {got:?}, the runtime computes {want:?}", if linked { "linked" } else { "scalar" }); std::process::exit(1); }
                    Err(m) => { println!("DIFFERENT: items({args_text}) is rejected by the parser: {m}"); std::process::exit(1); }
                }
                lists += 1;
            }
        }
    }
    println!("values={n} argument lists={lists}: the compiler's key equals the runtime's for every value and every argument order");
}
