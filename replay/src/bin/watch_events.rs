//! Witness search for C20.O-2 (unit source_events): watch-mode source events versus a fresh
//! batch compile, on the REAL compiler. For every folder name in a small set (plain, dotted,
//! a name that is a prefix of another folder) and every event kind (remove folder, rename
//! folder, remove file, rename file, modify file, create file, a file losing its last literal,
//! an emptied file, a literal replaced by one for another field, a late literal) a tiny project is compiled the
//! way watch mode does at start-up, the file system is changed, the event the debounced
//! watcher delivers is handed to update_sources, the project is recompiled incrementally, and
//! diagnostics + artifact directory are compared with a fresh batch compile of the result.
//! Exit 0 = all agree, exit 1 = a difference (printed).
use std::{collections::BTreeMap, fs, path::{Path, PathBuf}};

use common_lang_types::CurrentWorkingDirectory;
use graphql_network_protocol::GraphQLAndJavascriptProfile;
use intern::string_key::Intern;
use isograph_compiler::{CompilerState, batch_compile::compile, update_sources, watch::{ChangedFileKind, SourceEventKind}};
use isograph_config::create_config;

type P = GraphQLAndJavascriptProfile;
type Outcome = (Vec<String>, BTreeMap<String, String>);

fn component(name: &str, field: &str) -> String {
    format!("import {{ iso }} from '@iso';\nexport const {name} = iso(`\n  field Query.{name} @component {{\n    {field}\n  }}\n`)(() => null);\n")
}
fn write(path: &Path, content: &str) {
    fs::create_dir_all(path.parent().unwrap()).unwrap();
    fs::write(path, content).unwrap();
}
fn make_project(root: &Path, folder: &str) {
    let _ = fs::remove_dir_all(root);
    fs::create_dir_all(root).unwrap();
    write(&root.join("isograph.config.json"), r#"{ "project_root": "./src", "artifact_directory": "./out", "schema": "./schema.graphql" }"#);
    write(&root.join("schema.graphql"), "type Query {\n  hello: String\n  world: String\n}\n");
    write(&root.join("src/pages/Home.ts"), &component("Home", "hello"));
    // a sibling whose name EXTENDS the folder name (prefix confusion)
    write(&root.join("src").join(format!("{folder}x")).join("Other.ts"), &component("Other", "hello"));
    write(&root.join("src").join(folder).join("Legacy.ts"), &component("Legacy", "hello"));
}
fn new_state(root: &Path) -> CompilerState<P> {
    let cwd: CurrentWorkingDirectory = root.to_str().unwrap().intern().into();
    let config = create_config(&root.join("isograph.config.json"), cwd);
    CompilerState::new(config, cwd).unwrap_or_else(|e| panic!("sources cannot be read: {e}"))
}
fn artifacts(root: &Path) -> BTreeMap<String, String> {
    fn visit(base: &Path, dir: &Path, out: &mut BTreeMap<String, String>) {
        let Ok(entries) = fs::read_dir(dir) else { return };
        for entry in entries.flatten() {
            let path = entry.path();
            if path.is_dir() { visit(base, &path, out) } else {
                out.insert(path.strip_prefix(base).unwrap().to_string_lossy().to_string(), fs::read_to_string(&path).unwrap_or_default());
            }
        }
    }
    let base = root.join("out");
    let mut out = BTreeMap::new();
    visit(&base, &base, &mut out);
    out
}
fn outcome(root: &Path, state: &mut CompilerState<P>) -> Outcome {
    let diags = match compile::<P>(state) {
        Ok(_) => vec![],
        Err(es) => { let mut m: Vec<String> = es.iter().map(|e| e.0.message.clone()).collect(); m.sort(); m }
    };
    (diags, artifacts(root))
}

fn scenario(root: &Path, folder: &str, kind: usize) -> Result<(), String> {
    make_project(root, folder);
    let root = &root.canonicalize().unwrap();
    let mut state = new_state(root);
    let (d0, _) = outcome(root, &mut state);
    if !d0.is_empty() { return Err(format!("initial compile fails: {d0:?}")); }
    let dir = root.join("src").join(folder);
    let file = dir.join("Legacy.ts");
    let (what, events): (&str, Vec<(SourceEventKind, ChangedFileKind)>) = match kind {
        0 => { fs::remove_dir_all(&dir).unwrap(); ("remove folder", vec![(SourceEventKind::Remove(dir.clone()), ChangedFileKind::JavaScriptSourceFolder)]) }
        1 => { let to = root.join("src/archive"); fs::rename(&dir, &to).unwrap(); ("rename folder", vec![(SourceEventKind::Rename((dir.clone(), to)), ChangedFileKind::JavaScriptSourceFolder)]) }
        // a removed file no longer exists, so the watcher reports it as a folder
        2 => { fs::remove_file(&file).unwrap(); ("remove file", vec![(SourceEventKind::Remove(file.clone()), ChangedFileKind::JavaScriptSourceFolder)]) }
        3 => { let to = dir.join("Renamed.ts"); fs::rename(&file, &to).unwrap(); ("rename file", vec![(SourceEventKind::Rename((file.clone(), to)), ChangedFileKind::JavaScriptSourceFile)]) }
        4 => { write(&file, &component("Legacy", "world")); ("modify file", vec![(SourceEventKind::CreateOrModify(file.clone()), ChangedFileKind::JavaScriptSourceFile)]) }
        5 => { let f = dir.join("New.ts"); write(&f, &component("New", "world")); ("create file", vec![(SourceEventKind::CreateOrModify(f), ChangedFileKind::JavaScriptSourceFile)]) }
        // a tracked file loses its only literal / is emptied / gets a literal for ANOTHER field
        6 => { write(&file, "export const nothing = 1;\n"); ("modify file: last literal removed", vec![(SourceEventKind::CreateOrModify(file.clone()), ChangedFileKind::JavaScriptSourceFile)]) }
        7 => { write(&file, ""); ("modify file: emptied", vec![(SourceEventKind::CreateOrModify(file.clone()), ChangedFileKind::JavaScriptSourceFile)]) }
        8 => { write(&file, &component("Legacy2", "world")); ("modify file: literal replaced by one for another field", vec![(SourceEventKind::CreateOrModify(file.clone()), ChangedFileKind::JavaScriptSourceFile)]) }
        // the schema is edited in place / saved atomically (written to a temporary file that is
        // renamed onto the schema path - what many editors do): hello becomes an Int
        10 => { write(&root.join("schema.graphql"), "type Query {\n  hello: Int\n  world: String\n}\n");
                ("schema modified in place", vec![(SourceEventKind::CreateOrModify(root.join("schema.graphql")), ChangedFileKind::Schema)]) }
        11 => { let tmp = root.join("schema.graphql.tmp"); write(&tmp, "type Query {\n  hello: Int\n  world: String\n}\n"); fs::rename(&tmp, root.join("schema.graphql")).unwrap();
                ("schema saved atomically (temporary file renamed onto it)", vec![(SourceEventKind::Rename((tmp, root.join("schema.graphql"))), ChangedFileKind::Schema)]) }
        // a file without a literal is created, then gets one (two events in one batch)
        _ => { let f = dir.join("Late.ts"); write(&f, "export const later = 1;\n"); let e1 = (SourceEventKind::CreateOrModify(f.clone()), ChangedFileKind::JavaScriptSourceFile);
               write(&f, &component("Late", "world")); ("create file without a literal, then add one", vec![e1, (SourceEventKind::CreateOrModify(f), ChangedFileKind::JavaScriptSourceFile)]) }
    };
    if let Err(es) = update_sources(&mut state.db, &events) {
        return Err(format!("{what} in folder {folder:?}: update_sources failed (the watcher would stop): {:?}", es.iter().map(|e| e.to_string()).collect::<Vec<_>>()));
    }
    let watch = outcome(root, &mut state);
    fs::remove_dir_all(root.join("out")).unwrap();
    let mut fresh_state = new_state(root);
    let fresh = outcome(root, &mut fresh_state);
    if watch.0 != fresh.0 {
        return Err(format!("{what} in folder {folder:?}: diagnostics differ: watch {:?} / fresh {:?}", watch.0, fresh.0));
    }
    // (a failing compile leaves the artifact directory as it was - C17 - so artifacts are
    // compared only when the compile succeeds)
    if watch.0.is_empty() && watch.1 != fresh.1 {
        let wrong: Vec<&String> = watch.1.iter().filter(|(k, v)| fresh.1.get(*k).is_some_and(|w| w != *v)).map(|(k, _)| k).collect();
        if !wrong.is_empty() { return Err(format!("{what} in folder {folder:?}: artifacts differ in CONTENT from a fresh batch compile: {wrong:?}")); }
        let extra: Vec<&String> = watch.1.keys().filter(|k| !fresh.1.contains_key(*k)).collect();
        let missing: Vec<&String> = fresh.1.keys().filter(|k| !watch.1.contains_key(*k)).collect();
        return Err(format!("{what} in folder {folder:?}: artifacts differ from a fresh batch compile: stale {extra:?} missing {missing:?}"));
    }
    Ok(())
}

fn main() {
    let root = PathBuf::from(std::env::args().nth(1).unwrap_or("p_watch_events".into()));
    let root = if root.is_absolute() { root } else { std::env::current_dir().unwrap().join(root) };
    let mut n = 0;
    for folder in ["pages_old", "pages.old", "api.v2", "a"] {
        for kind in 0..13 {
            n += 1;
            if let Err(m) = scenario(&root, folder, kind) {
                println!("DIFFERENT: {m}");
                std::process::exit(1);
            }
        }
    }
    let _ = fs::remove_dir_all(&root);
    println!("scenarios={n} watch mode agrees with a fresh batch compile");
}
