//! Witness search for C20.O-2 (unit source_events): watch-mode source events versus a fresh
//! batch compile, on the REAL compiler. For every folder name in a small set (plain, dotted,
//! a name that is a prefix of another folder) and every event kind (remove folder, rename
//! folder, remove file, rename file, modify file, create file, a file losing its last literal,
//! an emptied file, a literal replaced by one for another field, a late literal) a tiny project is compiled the
//! way watch mode does at start-up, the file system is changed, the event the debounced
//! watcher delivers is handed to update_sources, the project is recompiled incrementally, and
//! diagnostics + artifact directory are compared with a fresh batch compile of the result.
//! Exit 0 = all agree, exit 1 = a difference (printed).
use std::{collections::BTreeMap, fs, path::{Path, PathBuf}};

use common_lang_types::CurrentWorkingDirectory;
use graphql_network_protocol::GraphQLAndJavascriptProfile;
use intern::string_key::Intern;
use isograph_compiler::{CompilerState, batch_compile::compile, update_sources, watch::{ChangedFileKind, SourceEventKind, verif_hooks::api_categorize_event}};
use isograph_config::create_config;

type P = GraphQLAndJavascriptProfile;
type Outcome = (Vec<String>, BTreeMap<String, String>);

fn component(name: &str, field: &str) -> String {
    format!("import {{ iso }} from '@iso';\nexport const {name} = iso(`\n  field Query.{name} @component {{\n    {field}\n  }}\n`)(() => null);\n")
}
fn write(path: &Path, content: &str) {
    fs::create_dir_all(path.parent().unwrap()).unwrap();
    fs::write(path, content).unwrap();
}
fn make_project(root: &Path, folder: &str) {
    let _ = fs::remove_dir_all(root);
    fs::create_dir_all(root).unwrap();
    write(&root.join("isograph.config.json"), r#"{ "project_root": "./src", "artifact_directory": "./out", "schema": "./schema.graphql" }"#);
    write(&root.join("schema.graphql"), "type Query {\n  hello: String\n  world: String\n}\n");
    write(&root.join("src/pages/Home.ts"), &component("Home", "hello"));
    // a sibling whose name EXTENDS the folder name (prefix confusion)
    write(&root.join("src").join(format!("{folder}x")).join("Other.ts"), &component("Other", "hello"));
    write(&root.join("src").join(folder).join("Legacy.ts"), &component("Legacy", "hello"));
}
fn new_state(root: &Path) -> CompilerState<P> {
    let cwd: CurrentWorkingDirectory = root.to_str().unwrap().intern().into();
    let config = create_config(&root.join("isograph.config.json"), cwd);
    CompilerState::new(config, cwd).unwrap_or_else(|e| panic!("sources cannot be read: {e}"))
}
fn artifacts(root: &Path) -> BTreeMap<String, String> {
    fn visit(base: &Path, dir: &Path, out: &mut BTreeMap<String, String>) {
        let Ok(entries) = fs::read_dir(dir) else { return };
        for entry in entries.flatten() {
            let path = entry.path();
            if path.is_dir() { visit(base, &path, out) } else {
                out.insert(path.strip_prefix(base).unwrap().to_string_lossy().to_string(), fs::read_to_string(&path).unwrap_or_default());
            }
        }
    }
    let base = root.join("out");
    let mut out = BTreeMap::new();
    visit(&base, &base, &mut out);
    out
}
fn outcome(root: &Path, state: &mut CompilerState<P>) -> Outcome {
    let diags = match compile::<P>(state) {
        Ok(_) => vec![],
        Err(es) => { let mut m: Vec<String> = es.iter().map(|e| e.0.message.clone()).collect(); m.sort(); m }
    };
    (diags, artifacts(root))
}

fn scenario(root: &Path, folder: &str, kind: usize) -> Result<(), String> {
    make_project(root, folder);
    let root = &root.canonicalize().unwrap();
    let mut state = new_state(root);
    let (d0, _) = outcome(root, &mut state);
    if !d0.is_empty() { return Err(format!("initial compile fails: {d0:?}")); }
    let dir = root.join("src").join(folder);
    let file = dir.join("Legacy.ts");
    // the raw watcher events (notify kind + paths, as the Linux watcher delivers them) go through
    // the REAL categorisation (hook api_categorize_event); events it drops are not delivered
    let config = state.db.get_isograph_config().clone();
    let cat = |raw: Vec<(&str, Vec<PathBuf>)>| -> Vec<(SourceEventKind, ChangedFileKind)> {
        raw.into_iter().filter_map(|(k, paths)| api_categorize_event(&config, k, &paths)).collect()
    };
    let schema = root.join("schema.graphql");
    let new_schema = "type Query {\n  hello: Int\n  world: String\n}\n";
    let (what, events): (&str, Vec<(SourceEventKind, ChangedFileKind)>) = match kind {
        0 => { fs::remove_dir_all(&dir).unwrap(); ("remove folder", cat(vec![("remove", vec![dir.clone()])])) }
        1 => { let to = root.join("src/archive"); fs::rename(&dir, &to).unwrap(); ("rename folder", cat(vec![("rename_both", vec![dir.clone(), to])])) }
        2 => { fs::remove_file(&file).unwrap(); ("remove file", cat(vec![("remove", vec![file.clone()])])) }
        3 => { let to = dir.join("Renamed.ts"); fs::rename(&file, &to).unwrap(); ("rename file", cat(vec![("rename_both", vec![file.clone(), to])])) }
        4 => { write(&file, &component("Legacy", "world")); ("modify file", cat(vec![("modify_data", vec![file.clone()])])) }
        5 => { let f = dir.join("New.ts"); write(&f, &component("New", "world")); ("create file", cat(vec![("create_file", vec![f])])) }
        // a tracked file loses its only literal / is emptied / gets a literal for ANOTHER field
        6 => { write(&file, "export const nothing = 1;\n"); ("modify file: last literal removed", cat(vec![("modify_data", vec![file.clone()])])) }
        7 => { write(&file, ""); ("modify file: emptied", cat(vec![("modify_data", vec![file.clone()])])) }
        8 => { write(&file, &component("Legacy2", "world")); ("modify file: literal replaced by one for another field", cat(vec![("modify_data", vec![file.clone()])])) }
        // a file without a literal is created, then gets one (two events in one batch)
        9 => { let f = dir.join("Late.ts"); write(&f, "export const later = 1;\n"); let mut e = cat(vec![("create_file", vec![f.clone()])]);
               write(&f, &component("Late", "world")); e.extend(cat(vec![("modify_data", vec![f])])); ("create file without a literal, then add one", e) }
        // the schema is edited in place / saved atomically (a temporary file renamed onto it): hello becomes an Int
        10 => { write(&schema, new_schema); ("schema modified in place", cat(vec![("modify_data", vec![schema.clone()])])) }
        11 => { let tmp = root.join("schema.graphql.tmp"); write(&tmp, new_schema); fs::rename(&tmp, &schema).unwrap();
                ("schema saved atomically (temporary file renamed onto it)", cat(vec![("rename_both", vec![tmp, schema.clone()])])) }
        // things are moved OUT of what is watched: the rename's target is nothing the watcher cares about
        12 => { let to = root.join("Legacy.moved.ts"); fs::rename(&file, &to).unwrap(); ("source file moved out of the project", cat(vec![("rename_both", vec![file.clone(), to])])) }
        13 => { let to = root.join("moved_folder"); fs::rename(&dir, &to).unwrap(); ("folder moved out of the project", cat(vec![("rename_both", vec![dir.clone(), to])])) }
        // files that are NOT sources: another extension (with a literal inside) and binary content
        14 => { let f = dir.join("notes.md"); write(&f, &component("Notes", "world")); ("create a non-source file (notes.md) that contains a literal", cat(vec![("create_file", vec![f])])) }
        15 => { let f = dir.join("blob.bin"); fs::create_dir_all(&dir).unwrap(); fs::write(&f, [0xffu8, 0xfe, 0x00, 0x80]).unwrap(); ("create a binary (non-UTF-8) file blob.bin", cat(vec![("create_file", vec![f])])) }
        // a binary file WITH a source extension: neither mode can read it
        16 => { let f = dir.join("blob.ts"); fs::create_dir_all(&dir).unwrap(); fs::write(&f, [0xffu8, 0xfe, 0x00, 0x80]).unwrap(); ("create a binary (non-UTF-8) file blob.ts", cat(vec![("create_file", vec![f])])) }
        _ => unreachable!(),
    };
    if let Err(es) = update_sources(&mut state.db, &events) {
        // watch mode ends with this error; acceptable only if a fresh start cannot read the sources either
        let fresh_starts = std::panic::catch_unwind(|| { let _ = new_state(root); }).is_ok();
        if fresh_starts {
            return Err(format!("{what} in folder {folder:?}: update_sources failed (the watcher would stop) although a fresh start reads the sources: {:?}", es.iter().map(|e| e.to_string()).collect::<Vec<_>>()));
        }
        return Ok(());
    }
    if std::panic::catch_unwind(|| { let _ = new_state(root); }).is_err() {
        return Err(format!("{what} in folder {folder:?}: a fresh start cannot read the sources, but watch mode carried on without an error"));
    }
    let watch = outcome(root, &mut state);
    fs::remove_dir_all(root.join("out")).unwrap();
    let mut fresh_state = new_state(root);
    let fresh = outcome(root, &mut fresh_state);
    if watch.0 != fresh.0 {
        return Err(format!("{what} in folder {folder:?}: diagnostics differ: watch {:?} / fresh {:?}", watch.0, fresh.0));
    }
    // (a failing compile leaves the artifact directory as it was - C17 - so artifacts are
    // compared only when the compile succeeds)
    if watch.0.is_empty() && watch.1 != fresh.1 {
        let wrong: Vec<&String> = watch.1.iter().filter(|(k, v)| fresh.1.get(*k).is_some_and(|w| w != *v)).map(|(k, _)| k).collect();
        if !wrong.is_empty() { return Err(format!("{what} in folder {folder:?}: artifacts differ in CONTENT from a fresh batch compile: {wrong:?}")); }
        let extra: Vec<&String> = watch.1.keys().filter(|k| !fresh.1.contains_key(*k)).collect();
        let missing: Vec<&String> = fresh.1.keys().filter(|k| !watch.1.contains_key(*k)).collect();
        return Err(format!("{what} in folder {folder:?}: artifacts differ from a fresh batch compile: stale {extra:?} missing {missing:?}"));
    }
    Ok(())
}

fn main() {
    std::panic::set_hook(Box::new(|_| {}));
    let root = PathBuf::from(std::env::args().nth(1).unwrap_or("p_watch_events".into()));
    let root = if root.is_absolute() { root } else { std::env::current_dir().unwrap().join(root) };
    let mut n = 0;
    for folder in ["pages_old", "pages.old", "api.v2", "a"] {
        for kind in 0..17 {
            n += 1;
            if let Err(m) = scenario(&root, folder, kind) {
                println!("DIFFERENT: {m}");
                std::process::exit(1);
            }
        }
    }
    let _ = fs::remove_dir_all(&root);
    println!("scenarios={n} watch mode agrees with a fresh batch compile");
}
