//! Witness search for C18 (units fs_state / compile_driver): "after a successful compile the
//! artifact directory equals the artifacts ... later compiles write only what changed".
//! Four client fields on two parent types that SHARE selectable names (Query.Foo, Query.Bar,
//! Pet.Foo, Pet.Bar), each absent or present in one of `variants` versions. For EVERY ordered
//! pair (S1, S2) of such projects: compile S1, edit to S2, compile again in the same session
//! (the incremental diff plan), and compare the artifact directory with a fresh batch compile
//! of S2. Exit 0 = all agree, exit 1 = stale / missing / wrong artifacts (pair printed).
//! usage: fs_session_search <dir> [variants = 1]
use std::{collections::BTreeMap, fs, path::{Path, PathBuf}};

use common_lang_types::CurrentWorkingDirectory;
use graphql_network_protocol::GraphQLAndJavascriptProfile;
use intern::string_key::Intern;
use isograph_compiler::{CompilerState, batch_compile::compile};
use isograph_config::create_config;

type P = GraphQLAndJavascriptProfile;
const FIELDS: [(&str, &str, [&str; 2]); 4] = [
    ("Query", "Foo", ["hello", "world"]), ("Query", "Bar", ["hello", "world"]),
    ("Pet", "Foo", ["name", "nick"]), ("Pet", "Bar", ["name", "nick"]),
];

fn source(state: &[usize]) -> String {
    let mut s = String::from("import { iso } from '@iso';\n");
    for (i, (parent, name, sel)) in FIELDS.iter().enumerate() {
        if state[i] > 0 {
            s += &format!("export const {parent}{name} = iso(`\n  field {parent}.{name} @component {{\n    {}\n  }}\n`)(() => null);\n", sel[state[i] - 1]);
        }
    }
    s
}
fn setup(root: &Path, state: &[usize]) {
    let _ = fs::remove_dir_all(root);
    fs::create_dir_all(root.join("src")).unwrap();
    fs::write(root.join("schema.graphql"), "type Query {\n  hello: String\n  world: String\n  pet: Pet\n}\ntype Pet {\n  name: String\n  nick: String\n}\n").unwrap();
    fs::write(root.join("isograph.config.json"), "{ \"project_root\": \"./src\", \"schema\": \"./schema.graphql\" }").unwrap();
    fs::write(root.join("src/a.ts"), source(state)).unwrap();
}
fn files(root: &Path) -> BTreeMap<String, String> {
    fn visit(base: &Path, dir: &Path, out: &mut BTreeMap<String, String>) {
        let Ok(rd) = fs::read_dir(dir) else { return };
        for e in rd.flatten() {
            let p = e.path();
            if p.is_dir() { visit(base, &p, out) } else { out.insert(p.strip_prefix(base).unwrap().display().to_string(), fs::read_to_string(&p).unwrap_or_default()); }
        }
    }
    let base = root.join("src/__isograph");
    let mut out = BTreeMap::new();
    visit(&base, &base, &mut out);
    out
}
fn new_state(root: &Path) -> CompilerState<P> {
    let cwd: CurrentWorkingDirectory = root.to_str().unwrap().intern().into();
    let config = create_config(&root.join("isograph.config.json"), cwd);
    CompilerState::<P>::new(config, cwd).map_err(|e| e.0).expect("state")
}
fn states(variants: usize) -> Vec<Vec<usize>> {
    let base = variants + 1;
    (0..base.pow(4)).map(|mut c| (0..4).map(|_| { let d = c % base; c /= base; d }).collect()).collect()
}

fn main() {
    let root = PathBuf::from(std::env::args().nth(1).unwrap_or("p_fs_session".into()));
    let root = if root.is_absolute() { root } else { std::env::current_dir().unwrap().join(root) };
    let root2 = PathBuf::from(format!("{}_fresh", root.display()));
    let variants: usize = std::env::args().nth(2).and_then(|s| s.parse().ok()).unwrap_or(1);
    let all = states(variants);
    // fresh batch compile of every project, once
    let mut fresh: Vec<BTreeMap<String, String>> = vec![];
    for s in &all {
        setup(&root2, s);
        let mut st = new_state(&root2);
        compile::<P>(&mut st).map_err(|e| format!("{e:?}")).expect("fresh compile");
        fresh.push(files(&root2));
    }
    let rel: common_lang_types::RelativePathToSourceFile = "src/a.ts".intern().into();
    let mut n = 0usize;
    for (i1, s1) in all.iter().enumerate() {
        for (i2, s2) in all.iter().enumerate() {
            if i1 == i2 { continue; }
            n += 1;
            setup(&root, s1);
            let mut st = new_state(&root);
            compile::<P>(&mut st).map_err(|e| format!("{e:?}")).expect("first compile");
            st.db.insert_iso_literal(rel, source(s2));
            if let Err(e) = compile::<P>(&mut st) {
                println!("DIFFERENT: fields {s1:?} -> {s2:?} (0 absent; order Query.Foo Query.Bar Pet.Foo Pet.Bar): the second compile failed: {:?}", e.iter().map(|d| d.0.message.clone()).collect::<Vec<_>>());
                std::process::exit(1);
            }
            let got = files(&root);
            if got != fresh[i2] {
                let stale: Vec<&String> = got.keys().filter(|k| !fresh[i2].contains_key(*k)).collect();
                let missing: Vec<&String> = fresh[i2].keys().filter(|k| !got.contains_key(*k)).collect();
                let wrong: Vec<&String> = got.iter().filter(|(k, v)| fresh[i2].get(*k).is_some_and(|w| w != *v)).map(|(k, _)| k).collect();
                println!("DIFFERENT: fields {s1:?} -> {s2:?} (0 absent; order Query.Foo Query.Bar Pet.Foo Pet.Bar): after the successful second compile the directory is not the fresh compile of the second project: stale {stale:?} missing {missing:?} wrong content {wrong:?}");
                std::process::exit(1);
            }
        }
    }
    let _ = fs::remove_dir_all(&root);
    let _ = fs::remove_dir_all(&root2);
    println!("sessions={n} the incremental compile always leaves exactly the artifacts of a fresh compile");
}
