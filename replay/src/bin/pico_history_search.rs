//! Witness search for the derived-node obligations of C01 (units pico_source / pico_gc):
//! EVERY history of at most 5 steps (argument: another bound) over
//!   set a := "ax" | "ay" | "qx",  set b := "1" | "2",
//!   call first(a) | upper(a) | alpha(a) | describe(a) | combo(a, b),  collect garbage
//! is run on the real pico; after every call the memoized value is compared with a
//! from-scratch evaluation on the current sources. (Sources are always present: the
//! absent-source case is the separate known finding C01.O-2b.)
//! Exit 0 = all agree, exit 1 = a stale value (the history is printed).
use pico::{Database, SourceId, Storage};
use pico_macros::{Db, Source, memo};

#[derive(Db, Default)]
struct TestDatabase {
    storage: Storage<Self>,
}

#[derive(Debug, Clone, PartialEq, Eq, Source)]
struct Input {
    #[key]
    pub key: &'static str,
    pub value: String,
}

#[memo]
fn first(db: &TestDatabase, id: SourceId<Input>) -> char { db.get(id).value.chars().next().unwrap() }
#[memo]
fn upper(db: &TestDatabase, id: SourceId<Input>) -> char { first(db, id).to_ascii_uppercase() }
/// same value for every alphabetic first letter: backdated when the letter changes
#[memo]
fn alpha(db: &TestDatabase, id: SourceId<Input>) -> bool { first(db, id).is_alphabetic() }
/// reaches `first` by two routes, the backdated one first
#[memo]
fn describe(db: &TestDatabase, id: SourceId<Input>) -> String {
    let a = *alpha(db, id);
    let l = *first(db, id);
    format!("{l}:{a}")
}
#[memo]
fn combo(db: &TestDatabase, a: SourceId<Input>, b: SourceId<Input>) -> String {
    format!("{}{}", *upper(db, a), db.get(b).value)
}

const A_VALUES: [&str; 3] = ["ax", "ay", "qx"];
const B_VALUES: [&str; 2] = ["1", "2"];
const OPS: usize = 11;

fn run(history: &[usize]) -> Result<(), String> {
    let mut db = TestDatabase { storage: Storage::new_with_capacity(2.try_into().unwrap()) };
    let (mut av, mut bv) = (A_VALUES[0].to_string(), B_VALUES[0].to_string());
    let a = db.set(Input { key: "a", value: av.clone() });
    let b = db.set(Input { key: "b", value: bv.clone() });
    for (n, op) in history.iter().enumerate() {
        let f = av.chars().next().unwrap();
        let bad = |what: &str, got: String, want: String| {
            Err(format!("history {:?} step {n}: {what} returned {got:?}, from scratch {want:?} (ops: 0-2 set a, 3-4 set b, 5 first, 6 upper, 7 alpha, 8 describe, 9 combo, 10 collect)", history))
        };
        match *op {
            0..=2 => { av = A_VALUES[*op].to_string(); db.set(Input { key: "a", value: av.clone() }); }
            3..=4 => { bv = B_VALUES[*op - 3].to_string(); db.set(Input { key: "b", value: bv.clone() }); }
            5 => { let g = *first(&db, a); if g != f { return bad("first", g.to_string(), f.to_string()); } }
            6 => { let g = *upper(&db, a); let w = f.to_ascii_uppercase(); if g != w { return bad("upper", g.to_string(), w.to_string()); } }
            7 => { let g = *alpha(&db, a); let w = f.is_alphabetic(); if g != w { return bad("alpha", g.to_string(), w.to_string()); } }
            8 => { let g = describe(&db, a).clone(); let w = format!("{f}:{}", f.is_alphabetic()); if g != w { return bad("describe", g, w); } }
            9 => { let g = combo(&db, a, b).clone(); let w = format!("{}{}", f.to_ascii_uppercase(), bv); if g != w { return bad("combo", g, w); } }
            _ => db.run_garbage_collection(),
        }
    }
    Ok(())
}

fn main() {
    let max_len: usize = std::env::args().nth(1).and_then(|s| s.parse().ok()).unwrap_or(5);
    let mut n = 0usize;
    for len in 0..=max_len {
        let total = OPS.pow(len as u32);
        for code in 0..total {
            let mut h = Vec::with_capacity(len);
            let mut c = code;
            for _ in 0..len { h.push(c % OPS); c /= OPS; }
            n += 1;
            if let Err(m) = run(&h) {
                println!("STALE: {m}");
                std::process::exit(1);
            }
        }
    }
    println!("histories={n} every memoized value equals the from-scratch value");
}
