//! Witness search for the derived-node obligations of C01 (units pico_source / pico_gc):
//! EVERY history of at most 5 steps (argument: another bound) over
//!   set a := "ax" | "ay" | "qx",  set b := "1" | "2"  (b is a singleton, read with get_singleton),
//!   call first(a) | upper(a) | alpha(a) | describe(a) | combo(a, b),  collect garbage
//! is run on the real pico; after every call the memoized value is compared with a
//! from-scratch evaluation on the current sources. (Sources are always present: the
//! absent-source case is the separate known finding C01.O-2b.)
//! In collection-free histories the number of times each memoized body ran is compared with a
//! reference model of minimal re-execution (C02, incl. backdating).
//! Exit 0 = all agree, exit 1 = a stale value or a wrong execution count (history printed).
use std::sync::atomic::{AtomicUsize, Ordering};

use pico::{Database, SourceId, Storage};
use pico_macros::{Db, Singleton, Source, memo};

/// how often each memoized body ran: first, upper, alpha, describe, combo
static RUNS: [AtomicUsize; 5] = [AtomicUsize::new(0), AtomicUsize::new(0), AtomicUsize::new(0), AtomicUsize::new(0), AtomicUsize::new(0)];

#[derive(Db, Default)]
struct TestDatabase {
    storage: Storage<Self>,
}

#[derive(Debug, Clone, PartialEq, Eq, Source)]
struct Input {
    #[key]
    pub key: &'static str,
    pub value: String,
}

/// source b is a SINGLETON, read through `Database::get_singleton` (the other public reader;
/// always present here, so the known finding about absent sources stays out of it)
#[derive(Debug, Clone, PartialEq, Eq, Singleton)]
struct Suffix {
    pub value: String,
}

#[memo]
fn first(db: &TestDatabase, id: SourceId<Input>) -> char { RUNS[0].fetch_add(1, Ordering::SeqCst); db.get(id).value.chars().next().unwrap() }
#[memo]
fn upper(db: &TestDatabase, id: SourceId<Input>) -> char { RUNS[1].fetch_add(1, Ordering::SeqCst); first(db, id).to_ascii_uppercase() }
/// same value for every alphabetic first letter: backdated when the letter changes
#[memo]
fn alpha(db: &TestDatabase, id: SourceId<Input>) -> bool { RUNS[2].fetch_add(1, Ordering::SeqCst); first(db, id).is_alphabetic() }
/// reaches `first` by two routes, the backdated one first
#[memo]
fn describe(db: &TestDatabase, id: SourceId<Input>) -> String {
    RUNS[3].fetch_add(1, Ordering::SeqCst);
    let a = *alpha(db, id);
    let l = *first(db, id);
    format!("{l}:{a}")
}
#[memo]
fn combo(db: &TestDatabase, a: SourceId<Input>) -> String {
    RUNS[4].fetch_add(1, Ordering::SeqCst);
    format!("{}{}", *upper(db, a), db.get_singleton::<Suffix>().expect("b is always present").value)
}

/// Reference for C02 (collection-free histories): a body runs exactly when it never ran, or a
/// DIRECT input has changed since its last run - a source by its number of effective writes, a
/// memoized dependency by its revision, which advances only when the dependency re-runs to a
/// value different from its previous one (backdating: an intermediate that re-runs to an equal
/// value does not make its dependents re-run).
#[derive(Default)]
struct Model { va: usize, vb: usize, seen: [Option<Vec<usize>>; 5], value: [String; 5], rev: [usize; 5], expected: [usize; 5] }
impl Model {
    fn ensure(&mut self, f: usize, av: &str, bv: &str) {
        let l = av.chars().next().unwrap();
        let (inputs, value) = match f {
            0 => (vec![self.va], l.to_string()),
            1 => { self.ensure(0, av, bv); (vec![self.rev[0]], l.to_ascii_uppercase().to_string()) }
            2 => { self.ensure(0, av, bv); (vec![self.rev[0]], l.is_alphabetic().to_string()) }
            3 => { self.ensure(2, av, bv); self.ensure(0, av, bv); (vec![self.rev[2], self.rev[0]], format!("{l}:{}", l.is_alphabetic())) }
            _ => { self.ensure(1, av, bv); (vec![self.rev[1], self.vb], format!("{}{bv}", l.to_ascii_uppercase())) }
        };
        if self.seen[f].as_ref() != Some(&inputs) {
            self.expected[f] += 1;
            if self.seen[f].is_none() || self.value[f] != value { self.rev[f] += 1; }
            self.value[f] = value;
            self.seen[f] = Some(inputs);
        }
    }
}

const A_VALUES: [&str; 3] = ["ax", "ay", "qx"];
const B_VALUES: [&str; 2] = ["1", "2"];
const OPS: usize = 11;

fn run(history: &[usize]) -> Result<(), String> {
    for r in &RUNS { r.store(0, Ordering::SeqCst); }
    let mut model = Model::default();
    let count_runs = !history.contains(&10);
    let mut db = TestDatabase { storage: Storage::new_with_capacity(2.try_into().unwrap()) };
    let (mut av, mut bv) = (A_VALUES[0].to_string(), B_VALUES[0].to_string());
    let a = db.set(Input { key: "a", value: av.clone() });
    db.set(Suffix { value: bv.clone() });
    for (n, op) in history.iter().enumerate() {
        let f = av.chars().next().unwrap();
        let bad = |what: &str, got: String, want: String| {
            Err(format!("history {:?} step {n}: {what} returned {got:?}, from scratch {want:?} (ops: 0-2 set a, 3-4 set b, 5 first, 6 upper, 7 alpha, 8 describe, 9 combo, 10 collect)", history))
        };
        match *op {
            0..=2 => { if av != A_VALUES[*op] { model.va += 1; } av = A_VALUES[*op].to_string(); db.set(Input { key: "a", value: av.clone() }); }
            3..=4 => { if bv != B_VALUES[*op - 3] { model.vb += 1; } bv = B_VALUES[*op - 3].to_string(); db.set(Suffix { value: bv.clone() }); }
            5 => { let g = *first(&db, a); if g != f { return bad("first", g.to_string(), f.to_string()); } }
            6 => { let g = *upper(&db, a); let w = f.to_ascii_uppercase(); if g != w { return bad("upper", g.to_string(), w.to_string()); } }
            7 => { let g = *alpha(&db, a); let w = f.is_alphabetic(); if g != w { return bad("alpha", g.to_string(), w.to_string()); } }
            8 => { let g = describe(&db, a).clone(); let w = format!("{f}:{}", f.is_alphabetic()); if g != w { return bad("describe", g, w); } }
            9 => { let g = combo(&db, a).clone(); let w = format!("{}{}", f.to_ascii_uppercase(), bv); if g != w { return bad("combo", g, w); } }
            _ => db.run_garbage_collection(),
        }
        if count_runs && (5..=9).contains(op) {
            model.ensure(*op - 5, &av, &bv);
            for f in 0..5 {
                let ran = RUNS[f].load(Ordering::SeqCst);
                if ran != model.expected[f] {
                    return Err(format!("history {:?} step {n}: the body of function {f} (0 first, 1 upper, 2 alpha, 3 describe, 4 combo) ran {ran} time(s), minimal re-execution needs {} (ops: 0-2 set a, 3-4 set b, 5 first, 6 upper, 7 alpha, 8 describe, 9 combo)", history, model.expected[f]));
                }
            }
        }
    }
    Ok(())
}

fn main() {
    let max_len: usize = std::env::args().nth(1).and_then(|s| s.parse().ok()).unwrap_or(5);
    let mut n = 0usize;
    for len in 0..=max_len {
        let total = OPS.pow(len as u32);
        for code in 0..total {
            let mut h = Vec::with_capacity(len);
            let mut c = code;
            for _ in 0..len { h.push(c % OPS); c /= OPS; }
            n += 1;
            if let Err(m) = run(&h) {
                println!("DIFFERENT: {m}");
                std::process::exit(1);
            }
        }
    }
    println!("histories={n} every memoized value equals the from-scratch value; execution counts match minimal re-execution");
}
