//! Bounded stress for C06 on the REAL intern::atomic_arena (uncontrolled schedules, so a sample,
//! not an exploration): `threads` threads (default 6) each add `per_thread` elements (default
//! 3000, crossing the 128 / 256 / 512 / .. bucket boundaries while racing for the same buckets),
//! reading every element back immediately and again at the end; repeated `rounds` times (default
//! 30) on fresh arenas. Checked: every reference is distinct, reads back its own element at once
//! and at the end from every thread, and len() equals the number of completed additions.
//! Exit 0 = held in every round; exit 1 = a violation (printed). A correct arena can never fail.
//! usage: arena_stress [threads = 6] [per_thread = 3000] [rounds = 30]
use std::collections::HashSet;
use std::thread;

use intern::verif_hooks::AtomicArena;

fn main() {
    let a = |i: usize, d: usize| std::env::args().nth(i).and_then(|s| s.parse().ok()).unwrap_or(d);
    let (threads, per_thread, rounds) = (a(1, 6), a(2, 3000), a(3, 30));
    for round in 0..rounds {
        let arena: &'static AtomicArena<'static, (usize, usize)> = Box::leak(Box::new(AtomicArena::new()));
        let handles: Vec<_> = (0..threads).map(|t| thread::spawn(move || {
            let mut refs = Vec::with_capacity(per_thread);
            for i in 0..per_thread {
                let r = arena.add((t, i));
                if *arena.get(r) != (t, i) { return Err(format!("thread {t}: element {i} reads back {:?} right after it was added", *arena.get(r))); }
                refs.push(r);
            }
            Ok(refs)
        })).collect();
        let mut all = vec![];
        for (t, h) in handles.into_iter().enumerate() {
            match h.join() {
                Ok(Ok(refs)) => all.push(refs),
                Ok(Err(m)) => { println!("DIFFERENT: round {round}: {m}"); std::process::exit(1); }
                Err(_) => { println!("DIFFERENT: round {round}: thread {t} panicked inside the arena"); std::process::exit(1); }
            }
        }
        if arena.len() != threads * per_thread { println!("DIFFERENT: round {round}: len() = {} after {} completed additions", arena.len(), threads * per_thread); std::process::exit(1); }
        let mut seen = HashSet::new();
        for (t, refs) in all.iter().enumerate() {
            for (i, r) in refs.iter().enumerate() {
                if !seen.insert(r.index()) { println!("DIFFERENT: round {round}: the reference {} was handed out twice", r.index()); std::process::exit(1); }
                if *arena.get(*r) != (t, i) { println!("DIFFERENT: round {round}: reference {} of thread {t} reads back {:?} instead of ({t}, {i}) at the end", r.index(), *arena.get(*r)); std::process::exit(1); }
            }
        }
    }
    println!("rounds={rounds} threads={threads} x {per_thread}: distinct references, every element reads back, len exact");
}
