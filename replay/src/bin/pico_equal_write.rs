//! Witness for C02.O-7b: writing a source with an EQUAL value after an unrelated source
//! changed must not re-execute a function that only read the first source.
//! Exit 0 = no spurious re-execution, exit 1 = body ran again.
use std::sync::atomic::{AtomicUsize, Ordering};

use pico::{Database, SourceId, Storage};
use pico_macros::{Db, Source, memo};

static RUNS: AtomicUsize = AtomicUsize::new(0);

#[derive(Db, Default)]
struct TestDatabase {
    storage: Storage<Self>,
}

#[derive(Debug, Clone, PartialEq, Eq, Source)]
struct Input {
    #[key]
    pub key: &'static str,
    pub value: String,
}

#[memo]
fn first_letter(db: &TestDatabase, id: SourceId<Input>) -> char {
    RUNS.fetch_add(1, Ordering::SeqCst);
    db.get(id).value.chars().next().unwrap()
}

fn main() {
    let mut db = TestDatabase::default();
    let a = db.set(Input { key: "a", value: "asdf".to_string() });
    let _b = db.set(Input { key: "b", value: "x".to_string() });
    assert_eq!(*first_letter(&db, a), 'a');
    assert_eq!(RUNS.load(Ordering::SeqCst), 1);
    // unrelated change advances the clock
    db.set(Input { key: "b", value: "y".to_string() });
    // equal-value write of the source that was read
    db.set(Input { key: "a", value: "asdf".to_string() });
    assert_eq!(*first_letter(&db, a), 'a');
    let runs = RUNS.load(Ordering::SeqCst);
    println!("runs={runs}");
    if runs != 1 {
        println!("SPURIOUS: equal-value write after an unrelated change re-executed the reader");
        std::process::exit(1);
    }
}
