//! Witness for C01.O-2b: a memoized function reads an absent singleton, the singleton
//! is then written for the first time; the memoized result must equal a from-scratch
//! evaluation.  Exit 0 = property holds on this history, exit 1 = stale result.
use pico::{Database, Storage};
use pico_macros::{Db, Singleton, memo};

#[derive(Db, Default)]
struct TestDatabase {
    storage: Storage<Self>,
}

#[derive(Debug, Clone, PartialEq, Eq, Singleton)]
struct Input {
    pub value: String,
}

fn scratch(db: &TestDatabase) -> usize {
    match db.get_singleton::<Input>() {
        Some(i) => i.value.len(),
        None => 0,
    }
}

#[memo]
fn input_len(db: &TestDatabase) -> usize {
    scratch(db)
}

fn main() {
    let mut db = TestDatabase::default();
    let a = *input_len(&db);
    assert_eq!(a, scratch(&db));
    db.set(Input { value: "asdf".to_string() });
    let memo = *input_len(&db);
    let fresh = scratch(&db);
    println!("memoized={memo} from_scratch={fresh}");
    if memo != fresh {
        println!("STALE: first write of an absent source did not invalidate the memoized reader");
        std::process::exit(1);
    }
}
