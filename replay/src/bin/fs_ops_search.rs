//! Bounded exhaustive replay for C18 / C19 (units fs_state, compile_driver) on the REAL planner
//! and the REAL applier (`get_file_system_operations`, `apply_file_system_operations`, reached
//! through the visibility-only hook) against a real directory.
//! Universe: `paths` artifact paths (a root file and files in selectable directories that share
//! entity and selectable names), each absent or present with one of two contents. For EVERY
//! sequence of `depth` artifact lists (one session: first compile = recreate_all, later ones =
//! diff): after every compile, which must succeed, the directory holds exactly the artifacts
//! of that compile (no stale file, no empty stale directory of a selectable or entity, right
//! contents) and a later compile writes or deletes only paths whose content changed.
//! usage: fs_ops_search <dir> [paths = 4] [depth = 2]
use std::{collections::BTreeMap, fs, path::{Path, PathBuf}};

use artifact_content::FileSystemState;
use common_lang_types::{ArtifactPath, ArtifactPathAndContent, EntityNameAndSelectableName, FileSystemOperation};
use intern::string_key::Intern;
use isograph_compiler::verif_hooks::{api_apply_file_system_operations, api_get_file_system_operations};

const PATHS: [(Option<(&str, &str)>, &str); 6] = [
    (Some(("A", "x")), "f.ts"), (Some(("A", "x")), "g.ts"), (Some(("A", "y")), "f.ts"),
    (None, "r.ts"), (Some(("B", "x")), "f.ts"), (Some(("B", "x")), "g.ts"),
];

/// two contents of DIFFERENT lengths (a rewrite that does not truncate leaves a tail)
fn content(v: usize, name: &str) -> String { if v == 1 { format!("content one of {name}, the long version of this file\n") } else { format!("2 {name}") } }
fn artifacts(state: &[usize]) -> Vec<ArtifactPathAndContent> {
    let mut v = vec![];
    for (i, (tf, name)) in PATHS.iter().enumerate().take(state.len()) {
        if state[i] > 0 {
            v.push(ArtifactPathAndContent {
                artifact_path: ArtifactPath {
                    type_and_field: tf.map(|(e, s)| EntityNameAndSelectableName { parent_entity_name: e.intern().into(), selectable_name: s.intern().into() }),
                    file_name: name.intern().into(),
                },
                file_content: content(state[i], name).into(),
            });
        }
    }
    v
}
fn rel(i: usize) -> String {
    match PATHS[i].0 { Some((e, s)) => format!("{e}/{s}/{}", PATHS[i].1), None => PATHS[i].1.to_string() }
}
/// files (relative path -> content) and directories below `base`
fn snapshot(base: &Path) -> (BTreeMap<String, String>, Vec<String>) {
    fn visit(base: &Path, dir: &Path, f: &mut BTreeMap<String, String>, d: &mut Vec<String>) {
        let Ok(rd) = fs::read_dir(dir) else { return };
        for e in rd.flatten() {
            let p = e.path();
            let r = p.strip_prefix(base).unwrap().display().to_string();
            if p.is_dir() { d.push(r); visit(base, &p, f, d) } else { f.insert(r, fs::read_to_string(&p).unwrap_or_default()); }
        }
    }
    let (mut f, mut d) = (BTreeMap::new(), vec![]);
    visit(base, base, &mut f, &mut d);
    d.sort();
    (f, d)
}
fn expected(state: &[usize]) -> (BTreeMap<String, String>, Vec<String>) {
    let mut f = BTreeMap::new();
    let mut d = vec![];
    for i in 0..state.len() {
        if state[i] > 0 {
            f.insert(rel(i), content(state[i], PATHS[i].1));
            if let Some((e, s)) = PATHS[i].0 { d.push(e.to_string()); d.push(format!("{e}/{s}")); }
        }
    }
    d.sort(); d.dedup();
    (f, d)
}

fn main() {
    let root = PathBuf::from(std::env::args().nth(1).unwrap_or("p_fs_ops".into()));
    let root = if root.is_absolute() { root } else { std::env::current_dir().unwrap().join(root) };
    let paths: usize = std::env::args().nth(2).and_then(|s| s.parse().ok()).unwrap_or(4).min(PATHS.len());
    let depth: usize = std::env::args().nth(3).and_then(|s| s.parse().ok()).unwrap_or(2);
    let dir = root.join("__isograph");
    // the empty artifact list is left out: every compile emits the root files iso.ts and
    // tsconfig.json (generate_artifacts.rs), so no compile produces it. (With it, `diff` from
    // an empty state writes a root file into a directory nobody created and the compile FAILS;
    // C18 speaks about successful compiles only.)
    let all: Vec<Vec<usize>> = (1..3usize.pow(paths as u32)).map(|mut c| (0..paths).map(|_| { let d = c % 3; c /= 3; d }).collect()).collect();
    let total = all.len().pow(depth as u32);
    let mut n = 0usize;
    for code in 0..total {
        let mut c = code;
        let seq: Vec<&Vec<usize>> = (0..depth).map(|_| { let s = &all[c % all.len()]; c /= all.len(); s }).collect();
        let _ = fs::remove_dir_all(&root);
        fs::create_dir_all(&root).unwrap();
        let mut fss: Option<FileSystemState> = None;
        let mut prev: Option<&Vec<usize>> = None;
        for (k, st) in seq.iter().enumerate() {
            let arts = artifacts(st);
            let ops = api_get_file_system_operations(&arts, &dir, &mut fss);
            let hist = || format!("history {:?} (per path {:?}: 0 absent, 1/2 contents), compile #{}", seq, (0..paths).map(rel).collect::<Vec<_>>(), k + 1);
            if let Err(e) = api_apply_file_system_operations(&ops, &arts) {
                println!("DIFFERENT: {}: applying the plan failed: {}", hist(), e.0);
                std::process::exit(1);
            }
            let (want_f, want_d) = expected(st);
            let (got_f, got_d) = snapshot(&dir);
            if got_f != want_f || (!want_f.is_empty() && got_d != want_d) {
                println!("DIFFERENT: {}: after the successful compile the directory is not the artifact list: files {:?} dirs {:?}, wanted files {:?} dirs {:?}", hist(), got_f.keys().collect::<Vec<_>>(), got_d, want_f.keys().collect::<Vec<_>>(), want_d);
                std::process::exit(1);
            }
            if let Some(p) = prev {
                // a later compile touches only what changed
                for op in &ops {
                    let (path, is_write) = match op { FileSystemOperation::WriteFile(p, _) => (p, true), FileSystemOperation::DeleteFile(p) => (p, false), _ => continue };
                    let r = path.strip_prefix(&dir).unwrap().display().to_string();
                    let i = (0..paths).find(|i| rel(*i) == r);
                    let unchanged = i.is_some_and(|i| p[i] == st[i]);
                    if unchanged || i.is_none() {
                        println!("DIFFERENT: {}: the plan {} {r}, whose content did not change", hist(), if is_write { "writes" } else { "deletes" });
                        std::process::exit(1);
                    }
                }
            }
            prev = Some(st);
        }
        n += 1;
    }
    // C19, crash points: for every pair of lists over the first 3 paths and EVERY prefix of the
    // second compile's plan (the process is killed after k operations), a FRESH process (nothing
    // remembered) compiles the second list again: the directory must be exactly that list. The
    // first compile of every session also starts from a directory holding junk (a file where an
    // entity directory will be, a directory where a root file will be, a stray file).
    let mut crashes = 0usize;
    let small: Vec<Vec<usize>> = (1..3usize.pow(3)).map(|mut c| (0..3).map(|_| { let d = c % 3; c /= 3; d }).collect()).collect();
    for s1 in &small {
        for s2 in &small {
            let arts1 = artifacts(s1);
            let arts2 = artifacts(s2);
            // length of the second plan
            let len = { let _ = fs::remove_dir_all(&root); fs::create_dir_all(&root).unwrap(); let mut fss = None;
                let o1 = api_get_file_system_operations(&arts1, &dir, &mut fss); api_apply_file_system_operations(&o1, &arts1).map_err(|e| e.0).expect("first compile");
                api_get_file_system_operations(&arts2, &dir, &mut fss).len() };
            for k in 0..=len {
                let _ = fs::remove_dir_all(&root);
                fs::create_dir_all(dir.join("r.ts")).unwrap();          // a directory where a root file will be
                fs::write(dir.join("A"), "junk").unwrap();              // a file where an entity directory will be
                fs::write(dir.join("stray.txt"), "junk").unwrap();
                let mut fss = None;
                let o1 = api_get_file_system_operations(&arts1, &dir, &mut fss);
                if let Err(e) = api_apply_file_system_operations(&o1, &arts1) { println!("DIFFERENT: first compile of {s1:?} on a directory holding junk fails: {}", e.0); std::process::exit(1); }
                let o2 = api_get_file_system_operations(&arts2, &dir, &mut fss);
                let _ = api_apply_file_system_operations(&o2[..k.min(o2.len())], &arts2);   // killed after k operations
                let mut fresh = None;                                                        // a new process remembers nothing
                let o3 = api_get_file_system_operations(&arts2, &dir, &mut fresh);
                if let Err(e) = api_apply_file_system_operations(&o3, &arts2) { println!("DIFFERENT: lists {s1:?} then {s2:?}, killed after {k} of {len} operations: the fresh process fails: {}", e.0); std::process::exit(1); }
                let (want_f, want_d) = expected(s2);
                let (got_f, got_d) = snapshot(&dir);
                if got_f != want_f || got_d != want_d {
                    println!("DIFFERENT: lists {s1:?} then {s2:?} (paths {:?}), killed after {k} of {len} operations, fresh process: directory holds files {:?} dirs {:?}, wanted {:?} {:?}", (0..3).map(rel).collect::<Vec<_>>(), got_f.keys().collect::<Vec<_>>(), got_d, want_f.keys().collect::<Vec<_>>(), want_d);
                    std::process::exit(1);
                }
                crashes += 1;
            }
        }
    }
    let _ = fs::remove_dir_all(&root);
    println!("crash points={crashes} (every prefix of the second plan, fresh process afterwards; first compiles start from junk)");
    println!("sessions={n} paths={paths} depth={depth}: after every compile the directory is exactly the artifact list, and later compiles touch only changed paths");
}
