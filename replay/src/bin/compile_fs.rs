//! Witness programs for C18 / C19 on the REAL compiler (isograph_compiler::compile):
//!   compile_fs root_only     first compile of a project that has no client fields
//!   compile_fs interrupted   write fails part-way, obstacle removed, next compile succeeds
//!   compile_fs failed_then_ok  a failed compile in the middle of a session does not make the next one rewrite unchanged artifacts
//! exit 0 = after the last successful compile the artifact directory holds exactly the
//! generated artifacts; exit 1 = it does not (or a valid project fails to compile).
use std::{fs, path::{Path, PathBuf}};

use common_lang_types::CurrentWorkingDirectory;
use graphql_network_protocol::GraphQLAndJavascriptProfile;
use intern::string_key::Intern;
use isograph_compiler::{CompilerState, batch_compile::compile};
use isograph_config::create_config;

type P = GraphQLAndJavascriptProfile;

fn setup(root: &Path, literals: &str) {
    let _ = fs::remove_dir_all(root);
    fs::create_dir_all(root.join("src")).unwrap();
    fs::write(root.join("schema.graphql"), "type Query {\n  hello: String\n  world: String\n}\n").unwrap();
    fs::write(
        root.join("isograph.config.json"),
        "{ \"project_root\": \"./src\", \"schema\": \"./schema.graphql\" }",
    )
    .unwrap();
    fs::write(root.join("src/a.ts"), literals).unwrap();
}

fn list_files(dir: &Path, out: &mut Vec<PathBuf>) {
    if let Ok(rd) = fs::read_dir(dir) {
        for e in rd.flatten() {
            let p = e.path();
            if p.is_dir() { list_files(&p, out) } else { out.push(p) }
        }
    }
}

const FOO: &str = "import { iso } from '@iso';\nexport const Foo = iso(`\n  field Query.Foo @component {\n    hello\n  }\n`)(() => null);\n";
const FOO_BAR: &str = "import { iso } from '@iso';\nexport const Foo = iso(`\n  field Query.Foo @component {\n    hello\n  }\n`)(() => null);\nexport const Bar = iso(`\n  field Query.Bar @component {\n    world\n  }\n`)(() => null);\n";

fn main() {
    let mode = std::env::args().nth(1).unwrap_or_default();
    let root = PathBuf::from(std::env::args().nth(2).unwrap_or("/verif/.build/replay-work/p".into()));
    // the compiler keys source files by their path relative to an ABSOLUTE working directory
    let root = if root.is_absolute() { root } else { std::env::current_dir().unwrap().join(root) };
    let cwd: CurrentWorkingDirectory = root.to_str().unwrap().intern().into();
    match mode.as_str() {
        "root_only" => {
            setup(&root, "export const nothing = 1;\n");
            let config = create_config(&root.join("isograph.config.json"), cwd);
            let mut state = CompilerState::<P>::new(config, cwd).map_err(|e| e.0).expect("state");
            match compile::<P>(&mut state) {
                Ok(stats) => {
                    let mut files = vec![];
                    list_files(&root.join("src/__isograph"), &mut files);
                    println!("compile ok: {} artifacts written, {} files on disk", stats.total_artifacts_written, files.len());
                    if files.len() != stats.total_artifacts_written { std::process::exit(1); }
                }
                Err(e) => {
                    println!("FAILED: a valid project without client fields does not compile: {} diagnostic(s): {:?}", e.len(), e.iter().map(|d| format!("{d:?}")).collect::<Vec<_>>());
                    std::process::exit(1);
                }
            }
        }
        "interrupted" => {
            setup(&root, FOO);
            let config = create_config(&root.join("isograph.config.json"), cwd);
            let mut state = CompilerState::<P>::new(config, cwd).map_err(|e| e.0).expect("state");
            compile::<P>(&mut state).map_err(|e| format!("{e:?}")).expect("first compile");
            // source change: a second client field
            let rel: common_lang_types::RelativePathToSourceFile = "src/a.ts".intern().into();
            state.db.insert_iso_literal(rel, FOO_BAR.to_string());
            // obstacle: a FILE where the directory Query/Bar has to be created
            let obstacle = root.join("src/__isograph/Query/Bar");
            fs::write(&obstacle, "in the way").unwrap();
            let second = compile::<P>(&mut state);
            println!("second compile (write obstructed): {}", if second.is_ok() { "ok" } else { "failed as intended" });
            fs::remove_file(&obstacle).unwrap();
            // next compile of the same session, no further source change
            let third = compile::<P>(&mut state);
            println!("third compile: {}", if third.is_ok() { "ok" } else { "failed" });
            if third.is_err() { std::process::exit(1); }
            // from-scratch oracle: the same sources compiled by a fresh process state
            let root2 = PathBuf::from(format!("{}_fresh", root.display()));
            setup(&root2, FOO_BAR);
            let cwd2: CurrentWorkingDirectory = root2.to_str().unwrap().intern().into();
            let config2 = create_config(&root2.join("isograph.config.json"), cwd2);
            let mut fresh = CompilerState::<P>::new(config2, cwd2).map_err(|e| e.0).expect("state");
            compile::<P>(&mut fresh).map_err(|e| format!("{e:?}")).expect("fresh compile");
            let rel_files = |r: &Path| {
                let mut v = vec![];
                list_files(&r.join("src/__isograph"), &mut v);
                let mut out: Vec<(String, String)> = v
                    .iter()
                    .map(|p| (p.strip_prefix(r).unwrap().display().to_string(), fs::read_to_string(p).unwrap_or_default()))
                    .collect();
                out.sort();
                out
            };
            let got = rel_files(&root);
            let want = rel_files(&root2);
            println!("files after the successful third compile: {}, fresh compile of the same sources: {}", got.len(), want.len());
            if got != want {
                for (n, _) in &want {
                    if !got.iter().any(|(m, _)| m == n) { println!("NOT REPAIRED: {n} is missing although the last compile succeeded"); }
                }
                std::process::exit(1);
            }
            // second history: the write fails AFTER some operations were applied (the root
            // file iso.ts is written last; a directory in its place makes that write fail once
            // Query/Bar has been created), then the user UNDOES the edit, then the compile
            // succeeds: the directory must equal a fresh compile of the undone sources.
            setup(&root, FOO);
            let config = create_config(&root.join("isograph.config.json"), cwd);
            let mut state = CompilerState::<P>::new(config, cwd).map_err(|e| e.0).expect("state");
            compile::<P>(&mut state).map_err(|e| format!("{e:?}")).expect("first compile");
            state.db.insert_iso_literal(rel, FOO_BAR.to_string());
            let iso_ts = root.join("src/__isograph/iso.ts");
            fs::remove_file(&iso_ts).unwrap();
            fs::create_dir(&iso_ts).unwrap();
            let second = compile::<P>(&mut state);
            println!("history 2, second compile (iso.ts obstructed): {}", if second.is_ok() { "ok" } else { "failed as intended" });
            fs::remove_dir(&iso_ts).unwrap();
            state.db.insert_iso_literal(rel, FOO.to_string());
            let third = compile::<P>(&mut state);
            println!("history 2, third compile (edit undone): {}", if third.is_ok() { "ok" } else { "failed" });
            if third.is_err() { std::process::exit(1); }
            setup(&root2, FOO);
            let config3 = create_config(&root2.join("isograph.config.json"), cwd2);
            let mut fresh2 = CompilerState::<P>::new(config3, cwd2).map_err(|e| e.0).expect("state");
            compile::<P>(&mut fresh2).map_err(|e| format!("{e:?}")).expect("fresh compile");
            let got = rel_files(&root);
            let want = rel_files(&root2);
            println!("history 2: files after the successful third compile: {}, fresh compile of the same sources: {}", got.len(), want.len());
            if got != want {
                for (n, _) in &got {
                    if !want.iter().any(|(m, _)| m == n) { println!("NOT REPAIRED: stale {n} although the last compile succeeded"); }
                }
                for (n, _) in &want {
                    if !got.iter().any(|(m, _)| m == n) { println!("NOT REPAIRED: {n} is missing although the last compile succeeded"); }
                }
                std::process::exit(1);
            }
            // third history: the fault hits a DELETION. FOO_BAR is compiled, Bar is removed from the
            // sources, and the directory Query/Bar that the incremental plan has to delete has been
            // replaced by a FILE (remove_dir_all fails with ENOTDIR). Compiles are repeated until one
            // succeeds (at most 3); then the directory must equal a fresh compile of the sources.
            setup(&root, FOO_BAR);
            let config = create_config(&root.join("isograph.config.json"), cwd);
            let mut state = CompilerState::<P>::new(config, cwd).map_err(|e| e.0).expect("state");
            compile::<P>(&mut state).map_err(|e| format!("{e:?}")).expect("first compile");
            state.db.insert_iso_literal(rel, FOO.to_string());
            let bar_dir = root.join("src/__isograph/Query/Bar");
            fs::remove_dir_all(&bar_dir).unwrap();
            fs::write(&bar_dir, "a file where the directory was").unwrap();
            let mut ok = false;
            for attempt in 1..=3 {
                let r = compile::<P>(&mut state);
                println!("history 3, compile #{attempt} (Query/Bar replaced by a file): {}", if r.is_ok() { "ok" } else { "failed" });
                if r.is_ok() { ok = true; break; }
            }
            if !ok { println!("NOT REPAIRED: no compile succeeds after the fault"); std::process::exit(1); }
            setup(&root2, FOO);
            let config4 = create_config(&root2.join("isograph.config.json"), cwd2);
            let mut fresh3 = CompilerState::<P>::new(config4, cwd2).map_err(|e| e.0).expect("state");
            compile::<P>(&mut fresh3).map_err(|e| format!("{e:?}")).expect("fresh compile");
            // (entries of any kind: the obstacle is a file directly below Query/)
            let entries = |r: &Path| { let mut v: Vec<String> = vec![]; fn walk(b: &Path, d: &Path, v: &mut Vec<String>) { if let Ok(rd) = fs::read_dir(d) { for e in rd.flatten() { let p = e.path(); v.push(p.strip_prefix(b).unwrap().display().to_string()); if p.is_dir() { walk(b, &p, v) } } } } walk(&r.join("src/__isograph"), &r.join("src/__isograph"), &mut v); v.sort(); v };
            let (got, want) = (entries(&root), entries(&root2));
            if got != want {
                for n in &got { if !want.contains(n) { println!("NOT REPAIRED: stale entry {n} although the last compile succeeded"); } }
                for n in &want { if !got.contains(n) { println!("NOT REPAIRED: {n} is missing although the last compile succeeded"); } }
                std::process::exit(1);
            }
            println!("history 3: directory equals a fresh compile");
        }
        "custom" => {
            // compile_fs custom <dir> <schema file> <literals file>: exit 0 iff the project compiles
            let schema = fs::read_to_string(std::env::args().nth(3).expect("schema")).unwrap();
            let lits = fs::read_to_string(std::env::args().nth(4).expect("literals")).unwrap();
            setup(&root, &lits);
            fs::write(root.join("schema.graphql"), schema).unwrap();
            let config = create_config(&root.join("isograph.config.json"), cwd);
            let mut state = CompilerState::<P>::new(config, cwd).map_err(|e| e.0).expect("state");
            match compile::<P>(&mut state) {
                Ok(_) => println!("compile ok"),
                Err(e) => {
                    for d in &e { println!("diagnostic: {}", d.0.message); }
                    std::process::exit(1);
                }
            }
        }
        "failed_compile" => {
            // C17 witness corpus: a valid project is compiled, then one invalid edit at a time
            // is made (syntax error, undefined field, duplicate definition, wrong argument,
            // unknown type). Each recompile must report an error AND leave the artifact
            // directory byte-for-byte untouched.  exit 1 = a failed compile touched it.
            // every edit also adds a new VALID field (Baz), so that applying ANY plan for the
            // edited program necessarily changes the directory
            const BAZ: &str = "export const Baz = iso(`\n  field Query.Baz @component {\n    world\n  }\n`)(() => null);\n";
            let invalid: [(&str, String); 7] = [
                // not invalid for this compiler (a project may hold no literal): skipped unless
                // the compile reports an error, and then the directory must be untouched too
                ("last literal removed", "export const nothing = 1;\n".to_string()),
                ("source file emptied", String::new()),
                ("syntax error", format!("{FOO}{BAZ}export const X = iso(`field Query.Bar @component {{ world `)(() => null);\n")),
                ("undefined field", format!("{FOO}{BAZ}export const X = iso(`\n  field Query.Bar @component {{\n    nope\n  }}\n`)(() => null);\n")),
                ("duplicate definition", format!("{FOO}{BAZ}export const X = iso(`\n  field Query.Foo @component {{\n    world\n  }}\n`)(() => null);\n")),
                ("unknown argument", format!("{FOO}{BAZ}export const X = iso(`\n  field Query.Bar @component {{\n    hello(x: 1)\n  }}\n`)(() => null);\n")),
                ("unknown parent type", format!("{FOO}{BAZ}export const X = iso(`\n  field Nope.Bar @component {{\n    hello\n  }}\n`)(() => null);\n")),
            ];
            let snapshot = |r: &Path| {
                let mut v = vec![];
                list_files(&r.join("src/__isograph"), &mut v);
                let mut out: Vec<(String, String)> = v.iter().map(|p| (p.display().to_string(), fs::read_to_string(p).unwrap_or_default())).collect();
                out.sort();
                out
            };
            let mut bad = false;
            for (what, text) in invalid.iter() {
                setup(&root, FOO);
                let config = create_config(&root.join("isograph.config.json"), cwd);
                let mut state = CompilerState::<P>::new(config, cwd).map_err(|e| e.0).expect("state");
                compile::<P>(&mut state).map_err(|e| format!("{e:?}")).expect("valid project compiles");
                let before = snapshot(&root);
                let rel: common_lang_types::RelativePathToSourceFile = "src/a.ts".intern().into();
                state.db.insert_iso_literal(rel, text.clone());
                let r = compile::<P>(&mut state);
                let after = snapshot(&root);
                match r {
                    Ok(_) => println!("{what}: compiled without error (not an invalid program for this compiler; skipped)"),
                    Err(e) => {
                        if before != after {
                            println!("TOUCHED: {what}: compile reported {} error diagnostic(s) but changed the artifact directory", e.len());
                            bad = true;
                        } else {
                            println!("{what}: error reported, artifact directory untouched");
                        }
                    }
                }
            }
            // the same edits in a session whose PREVIOUS compile failed half-way through its
            // writes (the remembered state is gone then; the failed compile must still not touch
            // the directory)
            for (what, text) in invalid.iter() {
                setup(&root, FOO);
                let config = create_config(&root.join("isograph.config.json"), cwd);
                let mut state = CompilerState::<P>::new(config, cwd).map_err(|e| e.0).expect("state");
                compile::<P>(&mut state).map_err(|e| format!("{e:?}")).expect("valid project compiles");
                let rel: common_lang_types::RelativePathToSourceFile = "src/a.ts".intern().into();
                state.db.insert_iso_literal(rel, FOO_BAR.to_string());
                let obstacle = root.join("src/__isograph/Query/Bar");
                fs::write(&obstacle, "in the way").unwrap();
                let second = compile::<P>(&mut state);
                fs::remove_file(&obstacle).unwrap();
                if second.is_ok() { println!("{what}: the obstructed write did not fail (skipped)"); continue; }
                let before = snapshot(&root);
                state.db.insert_iso_literal(rel, text.clone());
                let r = compile::<P>(&mut state);
                let after = snapshot(&root);
                if let Err(e) = r {
                    if before != after {
                        println!("TOUCHED: {what} after an interrupted write: compile reported {} error diagnostic(s) but changed the artifact directory ({} files before, {} after)", e.len(), before.len(), after.len());
                        bad = true;
                    } else {
                        println!("{what} after an interrupted write: error reported, artifact directory untouched");
                    }
                }
            }
            if bad { std::process::exit(1); }
        }
        "failed_then_ok" => {
            // C18 witness ("later compiles write only artifacts whose content changed") for
            // sessions with a FAILED compile in the middle: valid compile, one invalid edit
            // (compile reports errors), then the edit is undone -- or replaced by a valid one --
            // and the project compiles again. Every artifact whose content is the same before
            // and after that last compile must still be the SAME file (inode and mtime): a
            // compiler that forgot what it had written would delete and recreate everything.
            use std::os::unix::fs::MetadataExt;
            let invalid: [(&str, String); 3] = [
                ("syntax error", format!("{FOO}export const X = iso(`field Query.Bar @component {{ world `)(() => null);\n")),
                ("undefined field", format!("{FOO}export const X = iso(`\n  field Query.Bar @component {{\n    nope\n  }}\n`)(() => null);\n")),
                ("duplicate definition", format!("{FOO}export const X = iso(`\n  field Query.Foo @component {{\n    world\n  }}\n`)(() => null);\n")),
            ];
            let ident = |r: &Path| {
                let mut v = vec![];
                list_files(&r.join("src/__isograph"), &mut v);
                let mut out: Vec<(String, String, u64, i64, i64)> = v.iter().map(|p| { let m = fs::metadata(p).unwrap(); (p.display().to_string(), fs::read_to_string(p).unwrap_or_default(), m.ino(), m.mtime(), m.mtime_nsec()) }).collect();
                out.sort();
                out
            };
            let mut bad = false;
            for (what, text) in invalid.iter() {
                for (then, last) in [("edit undone", FOO), ("edit replaced by a valid one", FOO_BAR)] {
                    setup(&root, FOO);
                    let config = create_config(&root.join("isograph.config.json"), cwd);
                    let mut state = CompilerState::<P>::new(config, cwd).map_err(|e| e.0).expect("state");
                    compile::<P>(&mut state).map_err(|e| format!("{e:?}")).expect("valid project compiles");
                    let rel: common_lang_types::RelativePathToSourceFile = "src/a.ts".intern().into();
                    state.db.insert_iso_literal(rel, text.clone());
                    if compile::<P>(&mut state).is_ok() { println!("{what}: compiled without error (skipped)"); continue; }
                    let before = ident(&root);
                    std::thread::sleep(std::time::Duration::from_millis(20));
                    state.db.insert_iso_literal(rel, last.to_string());
                    compile::<P>(&mut state).map_err(|e| format!("{e:?}")).expect("valid project compiles again");
                    let after = ident(&root);
                    let rewritten: Vec<&String> = before.iter().filter(|b| after.iter().any(|a| a.0 == b.0 && a.1 == b.1 && (a.2, a.3, a.4) != (b.2, b.3, b.4))).map(|b| &b.0).collect();
                    if !rewritten.is_empty() {
                        println!("REWRITTEN: valid compile, {what} (errors reported), {then}, compile: {} of {} artifacts with unchanged content were written again: {:?}", rewritten.len(), before.len(), rewritten);
                        bad = true;
                    } else {
                        println!("{what}, {then}: only changed artifacts were written");
                    }
                }
            }
            if bad { std::process::exit(1); }
        }
        "parse" => {
            // compile_fs parse <dir> <file with one iso literal text>: exit 1 iff the REAL
            // isograph_lang_parser::parse_iso_literal panics (C07: parsing is total)
            let text = fs::read_to_string(std::env::args().nth(3).expect("literal file")).unwrap();
            let rel: common_lang_types::RelativePathToSourceFile = "src/a.ts".intern().into();
            let ts = common_lang_types::TextSource { relative_path_to_source_file: rel, span: None };
            let r = std::panic::catch_unwind(|| {
                isograph_lang_parser::parse_iso_literal(text.clone(), rel, None, ts).map(|_| ()).map_err(|d| d.0.message.clone())
            });
            match r {
                Ok(Ok(())) => println!("parsed"),
                Ok(Err(m)) => println!("diagnostic: {m}"),
                Err(_) => { println!("PANIC: parse_iso_literal panicked on this input"); std::process::exit(1); }
            }
        }
        "parse_corpus" => {
            // compile_fs parse_corpus <dir> <corpus file>: witness search for the parser's span
            // obligations. The corpus holds base literals separated by lines `---`; EVERY prefix
            // (at char boundaries) of every base literal is parsed as is and with a trailing
            // blank, line break and U+00A0. Exit 1 iff the REAL parse_iso_literal panics.
            let corpus = fs::read_to_string(std::env::args().nth(3).expect("corpus file")).unwrap();
            let rel: common_lang_types::RelativePathToSourceFile = "src/a.ts".intern().into();
            let ts = common_lang_types::TextSource { relative_path_to_source_file: rel, span: None };
            std::panic::set_hook(Box::new(|_| {}));
            let mut n = 0usize;
            for base in corpus.split("\n---\n") {
                let base = base.trim_end_matches('\n');
                for (i, _) in base.char_indices().chain(std::iter::once((base.len(), ' '))) {
                    for suffix in ["", " ", "\n", "\u{a0}"] {
                        let text = format!("{}{}", &base[..i], suffix);
                        n += 1;
                        let t2 = text.clone();
                        let r = std::panic::catch_unwind(move || {
                            isograph_lang_parser::parse_iso_literal(t2, rel, Some("x".to_string()), ts).err().map(|d| d.0.location)
                        });
                        match r {
                            Err(_) => {
                                println!("PANIC: parse_iso_literal panicked on {:?}", text);
                                std::process::exit(1);
                            }
                            // a diagnostic's location must lie inside the literal on char boundaries
                            Ok(Some(Some(common_lang_types::Location::Embedded(e)))) => {
                                let (a, b) = (e.span.start as usize, e.span.end as usize);
                                if a > b || b > text.len() || !text.is_char_boundary(a) || !text.is_char_boundary(b) {
                                    println!("BAD SPAN: diagnostic span {a}..{b} for {:?} (len {}) is not a well-formed range of the literal", text, text.len());
                                    std::process::exit(1);
                                }
                            }
                            _ => {}
                        }
                    }
                }
            }
            println!("inputs={n} no panic");
        }
        "block_strings" => {
            // compile_fs block_strings <dir> [max_len = 8]: EVERY block-string description body
            // over {blank, 'a', line break} up to max_len characters (and over {blank, 'a', line
            // break, tab, 'é'} up to max_len - 2), as the description of a field and of a pointer
            // declaration, is parsed by the REAL parse_iso_literal: no panic (C07: the cleaning of
            // a block string - common indentation, blank first/last lines - is total), and a
            // successfully parsed declaration carries a description.
            let max_len: usize = std::env::args().nth(3).and_then(|s| s.parse().ok()).unwrap_or(8);
            let rel: common_lang_types::RelativePathToSourceFile = "src/a.ts".intern().into();
            let ts = common_lang_types::TextSource { relative_path_to_source_file: rel, span: None };
            std::panic::set_hook(Box::new(|_| {}));
            let mut n = 0usize;
            for (alphabet, limit) in [(vec![' ', 'a', '\n'], max_len), (vec![' ', 'a', '\n', '\t', '\u{e9}'], max_len.saturating_sub(2))] {
                for len in 0..=limit {
                    for code in 0..alphabet.len().pow(len as u32) {
                        let mut c = code;
                        let body: String = (0..len).map(|_| { let ch = alphabet[c % alphabet.len()]; c /= alphabet.len(); ch }).collect();
                        for text in [format!("field Query.Foo\n  \"\"\"{body}\"\"\"\n  {{ hello }}"), format!("pointer Query.Foo to Pet \"\"\"{body}\"\"\" {{ pet {{ link }} }}")] {
                            n += 1;
                            let t2 = text.clone();
                            let r = std::panic::catch_unwind(move || {
                                isograph_lang_parser::parse_iso_literal(t2, rel, Some("x".to_string()), ts).is_ok()
                            });
                            if r.is_err() {
                                println!("PANIC: parse_iso_literal panicked on {:?}", text);
                                std::process::exit(1);
                            }
                        }
                    }
                }
            }
            println!("inputs={n} block-string descriptions: no panic");
        }
        _ => { eprintln!("usage: compile_fs root_only|interrupted [dir]"); std::process::exit(2); }
    }
}
