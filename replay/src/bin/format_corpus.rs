//! Bounded exploration for C22 ("formatting preserves meaning and is idempotent") on the REAL
//! formatter (isograph_lsp::format::format_extraction through the api_format hook) and the REAL
//! parser. For every base literal of the corpus (separated by lines `---`) that the parser
//! accepts, and for every variant of it obtained by re-spacing (all blanks doubled / all line
//! breaks turned into blanks where the grammar allows it), the formatter's output must
//!   (1) be accepted by the parser,
//!   (2) consist of the same tokens in the same order (the declaration is unchanged), and
//!   (3) be a fixed point of the formatter.
//! Exit 0 = all hold, exit 1 = a literal for which one fails (printed).
use common_lang_types::{RelativePathToSourceFile, TextSource};
use graphql_network_protocol::GraphQLAndJavascriptProfile;
use intern::string_key::Intern;
use isograph_lang_parser::{IsoLiteralExtractionResult, parse_iso_literal};
use isograph_schema::IsographDatabase;

type P = GraphQLAndJavascriptProfile;

fn tokens_of(text: &str, rel: RelativePathToSourceFile) -> Result<Vec<String>, String> {
    let ts = TextSource { relative_path_to_source_file: rel, span: None };
    let r: IsoLiteralExtractionResult = parse_iso_literal(text.to_string(), rel, Some("x".to_string()), ts).map_err(|d| d.0.message.clone())?;
    // commas and line breaks are interchangeable separators: the formatter replaces commas by
    // line breaks, so commas do not belong to the declaration
    Ok(r.semantic_tokens().iter().map(|t| text[t.location.span.start as usize..t.location.span.end as usize].to_string()).filter(|t| t != ",").collect())
}

fn check(db: &IsographDatabase<P>, text: &str, rel: RelativePathToSourceFile) -> Result<bool, String> {
    let Ok(before) = tokens_of(text, rel) else { return Ok(false) };
    let Some(out) = isograph_lsp::verif_hooks::api_format(db, text, rel) else {
        return Err(format!("the parser accepts {text:?} but the formatter returns nothing"));
    };
    let after = tokens_of(&out, rel).map_err(|m| format!("formatting {text:?} gives {out:?}, which the parser rejects: {m}"))?;
    if before != after {
        return Err(format!("formatting {text:?} gives {out:?}: tokens changed from {before:?} to {after:?}"));
    }
    match isograph_lsp::verif_hooks::api_format(db, &out, rel) {
        Some(again) if again == out => Ok(true),
        other => Err(format!("formatting is not idempotent on {text:?}: first {out:?}, then {other:?}")),
    }
}

fn main() {
    let corpus = std::fs::read_to_string(std::env::args().nth(1).expect("corpus file")).unwrap();
    let rel: RelativePathToSourceFile = "src/a.ts".intern().into();
    let db = IsographDatabase::<P>::default();
    let (mut n, mut accepted) = (0usize, 0usize);
    for base in corpus.split("\n---\n") {
        let base = base.trim_end_matches('\n');
        let variants = [base.to_string(), base.replace(' ', "  "), base.replace("\n  ", "\n"), format!("\n{base}\n")];
        for v in variants.iter() {
            n += 1;
            match check(&db, v, rel) {
                Ok(true) => accepted += 1,
                Ok(false) => {}
                Err(m) => { println!("DIFFERENT: {m}"); std::process::exit(1); }
            }
        }
    }
    println!("literals={n} accepted_by_parser={accepted}: formatted output parses, keeps the tokens, and is a fixed point");
}
