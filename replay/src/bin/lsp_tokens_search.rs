//! Bounded exploration for C23, clause "semantic tokens decode to non-overlapping, increasing
//! ranges that each cover one source token", on the REAL absolutize_relative_token /
//! convert_absolute_token_to_lsp_token (hook api_tokens). EVERY page of at most `n` characters
//! (default 5) over {a, é, 😀, blank, line break} and EVERY token range on character boundaries
//! inside every literal start: the emitted tokens are decoded as an LSP client does (running
//! line / UTF-16 column) and each must be exactly one line-piece of the source token, in
//! increasing order, and every piece that contains a non-blank character must be emitted.
//! Exit 0 = all hold, exit 1 = a page / range for which one fails.
const ALPHABET: [&str; 5] = ["a", "é", "😀", " ", "\n"];

fn utf16_len(s: &str) -> u32 { s.encode_utf16().count() as u32 }
fn lsp_pos(page: &str, off: usize) -> (u32, u32) {
    let before = &page[..off];
    let line = before.matches('\n').count() as u32;
    let start = before.rfind('\n').map_or(0, |i| i + 1);
    (line, utf16_len(&page[start..off]))
}

fn check(page: &str, lit: usize, a: usize, e: usize) -> Result<(), String> {
    let toks = isograph_lsp::verif_hooks::api_tokens(page, lit as u32, a as u32, e as u32);
    // the pieces of the source token: split after every line break
    let text = &page[lit + a..lit + e];
    let mut pieces = vec![];
    let mut s = lit + a;
    for part in text.split_inclusive('\n') {
        let (line, col) = lsp_pos(page, s);
        pieces.push((line, col, utf16_len(part), part.chars().any(|c| c != ' ' && c != '\n')));
        s += part.len();
    }
    let (mut line, mut col) = (0u32, 0u32);
    let mut next = 0usize;
    for (dl, ds, len) in &toks {
        if *dl > 0 { line += dl; col = *ds; } else { col += ds; }
        // must be one of the remaining pieces (blank pieces in between may be left out)
        let Some(k) = (next..pieces.len()).find(|k| (pieces[*k].0, pieces[*k].1, pieces[*k].2) == (line, col, *len)) else {
            return Err(format!("decoded token line {line} column {col} length {len} is not a line piece of the source token {text:?}; pieces (line, column, length) {:?}", pieces.iter().map(|p| (p.0, p.1, p.2)).collect::<Vec<_>>()));
        };
        if let Some(m) = (next..k).find(|m| pieces[*m].3) {
            return Err(format!("the piece {:?} of the source token {text:?} (non-blank) is not emitted", (pieces[m].0, pieces[m].1, pieces[m].2)));
        }
        next = k + 1;
    }
    if let Some(m) = (next..pieces.len()).find(|m| pieces[*m].3) {
        return Err(format!("the piece {:?} of the source token {text:?} (non-blank) is not emitted", (pieces[m].0, pieces[m].1, pieces[m].2)));
    }
    Ok(())
}

fn main() {
    let n: usize = std::env::args().nth(1).and_then(|s| s.parse().ok()).unwrap_or(5);
    let mut count = 0usize;
    for len in 1..=n {
        for code in 0..ALPHABET.len().pow(len as u32) {
            let mut c = code;
            let mut page = String::new();
            for _ in 0..len { page.push_str(ALPHABET[c % ALPHABET.len()]); c /= ALPHABET.len(); }
            let bounds: Vec<usize> = page.char_indices().map(|(i, _)| i).chain(std::iter::once(page.len())).collect();
            for &lit in &bounds {
                for (ia, &sa) in bounds.iter().enumerate() {
                    if sa < lit { continue; }
                    for &se in &bounds[ia + 1..] {
                        count += 1;
                        if let Err(m) = check(&page, lit, sa - lit, se - lit) {
                            println!("DIFFERENT: page {page:?}, literal at byte {lit}, token bytes {}..{}: {m}", sa - lit, se - lit);
                            std::process::exit(1);
                        }
                    }
                }
            }
        }
    }
    println!("cases={count}: every emitted semantic token is one line piece of its source token, in order, none missing");
}
