//! Witness search / bounded exploration for the interning obligations of C01 / C02 / C03 (unit
//! pico_source: intern_ref, MemoRef::lookup / lookup_tracked) on the REAL pico.
//! Two tables a, b with rows [first, second]; first in {"shared", "other"}, second in {"x", "y"}.
//! Memoized functions: rows(t); pick_a(a) and pick_b(b) intern a REFERENCE to the first row
//! (equal rows of a and b share one interned node, at different addresses); reader(a) reads
//! pick(a)'s reference with lookup_tracked. EVERY history of at most `depth` (default 5) steps
//! over  set a (4 values) | set b (4 values) | call pick_a | call pick_b | call reader | collect
//! is run; after every call the value read through the MemoRef is compared with the current
//! source (C01, C03: the reference points at live, current data), and in collection-free
//! histories the number of executions of pick_a, pick_b and reader is compared with a reference
//! model of minimal re-execution (C02: a body runs only if it never ran or a DIRECT input
//! changed since it last ran; re-interning an equal value is not a change).
//! Every history is run twice: with the default cache of recent top-level calls and with a
//! cache of ONE (a collection then drops everything but the last query called and what it
//! depends on; a MemoRef held by the survivor must stay readable).
//! Exit 0 = all agree; exit 1 = a stale value, a panic inside pico or a wrong execution count.
use std::sync::atomic::{AtomicUsize, Ordering};

use pico::{Database, MemoRef, SourceId, Storage};
use pico_macros::{Db, Source, memo};

// In the runs of at most 4 steps that contain a collection every deallocation is quarantined (recorded,
// poisoned, never reused), so that a reference into freed memory is DETECTED from its address
// instead of being read (deterministic, no reliance on a crash).
use std::alloc::{GlobalAlloc, Layout, System};
use std::sync::atomic::AtomicBool;
const MAX_FREED: usize = 1 << 22;
static FREED_START: [AtomicUsize; MAX_FREED] = [const { AtomicUsize::new(0) }; MAX_FREED];
static FREED_LEN: [AtomicUsize; MAX_FREED] = [const { AtomicUsize::new(0) }; MAX_FREED];
static N_FREED: AtomicUsize = AtomicUsize::new(0);
static FREED_FROM: AtomicUsize = AtomicUsize::new(0);
static QUARANTINE: AtomicBool = AtomicBool::new(false);
struct Quarantine;
unsafe impl GlobalAlloc for Quarantine {
    unsafe fn alloc(&self, l: Layout) -> *mut u8 { unsafe { System.alloc(l) } }
    unsafe fn dealloc(&self, p: *mut u8, l: Layout) {
        if QUARANTINE.load(Ordering::Relaxed) {
            let i = N_FREED.fetch_add(1, Ordering::SeqCst);
            if i < MAX_FREED {
                FREED_START[i].store(p as usize, Ordering::SeqCst); FREED_LEN[i].store(l.size(), Ordering::SeqCst);
                unsafe { std::ptr::write_bytes(p, 0xDE, l.size()); }
                return;
            }
        }
        unsafe { System.dealloc(p, l) }
    }
}
#[global_allocator]
static ALLOC: Quarantine = Quarantine;
/// was `addr` freed during the current history?
fn is_freed(addr: usize) -> bool {
    let n = N_FREED.load(Ordering::SeqCst).min(MAX_FREED);
    (FREED_FROM.load(Ordering::SeqCst)..n).any(|i| { let s = FREED_START[i].load(Ordering::SeqCst); addr >= s && addr < s + FREED_LEN[i].load(Ordering::SeqCst) })
}
fn checked<'a>(r: &'a Row, who: &str, step: usize) -> Result<&'a Row, String> {
    if QUARANTINE.load(Ordering::Relaxed) && is_freed(r as *const Row as usize) {
        return Err(format!("step {step}: the reference {who} hands out points into memory freed by a collection"));
    }
    Ok(r)
}

static RUNS: [AtomicUsize; 4] = [AtomicUsize::new(0), AtomicUsize::new(0), AtomicUsize::new(0), AtomicUsize::new(0)];

#[derive(Db, Default)]
struct TestDatabase { storage: Storage<Self> }

#[derive(Debug, Clone, PartialEq, Eq, Hash)]
struct Row { name: String, payload: String }

#[derive(Debug, Clone, PartialEq, Eq, Source)]
struct Table { #[key] pub key: &'static str, pub rows: Vec<Row> }

#[memo]
fn rows(db: &TestDatabase, table: SourceId<Table>) -> Vec<Row> { db.get(table).rows.clone() }
#[memo]
fn pick_a(db: &TestDatabase, table: SourceId<Table>) -> MemoRef<Row> { RUNS[0].fetch_add(1, Ordering::SeqCst); db.intern_ref(&rows(db, table)[0]) }
#[memo]
fn pick_b(db: &TestDatabase, table: SourceId<Table>) -> MemoRef<Row> { RUNS[1].fetch_add(1, Ordering::SeqCst); db.intern_ref(&rows(db, table)[0]) }
/// a second producer over the SAME table as pick_a
#[memo]
fn pick_a2(db: &TestDatabase, table: SourceId<Table>) -> MemoRef<Row> { RUNS[3].fetch_add(1, Ordering::SeqCst); db.intern_ref(&rows(db, table)[0]) }
#[memo]
fn pick(db: &TestDatabase, table: SourceId<Table>) -> MemoRef<Row> { db.intern_ref(&rows(db, table)[0]) }
#[memo]
fn reader(db: &TestDatabase, table: SourceId<Table>) -> String { RUNS[2].fetch_add(1, Ordering::SeqCst); pick(db, table).lookup_tracked(db).name.clone() }

const FIRST: [&str; 2] = ["shared", "other"];
const SECOND: [&str; 2] = ["x", "y"];
/// with `disjoint` the first rows of table b are never equal to a first row of table a
fn first_name(key: &str, v: usize, disjoint: bool) -> String { if disjoint && key == "b" { format!("{}_b", FIRST[v % 2]) } else { FIRST[v % 2].to_string() } }
fn table(key: &'static str, v: usize, disjoint: bool) -> Table {
    Table { key, rows: vec![Row { name: first_name(key, v, disjoint), payload: "same".to_string() }, Row { name: SECOND[v / 2].to_string(), payload: "p".to_string() }] }
}
/// ops: 0..4 set a := v, 4..8 set b := v, 8 call pick_a, 9 call pick_b, 10 call reader, 11 collect, 12 call pick_a2
const N_OPS: usize = 13;
fn show(h: &[usize]) -> String {
    h.iter().map(|o| match *o { 0..=3 => format!("set a:=({},{})", FIRST[o % 2], SECOND[o / 2]), 4..=7 => format!("set b:=({},{})", FIRST[(o - 4) % 2], SECOND[(o - 4) / 2]),
        8 => "pick_a".into(), 9 => "pick_b".into(), 10 => "reader".into(), 11 => "collect".into(), _ => "pick_a2".into() }).collect::<Vec<_>>().join("; ")
}

/// reference model of minimal re-execution (the same as pico_history_search's): a source has a
/// version (number of effective writes); a memoized node has a revision that advances only when
/// it re-runs to a value different from its previous one (backdating); a node re-runs exactly
/// when it never ran or the version / revision of a DIRECT input differs from the one it saw.
/// The interned node an intern_ref / lookup_tracked call depends on never changes for a given
/// value (a different value is a different node), so it never causes a re-run.
#[derive(Default, Clone)]
struct Node { seen: Option<usize>, value: Option<usize>, rev: usize, runs: usize }
impl Node {
    fn ensure(&mut self, input_rev: usize, value: usize) {
        if self.seen != Some(input_rev) {
            self.runs += 1;
            if self.value != Some(value) { self.rev += 1; self.value = Some(value); }
            self.seen = Some(input_rev);
        }
    }
}
#[derive(Default)]
struct Model { ver: [usize; 2], rows: [Node; 2], pick_a: Node, pick_b: Node, pick: Node, reader: Node, pick_a2: Node }

fn run(h: &[usize], lru_capacity: Option<usize>) -> Result<(), String> {
    for r in &RUNS { r.store(0, Ordering::SeqCst); }
    // with a cache of ONE recent top-level call, a collection drops every query but the last
    // one called (and what it depends on): references held by the survivor must stay readable
    let mut db = match lru_capacity {
        Some(c) => TestDatabase { storage: Storage::new_with_capacity(std::num::NonZeroUsize::new(c).unwrap()) },
        None => TestDatabase::default(),
    };
    // histories with a collection: equal rows of DIFFERENT tables are avoided (an interned node
    // shared by producers over different tables + a collection of the first owner's rows is the
    // recorded finding F-C03a, reproduced by pico_intern_dangling); producers over the same
    // table still share their interned node
    let disjoint = h.contains(&11) && std::env::var("VERIF_SHARE_ACROSS_TABLES").is_err();
    let mut v = [0usize, 0usize];
    let ta = db.set(table("a", v[0], disjoint));
    let tb = db.set(table("b", v[1], disjoint));
    let mut m = Model::default();
    let collected = h.contains(&11);
    for (i, o) in h.iter().enumerate() {
        match *o {
            0..=3 => { if v[0] != *o { m.ver[0] += 1; } v[0] = *o; db.set(table("a", v[0], disjoint)); }
            4..=7 => { if v[1] != *o - 4 { m.ver[1] += 1; } v[1] = *o - 4; db.set(table("b", v[1], disjoint)); }
            8 => {
                let got = checked(pick_a(&db, ta).lookup(&db), "pick_a", i + 1)?.name.clone();
                if got != FIRST[v[0] % 2] { return Err(format!("step {}: pick_a reads {got:?} through its reference, the first row of a is {:?}", i + 1, FIRST[v[0] % 2])); }
                m.rows[0].ensure(m.ver[0], v[0]); let r = m.rows[0].rev; m.pick_a.ensure(r, v[0] % 2);
            }
            9 => {
                let got = checked(pick_b(&db, tb).lookup(&db), "pick_b", i + 1)?.name.clone();
                if got != first_name("b", v[1], disjoint) { return Err(format!("step {}: pick_b reads {got:?} through its reference, the first row of b is {:?}", i + 1, first_name("b", v[1], disjoint))); }
                m.rows[1].ensure(m.ver[1], v[1]); let r = m.rows[1].rev; m.pick_b.ensure(r, v[1] % 2);
            }
            10 => {
                let got = reader(&db, ta).clone();
                if got != FIRST[v[0] % 2] { return Err(format!("step {}: reader returns {got:?}, the first row of a is {:?}", i + 1, FIRST[v[0] % 2])); }
                m.rows[0].ensure(m.ver[0], v[0]); let r = m.rows[0].rev; m.pick.ensure(r, v[0] % 2); let r2 = m.pick.rev; m.reader.ensure(r2, v[0] % 2);
            }
            11 => { db.run_garbage_collection(); }
            _ => {
                let got = checked(pick_a2(&db, ta).lookup(&db), "pick_a2", i + 1)?.name.clone();
                if got != FIRST[v[0] % 2] { return Err(format!("step {}: pick_a2 reads {got:?} through its reference, the first row of a is {:?}", i + 1, FIRST[v[0] % 2])); }
                m.rows[0].ensure(m.ver[0], v[0]); let r = m.rows[0].rev; m.pick_a2.ensure(r, v[0] % 2);
            }
        }
        // (with the default cache nothing that was called is ever evicted, so a collection must
        // not change any execution count either)
        if !collected || lru_capacity.is_none() {
            let got = [RUNS[0].load(Ordering::SeqCst), RUNS[1].load(Ordering::SeqCst), RUNS[2].load(Ordering::SeqCst), RUNS[3].load(Ordering::SeqCst)];
            let expected = [m.pick_a.runs, m.pick_b.runs, m.reader.runs, m.pick_a2.runs];
            if got != expected {
                return Err(format!("after step {}: bodies ran [pick_a, pick_b, reader, pick_a2] = {got:?} times, minimal re-execution is {expected:?}", i + 1));
            }
        }
    }
    Ok(())
}

fn main() {
    std::panic::set_hook(Box::new(|_| {}));
    let depth: usize = std::env::args().nth(1).and_then(|s| s.parse().ok()).unwrap_or(5);
    let mut n = 0usize;
    for len in 1..=depth {
        for code in 0..N_OPS.pow(len as u32) {
            let mut c = code;
            let h: Vec<usize> = (0..len).map(|_| { let o = c % N_OPS; c /= N_OPS; o }).collect();
            // a history is interesting only if it ends with a call
            if !matches!(h.last().unwrap(), 8..=10 | 12) { continue; }
            n += 1;
            for cap in [None, Some(1usize)] {
                if std::env::var("TRACE").is_ok() { eprintln!("{} {:?}", show(&h), cap); }
                let q = h.contains(&11) && h.len() <= 4;
                FREED_FROM.store(N_FREED.load(Ordering::SeqCst).min(MAX_FREED), Ordering::SeqCst);
                QUARANTINE.store(q, Ordering::SeqCst);
                let r = std::panic::catch_unwind(|| run(&h, cap));
                QUARANTINE.store(false, Ordering::SeqCst);
                let r = r.unwrap_or_else(|e| {
                    let msg = e.downcast_ref::<String>().cloned().or_else(|| e.downcast_ref::<&str>().map(|s| s.to_string())).unwrap_or_default();
                    Err(format!("pico panicked: {msg}"))
                });
                if let Err(m) = r {
                    println!("DIFFERENT: history [{}]{}: {m}", show(&h), if cap.is_some() { " with a cache of 1 recent top-level call" } else { "" });
                    std::process::exit(1);
                }
            }
        }
    }
    // directed family (C02 across a collection, cheap enough for every run): every prefix of at
    // most 3 steps, then  collect; two writes to table b (at least one is effective: the epoch
    // advances); one call  - a surviving node must not be re-executed because of the collection
    for len in 0..=3usize {
        for code in 0..N_OPS.pow(len as u32) {
            let mut c = code;
            let prefix: Vec<usize> = (0..len).map(|_| { let o = c % N_OPS; c /= N_OPS; o }).collect();
            for call in [8usize, 9, 10, 12] {
                let mut h = prefix.clone();
                h.extend([11, 5, 6, call]);
                n += 1;
                let r = std::panic::catch_unwind(|| run(&h, None)).unwrap_or_else(|_| Err("pico panicked".to_string()));
                if let Err(m) = r { println!("DIFFERENT: history [{}]: {m}", show(&h)); std::process::exit(1); }
            }
        }
    }
    println!("histories={n} (<= {depth} steps; {} deallocations quarantined): references read current data and live memory; pick_a / pick_b / reader / pick_a2 re-run minimally", N_FREED.load(Ordering::SeqCst));
}
