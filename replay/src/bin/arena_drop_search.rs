//! Bounded exhaustive replay for C06, clause "dropping the arena drops every added element
//! exactly once", on the REAL intern::atomic_arena: for every element count n in 0..=max
//! (default 1100) and around every bucket boundary up to 2^15 (2^k - 128 + {-1, 0, 1}), n
//! drop-counting elements are added (by one thread, and split over two threads), read back,
//! the arena is dropped, and every element must have been dropped exactly once.
//! Exit 0 = holds for every count, exit 1 = first failing count printed.
//! usage: arena_drop_search [max = 1100]
use std::sync::Arc;
use std::sync::atomic::{AtomicU8, Ordering};
use std::thread;

use intern::verif_hooks::AtomicArena;

struct Counted { id: usize, drops: Arc<Vec<AtomicU8>> }
impl Drop for Counted { fn drop(&mut self) { self.drops[self.id].fetch_add(1, Ordering::SeqCst); } }

fn run(n: usize, threads: usize) -> Result<(), String> {
    let drops: Arc<Vec<AtomicU8>> = Arc::new((0..n).map(|_| AtomicU8::new(0)).collect());
    {
        let arena: AtomicArena<'_, Counted> = AtomicArena::new();
        let arena_ref = &arena;
        thread::scope(|s| {
            let mut hs = vec![];
            for t in 0..threads {
                let drops = drops.clone();
                hs.push(s.spawn(move || {
                    let mut refs = vec![];
                    let mut id = t;
                    while id < n { refs.push((arena_ref.add(Counted { id, drops: drops.clone() }), id)); id += threads; }
                    refs
                }));
            }
            for h in hs {
                for (r, id) in h.join().unwrap() {
                    if arena_ref.get(r).id != id { panic!("reference reads back another element"); }
                }
            }
        });
        if arena.len() != n { return Err(format!("n = {n}, {threads} thread(s): len() = {} after {n} additions", arena.len())); }
        let early = drops.iter().filter(|c| c.load(Ordering::SeqCst) != 0).count();
        if early != 0 { return Err(format!("n = {n}, {threads} thread(s): {early} elements dropped while the arena was alive")); }
    }
    let bad: Vec<usize> = (0..n).filter(|i| drops[*i].load(Ordering::SeqCst) != 1).collect();
    if !bad.is_empty() {
        return Err(format!("n = {n}, {threads} thread(s): {} of {n} elements not dropped exactly once when the arena was dropped (first: element {} dropped {} times)", bad.len(), bad[0], drops[bad[0]].load(Ordering::SeqCst)));
    }
    Ok(())
}

fn main() {
    let max: usize = std::env::args().nth(1).and_then(|s| s.parse().ok()).unwrap_or(1100);
    let mut counts: Vec<usize> = (0..=max).collect();
    for k in 7..=15u32 { let b = (1usize << k) - 128; for d in [-1i64, 0, 1] { let c = b as i64 + d; if c >= 0 { counts.push(c as usize); } } }
    counts.sort(); counts.dedup();
    let mut n_runs = 0usize;
    for n in &counts {
        for threads in [1usize, 2] {
            if let Err(m) = run(*n, threads) { println!("DIFFERENT: {m}"); std::process::exit(1); }
            n_runs += 1;
        }
    }
    println!("runs={n_runs} counts 0..={max} and every bucket boundary up to 2^15: every element dropped exactly once, none early");
}
