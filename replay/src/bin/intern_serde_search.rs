//! Bounded exploration for C05, clause "data serialized with intern sharing deserializes to
//! equal values", on the REAL intern crate (InternSerdes / WithIntern): every sequence of at most
//! 4 ids drawn from a pool of paths that SHARE ancestors (so that an interned value contains
//! ids of its own type and back references occur) and of strings (inline and boxed), through
//! serde_json and bincode. Exit 0 = every round trip returns equal values, exit 1 = one differs.
use intern::path::PathId;
use intern::string::{StringId, intern as intern_str};
use intern::WithIntern;

const PATHS: [&str; 6] = ["a", "a/b", "a/b/c.ts", "a/b/d.ts", "a/e", "f/g/h/i"];
const STRINGS: [&str; 3] = ["s", "a string that is long enough not to be stored inline", "é"];

fn json<T: serde::Serialize + for<'de> serde::Deserialize<'de>>(v: &T) -> Result<T, String> {
    let text = serde_json::to_string(&WithIntern(v)).map_err(|e| e.to_string())?;
    WithIntern::strip(serde_json::from_str(&text)).map_err(|e| format!("{e} (json {text})"))
}
fn bin<T: serde::Serialize + for<'de> serde::Deserialize<'de>>(v: &T) -> Result<T, String> {
    let bytes = bincode::serialize(&WithIntern(v)).map_err(|e| e.to_string())?;
    WithIntern::strip(bincode::deserialize(&bytes)).map_err(|e| e.to_string())
}

fn main() {
    let paths: Vec<PathId> = PATHS.iter().map(|p| PathId::from(*p)).collect();
    let strings: Vec<StringId> = STRINGS.iter().map(|s| intern_str(*s)).collect();
    let mut n = 0usize;
    let pool = paths.len() + strings.len();
    for len in 0..=4usize {
        for code in 0..pool.pow(len as u32) {
            let mut c = code;
            let mut ps: Vec<PathId> = vec![];
            let mut ss: Vec<StringId> = vec![];
            let mut shape = vec![];
            for _ in 0..len {
                let k = c % pool; c /= pool;
                if k < paths.len() { ps.push(paths[k]); shape.push(PATHS[k]); } else { ss.push(strings[k - paths.len()]); shape.push(STRINGS[k - paths.len()]); }
            }
            let val = (ps.clone(), ss.clone(), ps.first().copied());
            n += 1;
            for (what, back) in [("json", json(&val)), ("bincode", bin(&val))] {
                match back {
                    Ok(b) if b == val && b.0.iter().map(|p| p.to_path_buf()).collect::<Vec<_>>() == val.0.iter().map(|p| p.to_path_buf()).collect::<Vec<_>>() => {}
                    Ok(b) => {
                        println!("DIFFERENT: {what} round trip of the ids of {shape:?} returns {:?} / {:?}", b.0.iter().map(|p| p.to_path_buf()).collect::<Vec<_>>(), b.1.iter().map(|s| s.to_string()).collect::<Vec<_>>());
                        std::process::exit(1);
                    }
                    Err(e) => { println!("DIFFERENT: {what} round trip of the ids of {shape:?} fails: {e}"); std::process::exit(1); }
                }
            }
        }
    }
    println!("values={n} every json and bincode round trip with intern sharing returns equal values");
}
