//! Witness search for C03.O-3 (pico_gc unit, Storage::run_garbage_collection): after a
//! collection, the most recently called distinct top-level queries within the cache capacity
//! are served without re-execution. Enumerates EVERY history of at most 6 steps over
//! {call q0, call q1, call q2, collect} on a database with LRU capacity 2, ends each with a
//! collection, and compares the real pico against a reference LRU list.
//! Exit 0 = all histories agree, exit 1 = a query the reference keeps was re-executed.
use std::sync::atomic::{AtomicUsize, Ordering};

use pico::{Database, Storage};
use pico_macros::{Db, memo};

static RUNS: [AtomicUsize; 3] = [AtomicUsize::new(0), AtomicUsize::new(0), AtomicUsize::new(0)];

#[derive(Db, Default)]
struct TestDatabase {
    storage: Storage<Self>,
}

#[memo]
fn q0(_db: &TestDatabase) -> usize { RUNS[0].fetch_add(1, Ordering::SeqCst); 0 }
#[memo]
fn q1(_db: &TestDatabase) -> usize { RUNS[1].fetch_add(1, Ordering::SeqCst); 1 }
#[memo]
fn q2(_db: &TestDatabase) -> usize { RUNS[2].fetch_add(1, Ordering::SeqCst); 2 }

fn call(db: &TestDatabase, i: usize) {
    match i { 0 => { q0(db); } 1 => { q1(db); } _ => { q2(db); } }
}

const CAP: usize = 2;

fn run(history: &[usize]) -> Result<(), String> {
    for r in &RUNS { r.store(0, Ordering::SeqCst); }
    let mut db = TestDatabase { storage: Storage::new_with_capacity(CAP.try_into().unwrap()) };
    // reference: keys from least to most recently used, and the calls since the last collection
    let mut lru: Vec<usize> = vec![];
    let mut pending: Vec<usize> = vec![];
    let collect = |lru: &mut Vec<usize>, pending: &mut Vec<usize>| {
        for k in pending.drain(..) {
            lru.retain(|x| *x != k);
            lru.push(k);
            if lru.len() > CAP { lru.remove(0); }
        }
    };
    for step in history {
        if *step == 3 {
            db.run_garbage_collection();
            collect(&mut lru, &mut pending);
        } else {
            call(&db, *step);
            pending.push(*step);
        }
    }
    db.run_garbage_collection();
    collect(&mut lru, &mut pending);
    for k in &lru {
        let before = RUNS[*k].load(Ordering::SeqCst);
        call(&db, *k);
        let after = RUNS[*k].load(Ordering::SeqCst);
        if after != before {
            return Err(format!("history {history:?} (3 = collect), final collect: q{k} is among the {CAP} most recently called queries {lru:?} but was re-executed"));
        }
    }
    Ok(())
}

fn main() {
    let mut n = 0usize;
    for len in 0..=6usize {
        let total = 4usize.pow(len as u32);
        for code in 0..total {
            let mut h = Vec::with_capacity(len);
            let mut c = code;
            for _ in 0..len { h.push(c % 4); c /= 4; }
            n += 1;
            if let Err(m) = run(&h) {
                println!("EVICTED: {m}");
                std::process::exit(1);
            }
        }
    }
    println!("histories={n} all served from cache");
}
