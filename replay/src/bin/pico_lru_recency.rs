//! Witness search for C03.O-3 (pico_gc unit, Storage::run_garbage_collection): after a
//! collection, the most recently called distinct top-level queries within the cache capacity
//! are served without re-execution. Enumerates EVERY history of at most 6 steps over
//! {call q0, call q1, call q2, collect} on a database with LRU capacity 2, ends each with a
//! collection, and compares the real pico against a reference LRU list.
//! Exit 0 = all histories agree, exit 1 = a query the reference keeps was re-executed.
use std::sync::atomic::{AtomicUsize, Ordering};

use pico::{Database, MemoRef, RetainedQuery, Storage, clear_retain, retain};
use pico_macros::{Db, memo};

static RUNS: [AtomicUsize; 3] = [AtomicUsize::new(0), AtomicUsize::new(0), AtomicUsize::new(0)];

#[derive(Db, Default)]
struct TestDatabase {
    storage: Storage<Self>,
}

#[memo(raw)]
fn q0(_db: &TestDatabase) -> usize { RUNS[0].fetch_add(1, Ordering::SeqCst); 0 }
#[memo(raw)]
fn q1(_db: &TestDatabase) -> usize { RUNS[1].fetch_add(1, Ordering::SeqCst); 1 }
#[memo(raw)]
fn q2(_db: &TestDatabase) -> usize { RUNS[2].fetch_add(1, Ordering::SeqCst); 2 }

fn call(db: &TestDatabase, i: usize) -> MemoRef<usize> {
    match i { 0 => q0(db), 1 => q1(db), _ => q2(db) }
}

const CAP: usize = 2;
const OPS: usize = 10;

fn run(history: &[usize]) -> Result<(), String> {
    for r in &RUNS { r.store(0, Ordering::SeqCst); }
    let mut db = TestDatabase { storage: Storage::new_with_capacity(CAP.try_into().unwrap()) };
    // reference: keys from least to most recently used, and the calls since the last collection
    let mut lru: Vec<usize> = vec![];
    let mut pending: Vec<usize> = vec![];
    let collect = |lru: &mut Vec<usize>, pending: &mut Vec<usize>| {
        for k in pending.drain(..) {
            lru.retain(|x| *x != k);
            lru.push(k);
            if lru.len() > CAP { lru.remove(0); }
        }
    };
    // temporarily retained queries (db.retain / db.clear_retain): guards per query
    let mut guards: [Vec<RetainedQuery>; 3] = [vec![], vec![], vec![]];
    for step in history {
        match *step {
            3 => { db.run_garbage_collection(); collect(&mut lru, &mut pending); }
            0..=2 => { call(&db, *step); pending.push(*step); }
            4..=6 => {
                // retaining needs a reference to the result: obtained by calling the query
                let q = *step - 4;
                let r = call(&db, q);
                pending.push(q);
                guards[q].push(retain(&db, r));
            }
            _ => { let q = *step - 7; if let Some(g) = guards[q].pop() { clear_retain(&db, g); } }
        }
    }
    db.run_garbage_collection();
    collect(&mut lru, &mut pending);
    // what must still be served from cache: the recent queries and the retained ones
    let mut kept: Vec<usize> = lru.clone();
    for q in 0..3 { if !guards[q].is_empty() && !kept.contains(&q) { kept.push(q); } }
    let result = (|| {
    for k in &kept {
        let before = RUNS[*k].load(Ordering::SeqCst);
        call(&db, *k);
        let after = RUNS[*k].load(Ordering::SeqCst);
        if after != before {
            return Err(format!("history {history:?} (0-2 call, 3 collect, 4-6 call+retain, 7-9 clear one retain), final collect: q{k} is among the {CAP} most recently called queries {lru:?} or retained, but was re-executed"));
        }
    }
    Ok(())
    })();
    // a RetainedQuery must not be dropped while retained
    for g in guards.iter_mut() { for x in g.drain(..) { x.never_garbage_collect(); } }
    result
}

fn main() {
    let mut n = 0usize;
    for len in 0..=5usize {
        let total = OPS.pow(len as u32);
        for code in 0..total {
            let mut h = Vec::with_capacity(len);
            let mut c = code;
            for _ in 0..len { h.push(c % OPS); c /= OPS; }
            n += 1;
            if let Err(m) = run(&h) {
                println!("EVICTED: {m}");
                std::process::exit(1);
            }
        }
    }
    println!("histories={n} all served from cache");
}
