//! Bounded schedule exploration for C06 ("concurrent additions never return the same reference
//! twice; every reference reads back the added element; the length equals the number of
//! completed additions") on the REAL intern::atomic_arena, for the one interleaving family the
//! double-checked locking of `slice_for_slot_slow` exists for: thread A enters the slow path for
//! a fresh bucket and is STALLED (schedule-point hook) between the re-check and the publication
//! of the bucket for `stall_ms` (default 1500 ms) while thread B adds into the same bucket.
//! Both buckets of the first two sizes are exercised. Exit 0 = both references are distinct and
//! read back what was added, len == 2 per arena; exit 1 otherwise.
use std::sync::atomic::{AtomicBool, AtomicU64, Ordering};
use std::thread;
use std::time::Duration;

use intern::verif_hooks::{AtomicArena, arena};

static STALL_MS: AtomicU64 = AtomicU64::new(1500);
static A_IS_IN: AtomicBool = AtomicBool::new(false);
static FIRST: AtomicBool = AtomicBool::new(true);

fn on_point(id: u32) {
    if id == arena::BEFORE_BUCKET_PUBLISH && FIRST.swap(false, Ordering::SeqCst) {
        // the first thread to get here is stalled inside the critical section
        A_IS_IN.store(true, Ordering::SeqCst);
        thread::sleep(Duration::from_millis(STALL_MS.load(Ordering::SeqCst)));
    }
}

fn scenario(prefill: usize) -> Result<(), String> {
    // a fresh arena; `prefill` elements bring the next addition to the start of a new bucket
    let arena_ref: &'static AtomicArena<'static, u64> = Box::leak(Box::new(AtomicArena::new()));
    let mut refs = vec![];
    for i in 0..prefill { refs.push((arena_ref.add(1000 + i as u64), 1000 + i as u64)); }
    FIRST.store(true, Ordering::SeqCst);
    A_IS_IN.store(false, Ordering::SeqCst);
    arena::set_schedule_callback(Some(on_point));
    let a = thread::spawn(move || arena_ref.add(0xAAAA_AAAA_AAAA_AAAA));
    // B starts once A is inside the slow path (or after a grace period if no slow path is taken)
    let mut waited = 0;
    while !A_IS_IN.load(Ordering::SeqCst) && waited < 200 { thread::sleep(Duration::from_millis(5)); waited += 1; }
    let b = thread::spawn(move || arena_ref.add(0xBBBB_BBBB_BBBB_BBBB));
    let ra = a.join().map_err(|_| "thread A panicked".to_string())?;
    let rb = b.join().map_err(|_| "thread B panicked".to_string())?;
    arena::set_schedule_callback(None);
    if ra.index() == rb.index() { return Err(format!("prefill {prefill}: both additions returned the same reference {}", ra.index())); }
    let (va, vb) = (*arena_ref.get(ra), *arena_ref.get(rb));
    if va != 0xAAAA_AAAA_AAAA_AAAA || vb != 0xBBBB_BBBB_BBBB_BBBB {
        return Err(format!("prefill {prefill}: references read back {va:#x} / {vb:#x} instead of the added elements"));
    }
    for (r, v) in refs { if *arena_ref.get(r) != v { return Err(format!("prefill {prefill}: an earlier element changed")); } }
    if arena_ref.len() != prefill + 2 { return Err(format!("prefill {prefill}: len {} after {} additions", arena_ref.len(), prefill + 2)); }
    Ok(())
}

fn main() {
    if let Some(ms) = std::env::args().nth(1).and_then(|s| s.parse().ok()) { STALL_MS.store(ms, Ordering::SeqCst); }
    // first bucket (empty arena) and second bucket (first one full)
    // buckets are numbered from the largest; the first one used is the smallest (128 slots)
    let first_bucket = arena::bucket_capacity(arena::NUM_SIZES - 1);
    for prefill in [0usize, first_bucket] {
        if let Err(m) = scenario(prefill) { println!("DIFFERENT: {m}"); std::process::exit(1); }
    }
    println!("schedules=2 (stall {} ms): distinct references, both read back, length exact", STALL_MS.load(Ordering::SeqCst));
}
