//! Bounded exhaustive replay for C05 on the REAL intern crate, over the LENGTH of the value:
//! for every length 0..=max (default 1100: four wrap-arounds of an 8-bit length and past 2^10)
//! and three fill patterns, interned through &str, String and Box<[u8]> / Vec<u8>:
//! `as_str()` / `as_bytes()` give back exactly what was interned, interning again gives the
//! same id, and two different values never share an id.
//! Exit 0 = all hold, exit 1 = first failing length printed.
//! usage: intern_lengths_search [max = 1100]
use std::collections::HashMap;

use intern::string::{intern as intern_str, intern_bytes};

fn value(len: usize, pat: usize) -> String {
    (0..len).map(|i| match pat { 0 => 'a', 1 => (b'a' + (i % 26) as u8) as char, _ => (b'A' + ((i * 7 + len) % 26) as u8) as char }).collect()
}

fn main() {
    // value -> id lookup of the distinguished EMPTY value BEFORE anything was interned in this
    // process (the id exists from the start; the lookup must find it, now and later)
    {
        use intern::InternId;
        let empty: Vec<u8> = Vec::new();
        let before = intern::string::BytesId::get_interned(&empty);
        if before != Some(intern::string::BytesId::EMPTY) {
            println!("DIFFERENT: before the first intern() of the process, looking up the empty byte string gives {before:?} instead of the id EMPTY (whose value it is)");
            std::process::exit(1);
        }
    }
    let max: usize = std::env::args().nth(1).and_then(|s| s.parse().ok()).unwrap_or(1100);
    let mut seen: HashMap<u32, String> = HashMap::new();
    let mut seen_b: HashMap<intern::string::BytesId, Vec<u8>> = HashMap::new();
    let mut n = 0usize;
    for len in 0..=max {
        for pat in 0..3 {
            let s = value(len, pat);
            let id = intern_str(s.as_str());
            if id.as_str() != s {
                println!("DIFFERENT: a string of length {len} (pattern {pat}) was interned and looks up as a string of length {}: {:?}...", id.as_str().len(), &id.as_str()[..id.as_str().len().min(12)]);
                std::process::exit(1);
            }
            if intern_str(s.clone()) != id {
                println!("DIFFERENT: interning an equal String of length {len} (pattern {pat}) gives a different id");
                std::process::exit(1);
            }
            if let Some(other) = seen.get(&id.index()) {
                if *other != s {
                    println!("DIFFERENT: two different strings (lengths {} and {len}) share the id {}", other.len(), id.index());
                    std::process::exit(1);
                }
            }
            seen.insert(id.index(), s.clone());
            // byte values through the owning conversions
            let bytes: Vec<u8> = s.bytes().map(|b| b ^ 0x80).collect();
            let b1 = intern_bytes(bytes.clone());
            let b2 = intern_bytes(bytes.clone().into_boxed_slice());
            let b3 = intern_bytes(bytes.as_slice());
            if b1.as_bytes() != bytes.as_slice() || b1 != b2 || b1 != b3 {
                println!("DIFFERENT: a byte value of length {len} (pattern {pat}) interned from Vec / Box / slice: stored length {}, ids {:?} {:?} {:?}", b1.as_bytes().len(), b1, b2, b3);
                std::process::exit(1);
            }
            if let Some(other) = seen_b.get(&b1) {
                if *other != bytes {
                    println!("DIFFERENT: two different byte values (lengths {} and {len}) share an id", other.len());
                    std::process::exit(1);
                }
            }
            seen_b.insert(b1, bytes);
            n += 1;
        }
    }
    {
        use intern::InternId;
        let empty: Vec<u8> = Vec::new();
        if intern::string::BytesId::get_interned(&empty) != Some(intern::string::BytesId::EMPTY) {
            println!("DIFFERENT: after interning, looking up the empty byte string does not give the id EMPTY");
            std::process::exit(1);
        }
    }
    println!("values={n} lengths 0..={max}: interned values read back exactly, equal values share an id, different values do not");
}
