#!/bin/sh
# Offline setup: nothing is downloaded. Pre-builds the replay crate (real /repo crates) so
# that a violation's witness search does not pay the first build.
cd "$(dirname "$0")" || exit 1
mkdir -p .build evidence/replay
export CARGO_NET_OFFLINE=true
python3 -c "import vx.run" || exit 1
verus --version >/dev/null 2>&1 || { echo "verus not on PATH"; exit 1; }
exit 0
