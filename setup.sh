#!/bin/sh
# Offline setup: nothing is downloaded. Pre-builds (no verification, no result cache) the
# Kani unit crates and the replay crate so that the first quick run does not pay the builds.
cd "$(dirname "$0")" || exit 1
mkdir -p .build evidence/replay
export CARGO_NET_OFFLINE=true
python3 -c "import vx.run" || exit 1
verus --version >/dev/null 2>&1 || { echo "verus not on PATH"; exit 1; }
cargo kani --version >/dev/null 2>&1 || { echo "cargo kani not available"; exit 1; }
python3 -m vx.prebuild || echo "prebuild incomplete (checks will build on demand)"
exit 0
