#!/bin/sh
# runs every claimed property check; usage: ./run_all.sh [quick|thorough]
cd "$(dirname "$0")" || exit 2
tier=${1:-quick}
rc=0
for p in $(python3 -c "import json; print(' '.join(c['property_id'] for c in json.load(open('MANIFEST.json'))['checks']))"); do
  ./check $p --tier $tier | tail -1
  c=$?
  [ $c -ne 0 ] && rc=1
done
exit $rc
