#!/bin/bash
# Regression over the seeded property-breaking changes in /verif/seeded/<id>/ :
# applies each patch.diff to /repo, runs ./check <property> (quick tier) for the property
# named in meta.json (plus any listed under "also_check"), reverts /repo, prints one line per
# seed.  usage: tools/run_seeds.sh [id ...]     (exit 0 iff every seed is reported)
cd /verif || exit 9
if [ -n "$(git -C /repo status --porcelain)" ]; then echo "/repo working tree is not clean"; exit 9; fi
ids="$@"; [ -z "$ids" ] && ids=$(ls seeded)
miss=0
for id in $ids; do
  d=seeded/$id; [ -f $d/patch.diff ] || continue
  props=$(python3 -c "import json;j=json.load(open('$d/meta.json'));print(' '.join(j.get('checked_under') or [j['property']]))")
  git -C /repo apply /verif/$d/patch.diff || { echo "$id: patch does not apply"; miss=1; continue; }
  verdict=""
  for p in $props; do
    out=$(./check $p 2>&1); ec=$?
    v=$(echo "$out" | grep -c "^VIOLATION")
    verdict="$verdict $p:exit=$ec,violations=$v"
    [ $ec -eq 1 ] || miss=1
  done
  git -C /repo checkout -- .
  echo "$id:$verdict"
done
exit $miss
