"""Mechanical extraction of real item text from /repo's working tree.

Everything returned is a verbatim slice of the source file (recorded with its byte
range and sha256) so that the evidence can show the verified text is the code that
runs.  Rewrites are applied afterwards by vx.rewrite and logged.
"""
import hashlib
import os
import re

from . import rustlex
from .rustlex import lex, code_tokens, match_close

REPO = os.environ.get('VERIF_REPO', '/repo')


class AnchorLost(Exception):
    """A named anchor (function, type, statement prefix) is no longer in the source."""


def norm_ws(s):
    return re.sub(r'\s+', ' ', s).strip()


class Source:
    _cache = {}

    def __init__(self, rel):
        self.rel = rel
        self.path = os.path.join(REPO, rel)
        if not os.path.exists(self.path):
            raise AnchorLost('file %s does not exist' % rel)
        with open(self.path, encoding='utf-8') as f:
            self.text = f.read()
        self.toks = lex(self.text)
        self.code = code_tokens(self.toks)
        self._blocks = None

    @classmethod
    def get(cls, rel):
        key = (REPO, rel)
        if key not in cls._cache:
            cls._cache[key] = Source(rel)
        return cls._cache[key]

    def line_of(self, off):
        return self.text.count('\n', 0, off) + 1

    # ------------------------------------------------------------------
    def blocks(self):
        """list of (open_tok_idx, close_tok_idx, header_text) for every `{}` block
        that looks like an item block (impl/trait/mod)."""
        if self._blocks is not None:
            return self._blocks
        res = []
        toks = self.toks
        code = self.code
        for ci, k in enumerate(code):
            t = toks[k]
            if t[0] == 'ident' and t[1] in ('impl', 'trait', 'mod'):
                # must be at item position: previous code token is one of ; } { ] or
                # a visibility / unsafe keyword or start of file
                if ci > 0:
                    p = toks[code[ci - 1]]
                    if not (p[1] in (';', '}', '{', ']', ')', 'pub', 'unsafe', 'default')):
                        continue
                # find the opening brace (skip generics <...> which contain no braces
                # except const-generic blocks, not used here)
                cj = ci + 1
                depth_angle = 0
                found = None
                while cj < len(code):
                    u = toks[code[cj]]
                    if u[0] == 'punct' and u[1] == ';':
                        break
                    if u[0] == 'punct' and u[1] == '{':
                        found = code[cj]
                        break
                    cj += 1
                if found is None:
                    continue
                close = match_close(toks, found)
                header = norm_ws(self.text[t[2]:toks[found][2]])
                res.append((found, close, header))
        self._blocks = res
        return res

    def enclosing_headers(self, tok_idx):
        hs = []
        for (o, c, h) in self.blocks():
            if o < tok_idx < c:
                hs.append((o, h))
        hs.sort()
        return [h for _, h in hs]


class Extracted:
    def __init__(self, src, start, end, kind, name):
        self.src = src
        self.start = start
        self.end = end
        self.kind = kind
        self.name = name
        self.text = src.text[start:end]

    def sha(self):
        return hashlib.sha256(self.text.encode()).hexdigest()

    def record(self):
        return {
            'file': self.src.rel,
            'kind': self.kind,
            'name': self.name,
            'lines': [self.src.line_of(self.start), self.src.line_of(self.end)],
            'sha256': self.sha(),
        }


class FnItem(Extracted):
    """header = `fn name<..>(..) -> R where ..`, body = `{ .. }` (both verbatim)."""

    def __init__(self, src, start, body_open, end, name, dropped_prefix):
        super().__init__(src, start, end, 'fn', name)
        self.header = src.text[start:body_open]
        self.body = src.text[body_open:end]
        self.dropped_prefix = dropped_prefix  # attributes / visibility text dropped


def find_fn(rel, name, within=None, nth=0):
    """Find `fn name` whose innermost enclosing impl/trait/mod header contains the
    substring `within` (whitespace-normalised); within=None means a free function (no
    enclosing impl/trait)."""
    src = Source.get(rel)
    toks, code = src.toks, src.code
    hits = []
    for ci, k in enumerate(code):
        t = toks[k]
        if t[0] == 'ident' and t[1] == 'fn' and ci + 1 < len(code):
            nm = toks[code[ci + 1]]
            if nm[0] == 'ident' and nm[1] == name:
                hs = src.enclosing_headers(k)
                hs_item = [h for h in hs if not h.startswith('mod ')]
                if within is None:
                    if hs_item:
                        continue
                else:
                    if not hs_item or norm_ws(within) not in hs_item[-1]:
                        continue
                hits.append(ci)
    if len(hits) <= nth:
        raise AnchorLost('fn %s (within %r) not found in %s' % (name, within, rel))
    ci = hits[nth]
    k = code[ci]
    t = toks[k]
    # body: first `{` at paren/bracket depth 0 after the fn keyword, or `;` (no body)
    depth = 0
    body_open = None
    cj = ci
    while cj < len(code):
        u = toks[code[cj]]
        if u[0] == 'punct':
            if u[1] in '([':
                depth += 1
            elif u[1] in ')]':
                depth -= 1
            elif u[1] == '{' and depth == 0:
                body_open = code[cj]
                break
            elif u[1] == ';' and depth == 0:
                break
        cj += 1
    if body_open is None:
        raise AnchorLost('fn %s in %s has no body' % (name, rel))
    close = match_close(toks, body_open)
    # dropped prefix: walk back over qualifiers / visibility / attributes / docs
    start_tok = k
    cj = ci - 1
    quals = []
    while cj >= 0:
        u = toks[code[cj]]
        if u[0] == 'ident' and u[1] in ('pub', 'const', 'unsafe', 'async', 'extern', 'default'):
            quals.append(u[1])
            cj -= 1
            continue
        if u[0] == 'punct' and u[1] == ')':
            # pub(crate)
            # find matching '('
            d = 0
            cc = cj
            while cc >= 0:
                v = toks[code[cc]]
                if v[1] == ')':
                    d += 1
                elif v[1] == '(':
                    d -= 1
                    if d == 0:
                        break
                cc -= 1
            if cc > 0 and toks[code[cc - 1]][1] == 'pub':
                cj = cc - 1
                continue
            break
        if u[0] == 'punct' and u[1] == ']':
            d = 0
            cc = cj
            while cc >= 0:
                v = toks[code[cc]]
                if v[1] == ']':
                    d += 1
                elif v[1] == '[':
                    d -= 1
                    if d == 0:
                        break
                cc -= 1
            if cc > 0 and toks[code[cc - 1]][1] == '#':
                cj = cc - 2
                continue
            break
        break
    prefix_start = toks[code[cj + 1]][2] if cj + 1 < ci else t[2]
    dropped = norm_ws(src.text[prefix_start:t[2]])
    start = t[2]
    # keep `unsafe`/`const` qualifiers that directly precede `fn`
    return FnItem(src, start, toks[body_open][2], toks[close][3], name, dropped)


def find_item(rel, kind, name, nth=0):
    """struct/enum/const/static/type/union item text, from the keyword to `;` or `}`;
    attributes are returned separately (dropped)."""
    src = Source.get(rel)
    toks, code = src.toks, src.code
    hits = []
    for ci, k in enumerate(code):
        t = toks[k]
        if t[0] == 'ident' and t[1] == kind and ci + 1 < len(code):
            nm = toks[code[ci + 1]]
            if nm[0] == 'ident' and nm[1] == name:
                hits.append(ci)
    if len(hits) <= nth:
        raise AnchorLost('%s %s not found in %s' % (kind, name, rel))
    ci = hits[nth]
    k = code[ci]
    depth = 0
    cj = ci
    end = None
    while cj < len(code):
        u = toks[code[cj]]
        if u[0] == 'punct':
            if u[1] in '([':
                depth += 1
            elif u[1] in ')]':
                depth -= 1
            elif u[1] == '{' and depth == 0:
                c = match_close(toks, code[cj])
                # const X: T = Foo { .. };  -> continue to `;`
                if kind in ('const', 'static', 'type'):
                    cj = code.index(c)
                    cj += 1
                    continue
                end = toks[c][3]
                break
            elif u[1] == ';' and depth == 0:
                end = u[3]
                break
        cj += 1
    if end is None:
        raise AnchorLost('%s %s in %s: no end' % (kind, name, rel))
    return Extracted(src, toks[k][2], end, kind, name)


def find_in_fn(fn_item, prefix, until=None, nth=0, skip=None):
    """Sub-expression of a function body: starts at the nth occurrence of `prefix`
    (matched on whitespace-normalised code text) and extends while delimiters are
    balanced until one of the `until` punctuation chars at depth 0 (default: `,` `;`
    or an unmatched closer)."""
    src = fn_item.src
    body_start = fn_item.start + len(fn_item.header)
    text = src.text
    # search token-wise: build a list of candidate offsets where normalised text matches
    pat = re.compile(r'\s*'.join(re.escape(p) for p in prefix.split()))
    hits = [m.start() for m in pat.finditer(text, body_start, fn_item.end)]
    if len(hits) <= nth:
        raise AnchorLost('prefix %r not found in fn %s (%s)' % (prefix, fn_item.name, src.rel))
    start = hits[nth]
    if skip:
        sp = re.compile(r'\s*'.join(re.escape(p) for p in skip.split()))
        m = sp.match(text, start)
        if not m:
            raise AnchorLost('skip prefix %r does not match at %r' % (skip, prefix))
        start = m.end()
    toks = src.toks
    k0 = next(i for i, t in enumerate(toks) if t[2] >= start)
    depth = 0
    until = until or ',;'
    end = None
    for j in range(k0, len(toks)):
        t = toks[j]
        if t[0] != 'punct':
            continue
        if t[1] in rustlex.OPEN:
            depth += 1
        elif t[1] in rustlex.CLOSE:
            if depth == 0:
                end = t[2]
                break
            depth -= 1
        elif depth == 0 and t[1] in until:
            end = t[2]
            break
    if end is None:
        raise AnchorLost('no end for prefix %r' % prefix)
    return Extracted(src, start, end, 'expr', fn_item.name + '#' + prefix[:30])
