"""Run every registered witness / exploration program on the CURRENT tree: each must exit 0
on the unchanged tree (a witness that fails there would 'reproduce' anything), except the
witnesses of recorded known findings, which must exit 1.
usage: python3 -m vx.witness_selfcheck"""
import glob
import json
import os
import shutil
import subprocess
import sys

ROOT = os.path.dirname(os.path.dirname(os.path.abspath(__file__)))
BUILD = os.path.join(ROOT, '.build')


def main():
    known = set()
    for line in open(os.path.join(ROOT, 'known_findings.txt')):
        if line.startswith('finding:') and 'witness=replay/src/bin/' in line:
            known.add(line.split('witness=replay/src/bin/')[1].split('.rs')[0])
    cmds = []
    for uj in sorted(glob.glob(os.path.join(ROOT, 'units', '*', 'unit.json'))):
        u = json.load(open(uj))
        for w in u.get('witnesses', []) + u.get('thorough_explorations', []):
            if w['cmd'] not in cmds:
                cmds.append(w['cmd'])
    crate = os.path.join(ROOT, 'replay')
    env = dict(os.environ)
    env.update({'CARGO_NET_OFFLINE': 'true', 'CARGO_TARGET_DIR': os.path.join(BUILD, 'replay-target'),
                'RUSTFLAGS': '--cfg isographlabs_isograph_verif', 'RUST_BACKTRACE': '0'})
    shutil.copy('/repo/Cargo.lock', os.path.join(crate, 'Cargo.lock'))
    b = subprocess.run(['cargo', 'build', '--offline', '--bins'], cwd=crate, env=env, capture_output=True, text=True)
    if b.returncode != 0:
        print('replay crate does not build:', b.stderr[-1500:])
        sys.exit(2)
    work = os.path.join(BUILD, 'replay-work')
    os.makedirs(work, exist_ok=True)
    bad = 0
    for c in cmds:
        if c[0] == 'kani_replay':
            continue
        exe = os.path.join(env['CARGO_TARGET_DIR'], 'debug', c[0])
        p = subprocess.run([exe] + c[1:], capture_output=True, text=True, cwd=work, env=env, timeout=1800)
        want = 1 if c[0] in known else 0
        ok = p.returncode == want
        print('%-4s exit=%d (expected %d)  %s' % ('ok' if ok else 'BAD', p.returncode, want, ' '.join(c)))
        if not ok:
            bad += 1
            print(p.stdout[-600:])
    sys.exit(1 if bad else 0)


if __name__ == '__main__':
    main()
