"""check runner:  python3 -m vx.run <PROPERTY> [--tier quick|thorough] [--replay <file>]

exit 0  every obligation of the property discharged (known findings reported as
        KNOWN-FINDING lines)
exit 1  + `VIOLATION property=<id> replay=<path>` an obligation that is not a listed
        known finding failed
exit 2  undecided (lost anchor, unsupported construct, solver limit, canary did not
        fail): never an alarm
"""
import argparse
import hashlib
import json
import os
import re
import sys
import time
from concurrent.futures import ThreadPoolExecutor

from . import template, verus_backend, kani_backend
from .extract import AnchorLost

ROOT = os.path.dirname(os.path.dirname(os.path.abspath(__file__)))
BUILD = os.path.join(ROOT, '.build')
EVID = os.path.join(ROOT, 'evidence')
REPLAY_DIR = os.path.join(EVID, 'replay')

TRUST_PATTERNS = [
    (r'#\[verifier::external_body\]', 'external_body'),
    (r'\bassume\s*\(', 'assume'),
    (r'\badmit\s*\(', 'admit'),
    (r'assume_specification', 'assume_specification'),
    (r'\buninterp\s+spec\s+fn', 'uninterpreted spec fn'),
    (r'\baxiom\b', 'axiom'),
    (r'#\[kani::stub\(', 'kani::stub'),
    (r'#\[verifier::external\]', 'verifier::external'),
    (r'\bunsafe\b', 'unsafe'),
    (r'kani::assume\s*\(', 'kani::assume'),
]


def load_props():
    with open(os.path.join(ROOT, 'vx', 'props.json')) as f:
        return json.load(f)


def load_unit(name):
    d = os.path.join(ROOT, 'units', name)
    with open(os.path.join(d, 'unit.json')) as f:
        u = json.load(f)
    u['name'] = name
    u['dir'] = d
    return u


def label_props(label):
    """C01+C02.O-4 -> ['C01','C02']"""
    head = label.split('.', 1)[0]
    return [p for p in head.split('+') if re.fullmatch(r'C\d{2,3}', p)]


def scan_trusted(text):
    found = []
    lines = text.split('\n')
    for no, l in enumerate(lines, 1):
        code = l.split('//')[0]
        for pat, kind in TRUST_PATTERNS:
            if re.search(pat, code):
                # name the item: next line that has fn/struct
                ctx = ''
                for k in range(no - 1, min(no + 6, len(lines))):
                    m = re.search(r'\b(fn|struct|enum|trait|proof fn|spec fn)\s+(\w+)', lines[k])
                    if m:
                        ctx = m.group(2)
                        break
                found.append('%s: %s (line %d)' % (kind, ctx or code.strip()[:60], no))
    return found


def known_findings():
    path = os.path.join(ROOT, 'known_findings.txt')
    res = []
    if not os.path.exists(path):
        return res
    for l in open(path):
        l = l.strip()
        if l.startswith('finding:'):
            m = re.match(r'finding:\s+property=(\S+)\s+obligation=(\S+)\s+witness=(\S+)\s+::\s*(.*)', l)
            if m:
                res.append({'property': m.group(1), 'obligation': m.group(2), 'witness': m.group(3), 'what': m.group(4)})
    return res


# ---------------------------------------------------------------------------------
def _run_verus_unit(u, tier):
    """returns a unit result dict"""
    res = {'unit': u['name'], 'backend': 'verus', 'undecided': None, 'obligations': [], 'failures': [],
           'functions': [], 'trusted': [], 'rewrites': [], 'extracted': [], 'dropped': [], 'cmds': [],
           'solver_s': 0.0, 'wall_s': 0.0, 'canaries': []}
    t0 = time.time()
    tpl = open(os.path.join(u['dir'], u.get('template', 'unit.rs'))).read()
    flags = [tier] + u.get('flags', [])
    outdir = os.path.join(BUILD, 'verus', u['name'])
    os.makedirs(outdir, exist_ok=True)
    try:
        gen = template.render(tpl, flags=flags, canary=True)
    except AnchorLost as e:
        res['undecided'] = 'lost anchor: %s' % e
        return res
    except (template.TemplateError, template.Unsupported) as e:
        res['undecided'] = 'template/unsupported: %s' % e
        return res
    main_path = os.path.join(outdir, u['name'] + '.rs')
    open(main_path, 'w').write(gen.text)
    res['generated'] = main_path
    res['generated_sha256'] = hashlib.sha256(gen.text.encode()).hexdigest()
    res['extracted'] = gen.extracted
    res['rewrites'] = gen.rewrites
    res['dropped'] = gen.dropped
    res['trusted'] = scan_trusted(gen.text)
    rlimit = u.get('rlimit', 30)
    r = verus_backend.run(main_path, gen, rlimit)
    # A function under contract may start calling a free function the unit has no contract
    # for. Such callees are looked up in /repo and stubbed WITHOUT a contract (arbitrary
    # result, no effect on &mut arguments assumed): whatever the caller's postcondition
    # needs from them then fails as a named obligation instead of a type error.
    if r.undecided and ('cannot find function' in r.undecided or 'no method named' in r.undecided):
        names = sorted(set(re.findall(r'cannot find function `(\w+)` in this scope', r.raw_stderr)))
        stubs = []
        for nm in names:
            hdr = _find_free_fn_header(nm)
            if hdr:
                stubs.append('// auto-stub (no contract) for a callee that is not under contract: %s\n#[verifier::external_body]\npub %s { unimplemented!() }\n' % (nm, hdr))
        # the same for a method of a type the unit knows (`x.new_method(..)`): its real header,
        # inside an impl block of that type, without a contract
        for (nm, ty) in sorted(set(re.findall(r'no method named `(\w+)` found for (?:struct|enum) `(\w+)(?:<[^`]*>)?`', r.raw_stderr))):
            hdr = _find_method_header(nm, ty)
            if hdr:
                names.append('%s::%s' % (ty, nm))
                stubs.append('// auto-stub (no contract) for a method that is not under contract: %s::%s\n%s {\n#[verifier::external_body]\npub %s { unimplemented!() }\n}\n' % (ty, nm, hdr[0], hdr[1]))
        if stubs and '\n} // verus!' in gen.text:
            text2 = gen.text.replace('\n} // verus!', '\n' + '\n'.join(stubs) + '\n} // verus!', 1)
            open(main_path, 'w').write(text2)
            r2 = verus_backend.run(main_path, gen, rlimit)
            if not (r2.undecided and 'does not compile' in r2.undecided):
                r = r2
                res['auto_stubbed_callees'] = names
                res['trusted'] = scan_trusted(text2)
    res['cmds'] = [r.cmd]
    res['solver_s'] = r.smt_ms / 1000.0
    res['verus_total_s'] = r.total_ms / 1000.0
    res['verus_version'] = r.version
    res['functions'] = [{'fn': f, 'mode': m, 'solver_us': t, 'ok': ok} for (f, m, t, ok) in r.functions]
    if r.undecided:
        res['undecided'] = r.undecided
    elif getattr(r, 'unclassified', None):
        res['undecided'] = 'Verus reported errors of an unknown kind next to the named failures: ' + r.unclassified
    # obligations = labelled clauses + one body obligation per function under contract
    labels = sorted(set(l for l in gen.labels.values() if not l.startswith('CANARY.')))
    failed = {}
    canary_failed = set()
    unlabelled_in_block = {}
    try:
        cb = json.load(open(os.path.join(u['dir'], 'closures.json')))
    except Exception:
        cb = {}
    closure_base = cb.get('bare_closures', {})
    from .closure_baseline import contract_free_calls
    cf_now = contract_free_calls(gen, u)
    cf_base = cb.get('contract_free_calls', {})
    for f in r.failures:
        if f['label'] and f['label'].startswith('CANARY.'):
            canary_failed.add(f['label'])
            continue
        if f['block'] and '__canary_' in f['block']:
            # a different failure inside a canary copy: the original reports it too
            continue
        if f['block'] and gen.bare_closures.get(f['block'], 0) > closure_base.get(f['block'], 0):
            # the function now contains a closure the unit has no contract for: Verus knows
            # nothing about its result, so this failure means "needs contract", not "bug"
            res['undecided'] = res['undecided'] or (
                'function %s contains %d closure(s) without a contract (%d when its contract was written); '
                'failed obligation %s cannot be attributed to the code' % (
                    f['block'], gen.bare_closures.get(f['block'], 0), closure_base.get(f['block'], 0),
                    f['label'] or f['message']))
            continue
        name = f['label'] or '%s::%s::%s' % (u['name'], f['block'] or '<unit>', f['message'])
        props = label_props(f['label']) if f['label'] else (f['serves'] or u.get('serves', []))
        f['obligation'] = name
        new_cf = sorted(set(cf_now.get(f['block'], [])) - set(cf_base.get(f['block'], []))) if f['block'] else []
        if new_cf:
            # the function now calls a stand-in without a contract (any result possible) that it
            # did not call when its contract was written: the failure may be an artefact of that
            # over-approximation; it is reported only if a witness reproduces it on the real code
            f['needs_witness'] = 'the failing function now calls contract-free stand-in(s) %s' % ', '.join(new_cf)
        f['props'] = props
        failed.setdefault(name, f)
        if not f['label']:
            unlabelled_in_block[f['block']] = True
    for lb in labels:
        st = 'failed' if lb in failed else 'discharged'
        res['obligations'].append({'name': lb, 'props': label_props(lb), 'status': st, 'backend': 'verus'})
    block_serves = {name: sv for (_, _, name, sv) in gen.blocks if name in gen.fn_blocks}
    for (f, m, t, ok) in r.functions:
        short = f.split('::', 1)[1] if '::' in f else f
        if '__canary_' in short:
            continue
        last = short.split('::')[-1]
        if last not in block_serves:
            continue   # hand-written stub / lemma: not an obligation on /repo's code
        bad = unlabelled_in_block.get(last, False)
        res['obligations'].append({'name': '%s::%s::body' % (u['name'], short),
                                   'props': block_serves.get(last) or u.get('serves', []),
                                   'status': 'failed' if bad else 'discharged', 'backend': 'verus',
                                   'kind': 'function body: callee preconditions, arithmetic, asserts, invariants, unlabelled ensures',
                                   'solver_us': t})
    res['failures'] = list(failed.values())
    for c in gen.canaries:
        ok = c in canary_failed
        res['canaries'].append({'name': c, 'failed_as_required': ok})
        if not ok and not r.undecided:
            res['undecided'] = res['undecided'] or ('canary %s did not fail: the harness is not observing the code' % c)
    res['witnesses'] = u.get('witnesses', [])
    exps = [e for e in u.get('thorough_explorations', []) if tier in e.get('tiers', ['thorough'])]
    if exps:
        from . import replay
        replay.run_explorations(res, exps, ROOT, BUILD)
    res['explorations_ran'] = True
    res['wall_s'] = time.time() - t0
    return res


def run_verus_unit(u, tier):
    """runs the unit; if the proof side is UNDECIDED (lost anchor, the restructured code no
    longer type-checks against the spliced contracts, solver limit) the unit's registered
    witness programs are run anyway as a bounded replay on the real code: a program that finds
    a failing input turns 'undecided' into a VIOLATION with that input; if none does, the
    verdict stays undecided (a bounded replay never yields exit 0 for a proof-level unit)."""
    res = _run_verus_unit(u, tier)
    if not res.get('explorations_ran'):
        # the proof side stopped early (lost anchor, unsupported construct in the template): the
        # bounded explorations do not depend on it and still run on the real code
        exps = [e for e in u.get('thorough_explorations', []) if tier in e.get('tiers', ['thorough'])]
        if exps:
            from . import replay
            replay.run_explorations(res, exps, ROOT, BUILD)
        res['explorations_ran'] = True
    if res.get('undecided') and u.get('witnesses'):
        from . import replay
        res['fallback_replay'] = []
        seen = []
        kf_programs = set(k['witness'].split('/')[-1].replace('.rs', '') for k in known_findings() if k.get('witness'))
        for w in u['witnesses']:
            if w['cmd'] in seen:
                continue
            if w['cmd'][0] in kf_programs:
                # the witness of a recorded known finding fails on the unchanged tree by design
                continue
            seen.append(w['cmd'])
            props = w.get('props', u.get('serves', []))
            fake = {'obligation': '%s::undecided::bounded_replay::%s' % (u['name'], '_'.join(w['cmd'][:2])),
                    'props': props, 'message': 'proof undecided (%s); bounded replay on the real code' % res['undecided'][:160],
                    'rendered': res['undecided'], 'label': None, 'block': None, 'serves': props}
            r2 = dict(res)
            r2['witnesses'] = [dict(w, match='.*')]
            replay.witness_search(r2, fake, ROOT, BUILD)
            res['fallback_replay'].append({'cmd': w['cmd'], 'tried': fake.get('witness_search')})
            if fake.get('concrete_input'):
                res['failures'] = list(res.get('failures', [])) + [fake]
        res['witnesses'] = u['witnesses']
    return res


def _find_free_fn_header(name):
    """signature text of a free `fn name` somewhere under /repo/crates or /repo/relay-crates"""
    import subprocess
    from . import extract, rewrite
    try:
        out = subprocess.run(['grep', '-rlE', r'fn\s+%s\b' % name, '/repo/crates', '/repo/relay-crates', '--include=*.rs'],
                             capture_output=True, text=True).stdout.split()
    except Exception:
        return None
    for path in out:
        rel = os.path.relpath(path, '/repo')
        try:
            f = extract.find_fn(rel, name, None)
        except Exception:
            continue
        hdr, _ = rewrite.r12_strip_comments(f.header)
        return ' '.join(hdr.split())
    return None


def _find_method_header(name, ty):
    """(impl header, fn header) of `fn name` inside an `impl .. ty ..` block somewhere under /repo"""
    import subprocess
    from . import extract, rewrite
    try:
        out = subprocess.run(['grep', '-rlE', r'fn\s+%s\b' % name, '/repo/crates', '/repo/relay-crates', '--include=*.rs'],
                             capture_output=True, text=True).stdout.split()
    except Exception:
        return None
    for path in out:
        rel = os.path.relpath(path, '/repo')
        text = open(path).read()
        for m in re.finditer(r'^impl(?:<[^>{]*>)?\s+%s(?:<[^>{]*>)?\s*\{' % re.escape(ty), text, re.M):
            within = m.group(0)[:-1].strip()
            try:
                f = extract.find_fn(rel, name, within)
            except Exception:
                continue
            hdr, _ = rewrite.r12_strip_comments(f.header)
            return (within, ' '.join(hdr.split()))
    return None


def run_unit(u, tier):
    if u['backend'] == 'verus':
        return run_verus_unit(u, tier)
    if u['backend'] == 'kani':
        res = kani_backend.run_unit(u, tier, ROOT, BUILD)
        exps = [e for e in u.get('thorough_explorations', []) if tier in e.get('tiers', ['thorough'])]
        if exps:
            from . import replay
            replay.run_explorations(res, exps, ROOT, BUILD)
        return res
    raise SystemExit('unknown backend ' + u['backend'])


# ---------------------------------------------------------------------------------
def main():
    ap = argparse.ArgumentParser()
    ap.add_argument('prop')
    ap.add_argument('--tier', default=os.environ.get('VERIF_TIER', 'quick'))
    ap.add_argument('--replay')
    ap.add_argument('--unit', help='run only this unit (debug)')
    a = ap.parse_args()
    tier = a.tier if a.tier in ('quick', 'thorough') else 'quick'
    props = load_props()
    if a.prop not in props:
        print('unknown or not-applicable property ' + a.prop)
        sys.exit(2)
    if a.replay:
        from . import replay
        sys.exit(replay.run_replay(a.prop, a.replay, ROOT, BUILD))
    P = props[a.prop]
    seed = int(os.environ.get('VERIF_SEED', '0') or 0)
    t0 = time.time()
    units = [load_unit(n) for n in P['units'] if (not a.unit or n == a.unit)]
    os.makedirs(EVID, exist_ok=True)
    os.makedirs(REPLAY_DIR, exist_ok=True)
    with ThreadPoolExecutor(max_workers=max(1, len(units))) as ex:
        results = list(ex.map(lambda u: run_unit(u, tier), units))

    kf = [k for k in known_findings() if k['property'] == a.prop]
    kf_by_obl = {}
    for k in kf:
        kf_by_obl.setdefault(k['obligation'], []).append(k)

    obligations = []
    known_obls = []
    bounded_list = []
    discharged = 0
    bounded_obl = 0
    violations = []
    known_hit = []
    undecided = []
    for r in results:
        if r['undecided']:
            undecided.append('%s: %s' % (r['unit'], r['undecided']))
        for o in r['obligations']:
            if a.prop not in o['props']:
                continue
            if o['status'] == 'failed' and o['name'] in kf_by_obl:
                o['status'] = 'known-finding (fails as recorded; not counted)'
                known_obls.append(o)
                continue
            if o.get('bounded'):
                # a bounded stand-in is never counted as proved; it is listed separately
                bounded_list.append(o)
                bounded_obl += 1
                continue
            obligations.append(o)
            if o['status'] == 'discharged':
                discharged += 1
        for f in r['failures']:
            if a.prop not in f['props']:
                continue
            name = f['obligation']
            if name in kf_by_obl:
                ks = kf_by_obl[name]
                # a finding with a recorded witness matches only that witness when the
                # back end produced one (Kani); Verus gives none, the obligation is the key
                w = f.get('witness')
                match = [k for k in ks if (w is None or k['witness'] in ('-', w) or f.get('witness_matches', {}).get(k['witness']))]
                if match:
                    known_hit.append((match[0], f))
                    continue
            violations.append((r, f))

    lines = []
    for k, f in known_hit:
        lines.append('KNOWN-FINDING: property=%s %s [obligation %s]' % (a.prop, k['what'], k['obligation']))
    exit_code = 0
    replay_paths = []
    if violations:
        from . import replay
        for (r, f) in violations:
            path, found_input = replay.write_replay(a.prop, r, f, ROOT, BUILD, REPLAY_DIR)
            replay_paths.append(path)
            if r.get('auto_stubbed_callees') and not found_input:
                # the failure was derived with a contract-free stub for a callee this unit
                # does not know (%s): without a concrete failing input on the real code it
                # may be an artefact of the over-approximation -> undecided, not an alarm
                undecided.append('%s: %s fails only under the contract-free stub for new callee(s) %s and no witness reproduces it on the real code' % (
                    r['unit'], f['obligation'], ', '.join(r['auto_stubbed_callees'])))
                continue
            if f.get('spurious'):
                undecided.append('%s: counterexample for %s did not reproduce on the real code (model artefact)' % (r['unit'], f['obligation']))
                continue
            if f.get('needs_witness') and not found_input:
                undecided.append('%s: %s: %s, and no witness reproduces the failure on the real code' % (r['unit'], f['obligation'], f['needs_witness']))
                continue
            if (r.get('backend') == 'verus' and not f.get('label') and not found_input
                    and ('arithmetic' in f.get('message', '') or 'overflow' in f.get('message', ''))):
                # an unlabelled arithmetic side condition (e.g. a new counter `n += 1`) that Verus
                # cannot bound without an invariant nobody wrote for the new code: "needs
                # contract", not a refutation of the property. Only a failing input makes it one.
                undecided.append('%s: %s (%s) is an arithmetic side condition without a failing input: needs an invariant for the changed code, not a refutation' % (
                    r['unit'], f['obligation'], f.get('message', '')))
                continue
            tail = '' if found_input else ' no-failing-input-found'
            lines.append('VIOLATION property=%s replay=%s obligation=%s%s' % (a.prop, path, f['obligation'], tail)
                         if False else 'VIOLATION property=%s replay=%s%s' % (a.prop, path, tail))
            lines.append('  failed obligation: %s (%s)' % (f['obligation'], f['message']))
            exit_code = 1
    if exit_code == 0 and undecided:
        exit_code = 2

    # ---- evidence ----
    level = P.get('level', 'proof')
    n_obl = len(obligations)
    trusted = []
    for r in results:
        trusted += ['[%s] %s' % (r['unit'], t) for t in r['trusted']]
    trusted += P.get('trusted_base', [])
    samples = []
    for o in (obligations + bounded_list)[:14]:
        samples.append({'obligation': o['name'], 'status': o['status'], 'backend': o.get('backend'),
                        **({'bounded': o['bounded']} if o.get('bounded') else {})})
    cov = {
        'obligations': n_obl,
        'discharged': discharged,
        'checker_cmd': ' ; '.join(c for r in results for c in r['cmds']) or 'none',
        'trusted_base': trusted,
        'samples': samples,
        'explanation': P.get('explanation', ''),
        'obligation_list': obligations,
        'known_finding_obligations': known_obls,
        'bounded_stand_ins': bounded_list,
        'bounded_obligations': bounded_obl,
        'bounded_discharged': len([o for o in bounded_list if o['status'] == 'discharged']),
        'functions_under_contract': [x for r in results for x in r['extracted']],
        'rewrites_applied': [x for r in results for x in r['rewrites']],
        'dropped_on_extraction': [x for r in results for x in r['dropped']],
        'canaries': [x for r in results for x in r['canaries']],
        'solver_time_s': round(sum(r['solver_s'] for r in results), 3),
        'units': [{'unit': r['unit'], 'backend': r['backend'], 'undecided': r['undecided'], 'wall_s': round(r['wall_s'], 2),
                   'generated_sha256': r.get('generated_sha256')} for r in results],
        'known_findings_reported': [k['obligation'] for k, _ in known_hit],
        'failed_obligations': [f['obligation'] for _, f in violations],
        'undecided': undecided,
        'not_covered': P.get('not_covered', ''),
        'exhaustive': False,
    }
    # source scans backing an assumption (e.g. C17: the artifact generator has no fs writes)
    scans = []
    for sc in P.get('scans', []):
        hits = []
        base = os.path.join('/repo', sc['path'])
        for dp, _, fs in os.walk(base):
            for fn in fs:
                if fn.endswith('.rs'):
                    try:
                        for no, l in enumerate(open(os.path.join(dp, fn), encoding='utf-8'), 1):
                            code = l.split('//')[0]
                            if any(re.search(pat, code) for pat in sc['patterns']):
                                hits.append('%s:%d: %s' % (os.path.relpath(os.path.join(dp, fn), '/repo'), no, l.strip()[:120]))
                    except Exception:
                        pass
        scans.append({'what': sc['what'], 'path': sc['path'], 'patterns': sc['patterns'], 'hits': hits})
    cov['assumption_scans'] = scans
    if level != 'proof' or discharged != n_obl or n_obl == 0:
        # schema: a proof-level claim needs discharged == obligations
        ev_level = level if (level != 'proof') else 'other'
    else:
        ev_level = 'proof'
    if not cov['explanation']:
        cov['explanation'] = 'see DESIGN.md'
    ev = {
        'property_id': a.prop, 'tier': tier, 'seed': seed, 'level': ev_level, 'coverage': cov,
        'assumptions': P.get('assumptions', []) + (['known findings (failing obligations listed in known_findings.txt): ' +
                                                    ', '.join(k['obligation'] for k, _ in known_hit)] if known_hit else []),
        'wall_s': round(time.time() - t0, 2), 'violations': len([1 for l in lines if l.startswith('VIOLATION')]),
    }
    with open(os.path.join(EVID, a.prop + '.json'), 'w') as f:
        json.dump(ev, f, indent=1)
    for l in lines:
        print(l)
    for u in undecided:
        print('UNDECIDED: ' + u)
    print('%s tier=%s proved=%d/%d bounded=%d/%d known=%d violations=%d undecided=%d wall=%.1fs' % (
        a.prop, tier, discharged, n_obl, len([o for o in bounded_list if o['status'] == 'discharged']), len(bounded_list),
        len(known_hit), ev['violations'], len(undecided), time.time() - t0))
    sys.exit(exit_code)


if __name__ == '__main__':
    main()
