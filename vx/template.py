"""Unit templates: ordinary Rust/Verus text (stubs, spec functions, lemmas, harnesses —
everything hand written lives here) plus `//@` directives that pull the REAL item text
out of /repo and splice contracts into it.  Splicing only inserts text.

Directives
  //@fn rel=<file> name=<fn> [within="<impl header substring>"] [nth=N] [serves=C01,C02]
        [ret=<name>] [vis=pub] [rename=<new>] [prefix="<text placed before fn>"]
  //@item rel=<file> kind=struct|enum|const|type name=<Name> [prefix="#[derive(..)] pub"]
  //@expr rel=<file> fn=<fn> [within=..] start="<prefix>" [until=",;"] [nth=N]
  inside a //@fn (until //@end):
    //@rw R1 R2 ...            named rewrites of DESIGN §3.2 applied to header+body
    //@sub "<regex>" => "<replacement>" [n=<expected count>]   logged ad-hoc rewrite (body)
    //@hsub "<regex>" => "<replacement>"                       same, on the header
    //@contract                 following lines go between signature and body
    //@loop <n>                 following lines go before the `{` of the n-th loop
    //@closure <n> params=".." ret="r: T"   the n-th block-bodied closure `|..| {` of the body gets
                                typed parameters, a named return and the following lines as its contract
    //@after "<stmt prefix>" [nth=N]   following lines go after that statement's `;`
    //@before "<stmt prefix>" [nth=N]
    //@atend                    following lines go before the body's final `}`
  //@O <label>   at the end of a clause line names the obligation on that line
  //@canary <label> <clause>   emitted only in canary mode (a clause that MUST fail)
  //@if <flag> ... //@endif    text emitted only when the flag is set (tiers, canary)
"""
import re
import shlex

from . import extract, rewrite
from .extract import AnchorLost, norm_ws
from .rustlex import lex, match_close


class TemplateError(Exception):
    pass


class Unsupported(Exception):
    pass


def _kv(argstr):
    out = {}
    for part in shlex.split(argstr):
        if '=' in part:
            k, v = part.split('=', 1)
            out[k] = v
        else:
            out[part] = True
    return out


def _altsplit(body, a, contract):
    """R22. By the definitions of the two combinators (verified separately as functions):
         from_control_flow(|| { to_control_flow::<_, E>(|| B1)?; ..; to_control_flow(|| Bn)?; ControlFlow::Continue(D) })
       evaluates B1; if it is Ok(t) the result is Ok(t); otherwise B2; ..; otherwise Err(D).
       It is unfolded into
         { match (|VAR: TY| -> (alt: RET) CONTRACT B1)(VAR) { Ok(t_) => return Ok(t_), Err(_e) => {} } .. Err(D) }
       (valid where the idiom is the tail expression of the enclosing function or closure): the
       alternatives take the cursor as a parameter instead of capturing it mutably."""
    m = re.search(r'from_control_flow\s*\(\s*\|\|\s*\{', body)
    if not m:
        return body, 0
    toks = lex(body)
    k_open = next(i for i, t in enumerate(toks) if t[2] == m.end() - 1)          # the `{`
    k_close = match_close(toks, k_open)                                          # its `}`
    # the `)` closing from_control_flow(
    k_par = k_close + 1
    while toks[k_par][0] in ('ws', 'lcomment', 'bcomment'):
        k_par += 1
    if toks[k_par][1] != ')':
        raise AnchorLost('from_control_flow(|| {..}) is not closed by `)`')
    inner = body[toks[k_open][3]:toks[k_close][2]]
    n = 0
    out = ''
    pos = 0
    for mm in re.finditer(r'to_control_flow(?:\s*::\s*<[^<>()]*>)?\s*\(\s*\|\|\s*\{', inner):
        if mm.start() < pos:
            continue
        itoks = lex(inner)
        ko = next(i for i, t in enumerate(itoks) if t[2] == mm.end() - 1)
        kc = match_close(itoks, ko)
        block = inner[itoks[ko][2]:itoks[kc][3]]
        rest = inner[itoks[kc][3]:]
        mt = re.match(r'\s*\)\s*\?\s*;', rest)
        if not mt:
            raise AnchorLost('to_control_flow(|| {..}) is not followed by `)?;`')
        out += inner[pos:mm.start()]
        out += 'match (|%s: %s| -> (alt: %s)\n%s\n%s)(%s) { Ok(t_) => return Ok(t_), Err(_e) => {} }' % (a['var'], a['ty'], a['ret'], contract, block, a['var'])
        pos = itoks[kc][3] + mt.end()
        n += 1
    out += inner[pos:]
    out2, k = re.subn(r'ControlFlow::Continue\(', 'Err(', out)
    if k != 1:
        raise AnchorLost('expected exactly one final ControlFlow::Continue(..) in the idiom, found %d' % k)
    body = body[:m.start()] + '{' + out2 + '}' + body[toks[k_par][3]:]
    return body, n


def _return_arrow(header):
    """match object of the `->` that introduces the fn's return type: the first arrow outside
    all parentheses and angle brackets after the parameter list (arrows of Fn bounds inside the
    generics or the parameter list are skipped)."""
    i = 0
    n = len(header)
    par = ang = 0
    seen_params = False
    while i < n:
        c = header[i]
        if header.startswith('->', i):
            if par == 0 and ang == 0 and seen_params:
                return re.compile(r'->\s*').match(header, i)
            i += 2
            continue
        if c == '(':
            par += 1
        elif c == ')':
            par -= 1
            if par == 0 and ang == 0:
                seen_params = True
        elif c == '<':
            ang += 1
        elif c == '>':
            ang -= 1
        i += 1
    return None


def _find_closures(body):
    """(start, end_of_params, body_offset, expr_end) of each closure `|params| BODY` (also
    `move |params| ..`), in source order; start..end_of_params covers `|params|`; expr_end is
    None for a block body `{..}`, else the end offset of the expression body."""
    toks = lex(body)
    code = [t for t in toks if t[0] not in ('ws', 'lcomment', 'bcomment')]
    res = []
    ci = 0
    while ci < len(code):
        t = code[ci]
        if t[0] == 'punct' and t[1] == '|':
            prev = code[ci - 1] if ci > 0 else None
            starts = prev is None or (prev[0] == 'punct' and prev[1] in '(,={;[') or (prev[0] == 'ident' and prev[1] in ('move', 'return'))
            if starts:
                cj = ci + 1
                while cj < len(code) and not (code[cj][0] == 'punct' and code[cj][1] == '|'):
                    cj += 1
                if cj < len(code):
                    nxt = code[cj + 1] if cj + 1 < len(code) else None
                    if nxt is not None and nxt[0] == 'punct' and nxt[1] == '{':
                        res.append((t[2], code[cj][3], nxt[2], None))
                    elif nxt is not None:
                        # expression-bodied closure: the body runs to the `,` / `)` that ends
                        # the argument it is
                        depth = 0
                        ck = cj + 1
                        endoff = None
                        while ck < len(code):
                            u = code[ck]
                            if u[0] == 'punct':
                                if u[1] in '([{':
                                    depth += 1
                                elif u[1] in ')]}':
                                    if depth == 0:
                                        endoff = u[2]
                                        break
                                    depth -= 1
                                elif u[1] in ',;' and depth == 0:
                                    endoff = u[2]
                                    break
                            ck += 1
                        if endoff is not None:
                            res.append((t[2], code[cj][3], nxt[2], endoff))
                    ci = cj + 1
                    continue
        ci += 1
    return res


def _find_loops(body):
    """offsets of the `{` that opens each loop body, in source order."""
    toks = lex(body)
    code = [i for i, t in enumerate(toks) if t[0] not in ('ws', 'lcomment', 'bcomment')]
    res = []
    for ci, k in enumerate(code):
        t = toks[k]
        if t[0] == 'ident' and t[1] in ('while', 'for', 'loop'):
            if t[1] == 'for' and ci + 1 < len(code) and toks[code[ci + 1]][1] == '<':
                continue
            depth = 0
            cj = ci + 1
            while cj < len(code):
                u = toks[code[cj]]
                if u[0] == 'punct':
                    if u[1] in '([':
                        depth += 1
                    elif u[1] in ')]':
                        depth -= 1
                    elif u[1] == '{' and depth == 0:
                        res.append(u[2])
                        break
                    elif u[1] == ';' and depth == 0:
                        break
                cj += 1
    return res


def _stmt_span(body, prefix, nth):
    pat = re.compile(r'\s*'.join(re.escape(p) for p in prefix.split()))
    hits = [m.start() for m in pat.finditer(body)]
    if len(hits) <= nth:
        raise AnchorLost('statement prefix %r (nth=%d) not found' % (prefix, nth))
    start = hits[nth]
    toks = lex(body)
    depth = 0
    end = None
    for t in toks:
        if t[2] < start or t[0] != 'punct':
            continue
        if t[1] in '([{':
            depth += 1
        elif t[1] in ')]}':
            if depth == 0:
                end = t[2]
                break
            depth -= 1
            if depth == 0 and t[1] == '}':
                # block-like statement (if/match/loop) ends here unless followed by else/;/.
                rest = body[t[3]:].lstrip()
                if rest.startswith('else') or rest.startswith('.') or rest.startswith(';') or rest.startswith('?'):
                    continue
                # only when the statement itself started with a block keyword
                head = body[start:start + 12]
                if re.match(r'(if|match|while|for|loop|unsafe)\b', head):
                    end = t[3]
                    break
        elif t[1] == ';' and depth == 0:
            end = t[3]
            break
    if end is None:
        raise AnchorLost('no end of statement for prefix %r' % prefix)
    return start, end


def count_bare_closures(text):
    """closures `|..| BODY` in `text` that carry no requires/ensures: Verus knows nothing about
    what such a closure returns, so an obligation that depends on it cannot be decided."""
    n = 0
    for (cs, ce, cb, cend) in _find_closures(text):
        hdr = text[ce:cb]
        if text[ce:].lstrip().startswith('->'):
            k = text.find('{', ce)
            hdr = text[ce:k if k >= 0 else len(text)]
        if 'ensures' in hdr or 'requires' in hdr:
            continue
        n += 1
    return n


class Generated:
    def __init__(self):
        self.text = ''
        self.extracted = []      # records of verbatim spans
        self.rewrites = []       # {'fn':..., 'rule':..., 'n':...}
        self.blocks = []         # (line_start, line_end, name, serves)
        self.labels = {}         # line -> label
        self.label_serves = {}   # label -> [props]
        self.canaries = []       # labels expected to fail in canary mode
        self.fn_blocks = set()   # names of blocks that are extracted real functions
        self.dropped = []        # attribute/visibility text dropped
        self.bare_closures = {}  # block name -> number of closures without a contract in the emitted text
        self.block_text = {}     # block name -> emitted text (to see which contract-free stand-ins it calls)


def render(template_text, flags=(), canary=False):
    g = Generated()
    out = []  # list of strings (each may span multiple lines)
    lines = template_text.split('\n')
    i = 0
    cur_line = [1]

    def emit(s, block=None):
        start = cur_line[0]
        out.append(s)
        cur_line[0] += s.count('\n')
        if block:
            g.blocks.append((start, cur_line[0], block[0], block[1]))
            if '__canary_' not in block[0]:
                g.bare_closures[block[0]] = g.bare_closures.get(block[0], 0) + count_bare_closures(s)
                g.block_text[block[0]] = g.block_text.get(block[0], '') + s

    skip_depth = 0
    while i < len(lines):
        ln = lines[i]
        s = ln.strip()
        if s.startswith('//@if '):
            flag = s[6:].strip()
            want = True
            if flag.startswith('!'):
                want = False
                flag = flag[1:]
            on = (flag in flags) or (flag == 'canary' and canary)
            if on != want:
                # skip to matching endif
                depth = 1
                i += 1
                while i < len(lines) and depth > 0:
                    t = lines[i].strip()
                    if t.startswith('//@if '):
                        depth += 1
                    elif t.startswith('//@endif'):
                        depth -= 1
                    i += 1
                continue
            i += 1
            continue
        if s.startswith('//@endif'):
            i += 1
            continue
        if s.startswith('//@ifexpr ') or s.startswith('//@ifnotexpr '):
            # conditional on an expression anchor existing in the current source (lets a
            # unit carry contracts for two shapes of the same code)
            neg = s.startswith('//@ifnotexpr ')
            a_ = _kv(s.split(' ', 1)[1])
            try:
                fn_ = extract.find_fn(a_['rel'], a_['fn'], a_.get('within'), int(a_.get('fnth', 0)))
                extract.find_in_fn(fn_, a_['start'], a_.get('until'), int(a_.get('nth', 0)), a_.get('skip'))
                present = True
            except AnchorLost:
                present = False
            if present == neg:
                depth = 1
                i += 1
                while i < len(lines) and depth > 0:
                    t = lines[i].strip()
                    if t.startswith('//@if'):
                        depth += 1
                    elif t.startswith('//@endif'):
                        depth -= 1
                    i += 1
                continue
            i += 1
            continue
        if s.startswith('//@fn '):
            args = _kv(s[6:])
            i += 1
            sections = []  # (kind, args, [lines])
            fn_canaries = []
            rws = []
            subs = []
            hsubs = []
            cur = None
            while i < len(lines):
                t = lines[i].strip()
                if t.startswith('//@end') and not t.startswith('//@endif'):
                    i += 1
                    break
                if t.startswith('//@if ') or t.startswith('//@endif'):
                    # flags inside fn sections
                    if t.startswith('//@if '):
                        flag = t[6:].strip()
                        want = not flag.startswith('!')
                        flag = flag.lstrip('!')
                        on = (flag in flags) or (flag == 'canary' and canary)
                        if on != want:
                            depth = 1
                            i += 1
                            while i < len(lines) and depth > 0:
                                tt = lines[i].strip()
                                if tt.startswith('//@if '):
                                    depth += 1
                                elif tt.startswith('//@endif'):
                                    depth -= 1
                                i += 1
                            continue
                    i += 1
                    continue
                if t.startswith('//@rw '):
                    rws += t[6:].split()
                elif t.startswith('//@inline '):
                    subs.append(('@inline', _kv(t[len('//@inline '):]), None))
                elif t.startswith('//@sub ') or t.startswith('//@hsub '):
                    isH = t.startswith('//@hsub ')
                    m = re.match(r'//@h?sub\s+"((?:[^"\\]|\\.)*)"\s*=>\s*"((?:[^"\\]|\\.)*)"(?:\s+n=(\d+|\*))?', t)
                    if not m:
                        raise TemplateError('bad sub directive: ' + t)
                    pat = m.group(1).replace('\\"', '"')
                    rep = m.group(2).replace('\\"', '"')
                    cnt_ = None if not m.group(3) else (-1 if m.group(3) == '*' else int(m.group(3)))
                    (hsubs if isH else subs).append((pat, rep, cnt_))
                elif t.startswith('//@contract'):
                    cur = ('contract', {}, [])
                    sections.append(cur)
                elif t.startswith('//@loop '):
                    cur = ('loop', {'n': int(t[8:].split()[0])}, [])
                    sections.append(cur)
                elif t.startswith('//@altsplit '):
                    kv = _kv(t[len('//@altsplit '):])
                    cur = ('altsplit', {'var': kv.get('var', 'tokens'), 'ty': kv['ty'], 'ret': kv['ret']}, [])
                    sections.append(cur)
                elif t.startswith('//@closure '):
                    rest = t[len('//@closure '):]
                    n_, _, kvs = rest.partition(' ')
                    kv = _kv(kvs)
                    cur = ('closure', {'n': int(n_), 'params': kv.get('params', ''), 'ret': kv.get('ret', '')}, [])
                    sections.append(cur)
                elif t.startswith('//@bodystart '):
                    cur = ('bodystart', {'n': int(t[len('//@bodystart '):].split()[0])}, [])
                    sections.append(cur)
                elif t.startswith('//@after ') or t.startswith('//@before '):
                    kind = 'after' if t.startswith('//@after ') else 'before'
                    m = re.match(r'//@\w+\s+"((?:[^"\\]|\\.)*)"(?:\s+nth=(\d+))?(\s+opt)?', t)
                    if not m:
                        raise TemplateError('bad directive: ' + t)
                    cur = (kind, {'prefix': m.group(1).replace('\\"', '"'), 'nth': int(m.group(2) or 0), 'opt': bool(m.group(3))}, [])
                    sections.append(cur)
                elif t.startswith('//@atend'):
                    cur = ('atend', {}, [])
                    sections.append(cur)
                elif t.startswith('//@canary '):
                    rest = t[len('//@canary '):]
                    label, clause = rest.split(None, 1)
                    fn_canaries.append((label, clause))
                else:
                    if cur is None:
                        if t:
                            raise TemplateError('text outside section in //@fn: ' + t)
                    else:
                        cur[2].append(lines[i])
                i += 1
            text = _render_fn(g, args, rws, subs, hsubs, sections)
            serves = args.get('serves', '').split(',') if args.get('serves') else []
            emit(text + '\n', block=(args.get('rename') or args['name'], serves))
            if not args.get('stub'):
                g.fn_blocks.add(args.get('rename') or args['name'])
            # canaries: a renamed copy of the same real body whose only postcondition is
            # a deliberately false clause; it MUST fail (vacuity / observation guard).
            # Callers keep calling the original, so a canary never poisons another proof.
            if canary and args.get('canary', 'auto') != 'off' and not args.get('stub'):
                # automatic vacuity canary: `ensures false` on a copy of the real body
                # (fails unless the precondition is contradictory or the body is not
                # actually being verified); explicit //@canary clauses are added to it
                auto = [('CANARY.%s.false' % (args.get('rename') or args['name']), 'false,')]
                for ci_, (label, clause) in enumerate(auto + fn_canaries):
                    gg = Generated()
                    a2 = dict(args)
                    a2['rename'] = '%s__canary_%d' % (args.get('rename') or args['name'], ci_)
                    secs2 = []
                    for (kind, a_, ls) in sections:
                        if kind != 'contract':
                            secs2.append((kind, a_, ls))
                            continue
                        keep = []
                        mode = 'pre'
                        for l_ in ls:
                            st = l_.strip()
                            if st.startswith('ensures'):
                                mode = 'ens'
                                continue
                            if st.startswith('decreases') or st.startswith('requires'):
                                mode = 'pre'
                            if mode == 'pre':
                                keep.append(l_)
                        keep.append('        ensures')
                        keep.append('        ' + clause + ' //@O ' + label)
                        secs2.append((kind, a_, keep))
                    text2 = _render_fn(gg, a2, rws, subs, hsubs, secs2)
                    emit(text2 + '\n', block=(a2['rename'], []))
                    g.canaries.append(label)
            continue
        if s.startswith('//@item '):
            args = _kv(s[8:])
            it = extract.find_item(args['rel'], args['kind'], args['name'], int(args.get('nth', 0)))
            g.extracted.append(it.record())
            txt, n = rewrite.r12_strip_comments(it.text)
            # strip inner attributes on fields/variants (serde etc.) — logged as R9
            txt2, k = _strip_attrs(txt)
            if k:
                g.rewrites.append({'item': args['name'], 'rule': 'R9(field attributes dropped)', 'n': k})
            txt2 = re.sub(r'\bpub\(crate\)', 'pub', txt2)
            if args['kind'] == 'struct':
                txt2, k = _pub_fields(txt2)
                if k:
                    g.rewrites.append({'item': args['name'], 'rule': 'R9(private fields made pub: visibility only)', 'n': k})
            for key in sorted(k for k in args if k.startswith('sub')):
                pat, rep = args[key].split('=>', 1)
                txt2, k = re.subn(pat.strip(), rep.strip(), txt2)
                if k == 0:
                    raise AnchorLost('item rewrite %r in %s did not match' % (pat, args['name']))
                g.rewrites.append({'item': args['name'], 'rule': 'sub %s => %s' % (pat.strip(), rep.strip()), 'n': k})
            pre = args.get('prefix', '')
            emit((pre + ' ' if pre else '') + txt2 + '\n', block=(args['name'], []))
            i += 1
            continue
        if s.startswith('//@expr '):
            args = _kv(s[8:])
            fn = extract.find_fn(args['rel'], args['fn'], args.get('within'), int(args.get('fnth', 0)))
            ex = extract.find_in_fn(fn, args['start'], args.get('until'), int(args.get('nth', 0)), args.get('skip'))
            g.extracted.append(ex.record())
            txt, _ = rewrite.r12_strip_comments(ex.text)
            for key in sorted(k for k in args if k.startswith('sub')):
                pat, rep = args[key].split('=>', 1)
                txt, k = re.subn(pat.strip(), rep.strip(), txt)
                g.rewrites.append({'expr': ex.name, 'rule': 'sub %s => %s' % (pat.strip(), rep.strip()), 'n': k})
            for r_ in [x for x in args.get('rw', '').split(',') if x]:
                txt, k = rewrite.REWRITES[r_](txt)
                g.rewrites.append({'expr': ex.name, 'rule': r_, 'n': k})
            # closure annotations inside the extracted expression:  closure<k>="PARAMS ;; RET ;; CONTRACT"
            edits = []
            for key in sorted(k for k in args if re.fullmatch(r'closure\d+', k)):
                kth = int(key[len('closure'):])
                parts = [x.strip() for x in args[key].split(';;')]
                if len(parts) != 3:
                    raise TemplateError('bad %s in //@expr: want "PARAMS ;; RET ;; CONTRACT"' % key)
                cls = _find_closures(txt)
                if kth < 1 or kth > len(cls):
                    raise AnchorLost('expr %s has %d closures, wanted closure %d' % (ex.name, len(cls), kth))
                cs, ce, cb, cend = cls[kth - 1]
                edits.append((cs, ce, '|' + parts[0] + '| -> (' + parts[1] + ')'))
                if cend is None:
                    edits.append((cb, cb, ' ' + parts[2] + ' '))
                else:
                    edits.append((cb, cb, ' ' + parts[2] + ' { '))
                    edits.append((cend, cend, ' }'))
            for st_, en_, t_ in sorted(edits, key=lambda x: (-x[0], -x[1])):
                txt = txt[:st_] + t_ + txt[en_:]
            emit(txt + '\n', block=(args.get('block') or ex.name, args.get('serves', '').split(',') if args.get('serves') else []))
            g.fn_blocks.add(args.get('block') or ex.name)
            i += 1
            continue
        if s.startswith('//@canary '):
            rest = s[len('//@canary '):]
            label, clause = rest.split(None, 1)
            if canary:
                emit('        ' + clause + ' //@O ' + label + '\n')
                g.canaries.append(label)
            i += 1
            continue
        emit(ln + '\n')
        i += 1
    g.text = ''.join(out)
    # label map
    for no, l in enumerate(g.text.split('\n'), 1):
        m = re.search(r'//@O\s+(\S+)', l)
        if m:
            g.labels[no] = m.group(1)
    return g


def _strip_attrs(txt):
    """remove `#[...]` attributes token-wise (attribute arguments may contain `]` inside
    string literals, e.g. #[regex("[a-z]+")])"""
    toks = lex(txt)
    out = []
    i = 0
    n = 0
    while i < len(toks):
        t = toks[i]
        if t[0] == 'punct' and t[1] == '#':
            j = i + 1
            while j < len(toks) and toks[j][0] in ('ws', 'lcomment', 'bcomment'):
                j += 1
            if j < len(toks) and toks[j][1] == '[':
                c = match_close(toks, j)
                i = c + 1
                n += 1
                # swallow following whitespace
                while i < len(toks) and toks[i][0] == 'ws':
                    i += 1
                continue
        out.append(t[1])
        i += 1
    return ''.join(out), n


def _pub_fields(txt):
    toks = lex(txt)
    out = []
    depth = 0
    angle = 0
    n = 0
    expect_field = False
    seen_open = False
    for i, t in enumerate(toks):
        if t[0] == 'punct' and t[1] in '({[':
            depth += 1
            out.append(t[1])
            if depth == 1 and t[1] in '({' and not seen_open:
                expect_field = True
                seen_open = True
            continue
        if t[0] == 'punct' and t[1] in ')}]':
            depth -= 1
            out.append(t[1])
            continue
        if seen_open and depth == 1:
            if t[0] == 'punct' and t[1] == '<':
                angle += 1
            elif t[0] == 'punct' and t[1] == '>':
                angle -= 1
            elif t[0] == 'punct' and t[1] == ',' and angle == 0:
                expect_field = True
                out.append(t[1])
                continue
        if expect_field and t[0] not in ('ws', 'lcomment', 'bcomment') and depth == 1:
            if not (t[0] == 'ident' and t[1] == 'pub'):
                out.append('pub ')
                n += 1
            expect_field = False
        out.append(t[1])
    return ''.join(out), n


def _inline_helper(g, body, a):
    """R11: replace `self.<name>(ARGS)` by the helper's one-expression body with its
    parameters substituted token-wise by the argument texts."""
    h = extract.find_fn(a['rel'], a['name'], a.get('within'), int(a.get('nth', 0)))
    g.extracted.append(h.record())
    hb, _ = rewrite.r12_strip_comments(h.body)
    hb = hb.strip()
    assert hb[0] == '{' and hb[-1] == '}'
    expr = hb[1:-1].strip()
    if expr.endswith(';') and expr.count(';') == 1:
        # a single expression statement `E;` (value ()): inlined as the expression E
        expr = expr[:-1].rstrip()
    if ';' in expr:
        raise AnchorLost('helper %s is no longer a single expression' % a['name'])
    hdr, _ = rewrite.r12_strip_comments(h.header)
    htoks = lex(hdr)
    k0 = next(i for i, t in enumerate(htoks) if t[0] == 'punct' and t[1] == '(')
    c0 = match_close(htoks, k0)
    params = []
    toks = lex(hdr[htoks[k0][3]:htoks[c0][2]])
    depth = 0
    cur = []
    parts = []
    for t in toks:
        if t[0] == 'punct' and t[1] in '(<[':
            depth += 1
        elif t[0] == 'punct' and t[1] in ')>]':
            depth -= 1
        if t[0] == 'punct' and t[1] == ',' and depth == 0:
            parts.append(''.join(cur))
            cur = []
        else:
            cur.append(t[1])
    if ''.join(cur).strip():
        parts.append(''.join(cur))
    for p_ in parts:
        p_ = p_.strip()
        if p_ in ('&self', 'self', '&mut self'):
            continue
        params.append(p_.split(':', 1)[0].strip())
    n = 0
    while True:
        recv = a.get('recv', 'self')
        recv_pat = r'\s*\.\s*'.join(re.escape(x) for x in recv.split('.'))
        mm = re.search(r'\b' + recv_pat + r'\s*\.\s*' + re.escape(a['name']) + r'\s*\(', body)
        if not mm:
            break
        btoks = lex(body)
        k = next(i for i, t in enumerate(btoks) if t[2] == mm.end() - 1)
        c = match_close(btoks, k)
        argtext = body[btoks[k][3]:btoks[c][2]]
        # split args at depth-0 commas
        atoks = lex(argtext)
        depth = 0
        cur = []
        argv = []
        for t in atoks:
            if t[0] == 'punct' and t[1] in '([{':
                depth += 1
            elif t[0] == 'punct' and t[1] in ')]}':
                depth -= 1
            if t[0] == 'punct' and t[1] == ',' and depth == 0:
                argv.append(''.join(cur).strip())
                cur = []
            else:
                cur.append(t[1])
        if ''.join(cur).strip():
            argv.append(''.join(cur).strip())
        if len(argv) != len(params):
            raise AnchorLost('helper %s arity changed' % a['name'])
        etoks = lex(expr)
        code_idx = [i for i, t in enumerate(etoks) if t[0] not in ('ws', 'lcomment', 'bcomment')]
        pos_in_code = {i: n_ for n_, i in enumerate(code_idx)}
        pieces = []
        # innermost enclosing delimiter of every token (struct-literal shorthand only inside `{}`)
        innermost = {}
        stack = []
        for i, t in enumerate(etoks):
            if t[0] == 'punct' and t[1] in ')]}' and stack:
                stack.pop()
            innermost[i] = stack[-1] if stack else None
            if t[0] == 'punct' and t[1] in '([{':
                stack.append(t[1])
        for i, t in enumerate(etoks):
            if t[0] == 'ident' and t[1] in params:
                arg = argv[params.index(t[1])]
                # struct-literal field shorthand `S { x, y }`: becomes `x: ARG`
                ci = pos_in_code.get(i)
                prev_t = etoks[code_idx[ci - 1]] if ci is not None and ci > 0 else None
                next_t = etoks[code_idx[ci + 1]] if ci is not None and ci + 1 < len(code_idx) else None
                if (innermost.get(i) == '{' and prev_t is not None and prev_t[0] == 'punct' and prev_t[1] in '{,'
                        and next_t is not None and next_t[0] == 'punct' and next_t[1] in ',}' and arg != t[1]):
                    pieces.append(t[1] + ': ' + arg)
                else:
                    pieces.append(arg)
            elif t[0] == 'ident' and t[1] == 'self':
                pieces.append(recv)
            else:
                pieces.append(t[1])
        new = ''.join(pieces)
        body = body[:mm.start()] + new + body[btoks[c][3]:]
        n += 1
    return body, n


def _render_fn(g, args, rws, subs, hsubs, sections):
    fn = extract.find_fn(args['rel'], args['name'], args.get('within'), int(args.get('nth', 0)))
    g.extracted.append(fn.record())
    if fn.dropped_prefix:
        g.dropped.append({'fn': fn.name, 'dropped': fn.dropped_prefix})
    header, body = fn.header, fn.body
    fname = args.get('rename') or args['name']
    if args.get('stub'):
        # `stub=1`: only the REAL HEADER is taken (so that a changed signature still type-checks at
        # the call sites under contract); the body is not verified here (external_body) and the
        # contract that follows is ASSUMED for it. Parameters the contract does not mention are
        # unconstrained.
        body = '{ unimplemented!() }'
        rws, subs = [], []
        sections = [sec for sec in sections if sec[0] == 'contract']
        args = dict(args, prefix=((args.get('prefix', '') + ' ') if args.get('prefix') else '') + '#[verifier::external_body]')
        g.rewrites.append({'fn': fname, 'rule': 'header only (stub=1): body not verified in this unit, contract assumed', 'n': 1})
    # comments always dropped
    header, _ = rewrite.r12_strip_comments(header)
    body, _ = rewrite.r12_strip_comments(body)
    for r in rws:
        if r not in rewrite.REWRITES:
            raise TemplateError('unknown rewrite ' + r)
        body, n = rewrite.REWRITES[r](body)
        g.rewrites.append({'fn': fname, 'rule': r, 'n': n})
    for (pat, rep, cnt) in subs:
        if pat == '@inline':
            body, n = _inline_helper(g, body, rep)
            g.rewrites.append({'fn': fname, 'rule': 'R11 inline one-expression helper self.%s(..)' % rep['name'], 'n': n})
            if n == 0:
                raise AnchorLost('helper call %s.%s(..) not found in %s' % (rep.get('recv', 'self'), rep['name'], fname))
            continue
        body, n = re.subn(pat, rep, body)
        if cnt is not None and cnt >= 0 and n != cnt:
            raise AnchorLost('ad-hoc rewrite %r in %s matched %d times, expected %d' % (pat, fname, n, cnt))
        if cnt is None and n == 0:
            raise AnchorLost('ad-hoc rewrite %r in %s did not match' % (pat, fname))
        g.rewrites.append({'fn': fname, 'rule': 'sub %s => %s' % (pat, rep), 'n': n})
    for (pat, rep, cnt) in hsubs:
        header, n = re.subn(pat, rep, header)
        if n == 0:
            raise AnchorLost('header rewrite %r in %s did not match' % (pat, fname))
        g.rewrites.append({'fn': fname, 'rule': 'hsub %s => %s' % (pat, rep), 'n': n})
    if args.get('rename'):
        header = re.sub(r'\bfn\s+' + re.escape(args['name']) + r'\b', 'fn ' + args['rename'], header, count=1)
    if args.get('ret'):
        # `-> T [where ..]` => `-> (r: T) [where ..]`
        m = _return_arrow(header)
        if m:
            rest = header[m.end():]
            w = re.search(r'\bwhere\b', rest)
            ty = rest[:w.start()] if w else rest
            tail = rest[w.start():] if w else ''
            header = header[:m.end()] + '(' + args['ret'] + ': ' + ty.strip() + ') ' + tail
        else:
            raise AnchorLost('fn %s has no return type to name' % fname)
    # ---- R22: the `from_control_flow(|| { to_control_flow(|| ALT)?; ..; ControlFlow::Continue(D) })` idiom ----
    for (kind, a, ls) in sections:
        if kind == 'altsplit':
            body, n = _altsplit(body, a, '\n'.join(ls))
            g.rewrites.append({'fn': fname, 'rule': 'R22 try-alternatives idiom unfolded (to_control_flow / from_control_flow by their definitions; each alternative closure takes the cursor as a parameter instead of capturing it)', 'n': n})
            if n == 0:
                raise AnchorLost('no from_control_flow(|| {..}) idiom in %s' % fname)
    # ---- splices into the body (process from the back so offsets stay valid) ----
    inserts = []  # (offset, text)
    replaces = []  # (start, end, text)
    loops = None
    for (kind, a, ls) in sections:
        txt = '\n'.join(ls) + '\n'
        if kind in ('contract', 'altsplit'):
            continue
        if kind == 'loop':
            if loops is None:
                loops = _find_loops(body)
            if a['n'] < 1 or a['n'] > len(loops):
                raise AnchorLost('fn %s has %d loops, wanted loop %d' % (fname, len(loops), a['n']))
            inserts.append((loops[a['n'] - 1], '\n' + txt))
        elif kind == 'closure':
            cls = _find_closures(body)
            if a['n'] < 1 or a['n'] > len(cls):
                raise AnchorLost('fn %s has %d closures, wanted closure %d' % (fname, len(cls), a['n']))
            cs, ce, cb, cend = cls[a['n'] - 1]
            replaces.append((cs, ce, '|' + a['params'] + '| -> (' + a['ret'] + ')'))
            if cend is None:
                inserts.append((cb, '\n' + txt))
            else:
                inserts.append((cb, '\n' + txt + '{ '))
                inserts.append((cend, ' }'))
        elif kind == 'bodystart':
            if loops is None:
                loops = _find_loops(body)
            if a['n'] < 1 or a['n'] > len(loops):
                raise AnchorLost('fn %s has %d loops, wanted loop %d' % (fname, len(loops), a['n']))
            inserts.append((loops[a['n'] - 1] + 1, '\n' + txt))
        elif kind in ('after', 'before'):
            try:
                s, e = _stmt_span(body, a['prefix'], a['nth'])
            except AnchorLost:
                if a.get('opt'):
                    continue   # optional proof hint: the obligation it helps will fail by itself
                raise
            inserts.append((e, '\n' + txt) if kind == 'after' else (s, txt))
        elif kind == 'atend':
            # before the tail expression if the body ends with one, else before the final `}`
            btoks = lex(body)
            depth = 0
            last_semi = None
            for t in btoks:
                if t[0] != 'punct':
                    continue
                if t[1] in '([{':
                    depth += 1
                elif t[1] in ')]}':
                    depth -= 1
                elif t[1] == ';' and depth == 1:
                    last_semi = t[3]
                if t[1] == '}' and depth == 1:
                    # a block statement (loop / if / match) ended at statement level
                    last_semi = t[3]
            end = body.rstrip().rfind('}')
            if last_semi is not None and body[last_semi:end].strip():
                inserts.append((last_semi, '\n' + txt))
            else:
                inserts.append((end, '\n' + txt))
    edits = [(off, off, txt) for off, txt in inserts] + replaces
    for st_, en_, txt in sorted(edits, key=lambda x: (-x[0], -x[1])):
        body = body[:st_] + txt + body[en_:]
    contract = ''
    for (kind, a, ls) in sections:
        if kind == 'contract':
            contract += '\n'.join(ls) + '\n'
    pre = args.get('prefix', '')
    vis = args.get('vis', '')
    head = ((pre + '\n') if pre else '') + ((vis + ' ') if vis else '') + header.rstrip()
    return head + '\n' + contract + body
