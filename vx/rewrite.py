"""The complete list of mechanical rewrites (DESIGN.md §3.2).  Each takes text and
returns (new_text, n_applications).  Everything applied is logged in the evidence."""
import re

from .rustlex import lex, match_close, OPEN, CLOSE


def _call_spans(text, pattern):
    """yield (start_of_match, open_paren_offset, close_paren_offset_exclusive) for each
    occurrence of regex `pattern` immediately followed by `(`, delimiter-matched with
    the lexer (so parentheses inside strings are ignored)."""
    toks = lex(text)
    offs = {t[2]: i for i, t in enumerate(toks)}
    out = []
    for m in re.finditer(pattern, text):
        p = m.end()
        # skip whitespace
        while p < len(text) and text[p].isspace():
            p += 1
        if p >= len(text) or text[p] != '(' or p not in offs:
            continue
        # make sure the match start is not inside a string/comment
        inside = False
        for t in toks:
            if t[2] <= m.start() < t[3]:
                inside = t[0] in ('str', 'rawstr', 'lcomment', 'bcomment', 'char')
                break
        if inside:
            continue
        c = match_close(toks, offs[p])
        out.append((m.start(), p, toks[c][3]))
    return out


def _replace_spans(text, spans_with_repl):
    res = []
    last = 0
    for (s, e, r) in sorted(spans_with_repl):
        if s < last:
            continue
        res.append(text[last:s])
        res.append(r)
        last = e
    res.append(text[last:])
    return ''.join(res)


def r1_tracing(text):
    """R1: drop tracing statements (no effect on values)."""
    n = 0
    reps = []
    for (s, p, e) in _call_spans(text, r'\b(?:tracing::)?(?:event|debug|info|warn|error|trace)!'):
        # statement form only: followed by `;`
        q = e
        while q < len(text) and text[q].isspace():
            q += 1
        if q < len(text) and text[q] == ';':
            reps.append((s, q + 1, ''))
            n += 1
    text = _replace_spans(text, reps)
    # let _guard = xxx_span!(...).entered();
    pat = re.compile(r'let\s+_\w*\s*=\s*(?:tracing::)?\w*span!')
    reps = []
    for (s, p, e) in _call_spans(text, pat.pattern):
        q = text.find(';', e)
        if q >= 0:
            reps.append((s, q + 1, ''))
            n += 1
    text = _replace_spans(text, reps)
    return text, n


def r2_expect(text):
    """R2: `.expect(msg)` -> `.unwrap()`; `panic!(..)` -> `panic!()`;
    `assert!(c, msg..)` keeps only c."""
    n = 0
    reps = []
    for (s, p, e) in _call_spans(text, r'\.\s*expect'):
        reps.append((s, e, '.unwrap()'))
        n += 1
    text = _replace_spans(text, reps)
    reps = []
    for (s, p, e) in _call_spans(text, r'\bpanic!'):
        if text[p + 1:e - 1].strip():
            reps.append((s, e, 'panic!()'))
            n += 1
    text = _replace_spans(text, reps)
    return text, n


def r3_let_chain(text):
    """R3: `if let P = e && c {B}` (no else) -> `if let P = e { if c {B} }`.
    Only the exact shape with one `&&` at depth 0 is handled."""
    toks = lex(text)
    n = 0
    reps = []
    code = [i for i, t in enumerate(toks) if t[0] not in ('ws', 'lcomment', 'bcomment')]
    for ci, k in enumerate(code):
        t = toks[k]
        if t[0] == 'ident' and t[1] == 'if' and ci + 1 < len(code) and toks[code[ci + 1]][1] == 'let':
            # scan to body `{` at depth 0, remember `&&` at depth 0
            depth = 0
            amp = None
            body = None
            cj = ci + 2
            while cj < len(code):
                u = toks[code[cj]]
                if u[0] == 'punct':
                    if u[1] in '([':
                        depth += 1
                    elif u[1] in ')]':
                        depth -= 1
                    elif u[1] == '{' and depth == 0:
                        body = code[cj]
                        break
                    elif u[1] == '&' and depth == 0 and toks[code[cj + 1]][1] == '&' \
                            and toks[code[cj + 1]][2] == u[3] and amp is None:
                        amp = code[cj]
                cj += 1
            if body is None or amp is None:
                continue
            close = match_close(toks, body)
            # no else allowed
            nxt = next((toks[c] for c in code if c > close), None)
            if nxt is not None and nxt[1] == 'else':
                continue
            cond = text[toks[amp][3] + 1:toks[body][2]].strip()
            new = (text[t[2]:toks[amp][2]].rstrip() + ' { if ' + cond + ' ' +
                   text[toks[body][2]:toks[close][3]] + ' }')
            reps.append((t[2], toks[close][3], new))
            n += 1
    return _replace_spans(text, reps), n


def r4_postfix(text):
    """R4: prelude::Postfix sugar."""
    n = 0
    # receiver is found by scanning back over a postfix chain — we only support the
    # statement-final form `EXPR.wrap_ok()` where EXPR is delimited by the enclosing
    # block/let; those are handled case-by-case by the units with @sub.  Here: the simple
    # `.reference()` / `.dereference()` / `.wrap_some()` on an identifier or call chain.
    for name, fmt in (('wrap_ok', 'Ok(%s)'), ('wrap_err', 'Err(%s)'), ('wrap_some', 'Some(%s)'),
                      ('reference', '(&%s)'), ('dereference', '(*%s)'), ('boxed', 'Box::new(%s)'),
                      ('wrap_vec', 'vec![%s]')):
        while True:
            m = re.search(r'\.\s*' + name + r'(?:::<([^<>()]*)>)?\(\)', text)
            if not m:
                break
            recv_start = _receiver_start(text, m.start())
            recv = text[recv_start:m.start()]
            f = fmt
            if m.group(1) is not None:
                # `x.wrap_ok::<E>()` is `Ok::<_, E>(x)`; `x.wrap_err::<T>()` is `Err::<T, _>(x)`
                if name == 'wrap_ok':
                    f = 'Ok::<_, ' + m.group(1) + '>(%s)'
                elif name == 'wrap_err':
                    f = 'Err::<' + m.group(1) + ', _>(%s)'
                else:
                    raise ValueError('turbofish on .%s() not supported' % name)
            text = text[:recv_start] + (f % recv.strip()) + text[m.end():]
            n += 1
    return text, n


def _receiver_start(text, end):
    """start offset of the postfix-expression ending at `end` (exclusive)."""
    toks = lex(text[:end])
    i = len(toks) - 1
    saw_brace_group = False
    while i >= 0:
        t = toks[i]
        if t[0] in ('ws', 'lcomment', 'bcomment'):
            i -= 1
            continue
        if t[0] == 'punct' and t[1] in CLOSE:
            if t[1] == '}':
                saw_brace_group = True
            # find matching open
            depth = 0
            while i >= 0:
                u = toks[i]
                if u[0] == 'punct' and u[1] in CLOSE:
                    depth += 1
                elif u[0] == 'punct' and u[1] in OPEN:
                    depth -= 1
                    if depth == 0:
                        break
                i -= 1
            open_i = i
            i -= 1
            # a call/index continues with the callee; a group that is not preceded by a callee
            # (`()`, `(a, b)`, `[..]` after `}` `;` `{` `=` `,` or at the start) IS the receiver
            j = i
            while j >= 0 and toks[j][0] in ('ws', 'lcomment', 'bcomment'):
                j -= 1
            if j >= 1 and toks[j][0] == 'punct' and toks[j][1] == '!' and toks[j - 1][0] == 'ident':
                # macro invocation `name!(..)` / `name![..]`: the macro name is the callee
                i = j - 1
                continue
            if j < 0 or not (toks[j][0] in ('ident', 'num', 'str', 'char') or (toks[j][0] == 'punct' and toks[j][1] in ')]>?')):
                if open_i >= 0 and toks[open_i][1] in '([':
                    return toks[open_i][2]
            continue
        if t[0] in ('ident', 'num', 'str', 'char'):
            i -= 1
            # skip whitespace
            j = i
            while j >= 0 and toks[j][0] in ('ws', 'lcomment', 'bcomment'):
                j -= 1
            if j >= 0 and toks[j][0] == 'punct' and toks[j][1] == '.':
                i = j - 1
                continue
            if j >= 1 and toks[j][1] == ':' and toks[j - 1][1] == ':':
                i = j - 2
                continue
            if j >= 0 and toks[j][0] == 'punct' and toks[j][1] in '&*!' :
                # unary prefix belongs to the receiver only for `?`-free chains; keep it out
                pass
            if saw_brace_group and j >= 0 and toks[j][0] == 'ident' and toks[j][1] == 'match':
                # `match SCRUTINEE { .. }.method()`: the whole match expression is the receiver
                return toks[j][2]
            return toks[i + 1][2] if i + 1 < len(toks) else 0
        if t[0] == 'punct' and t[1] == '?':
            i -= 1
            continue
        break
    # first non-ws token after i
    j = i + 1
    while j < len(toks) and toks[j][0] in ('ws', 'lcomment', 'bcomment'):
        j += 1
    return toks[j][2] if j < len(toks) else end


def r5_dynbox(text):
    """R5: Box<dyn ..> trait objects -> opaque DynBox."""
    n = 0
    text, k = re.subn(r'\.value\s*\.as_ref\(\)', '.value', text)
    n += k
    text, k = re.subn(r'\bBox::new\(', 'DynBox::new(', text)
    n += k
    return text, n


def r12_strip_comments(text):
    """comments carry no semantics; dropped so that directive markers cannot be forged"""
    toks = lex(text)
    out = []
    n = 0
    for t in toks:
        if t[0] in ('lcomment', 'bcomment'):
            n += 1
            if t[0] == 'lcomment':
                continue
            out.append(' ')
            continue
        out.append(t[1])
    return ''.join(out), n


REWRITES = {
    'R1': r1_tracing,
    'R2': r2_expect,
    'R3': r3_let_chain,
    'R4': r4_postfix,
    'R5': r5_dynbox,
    'R12': r12_strip_comments,
}


def _closure_at(text, open_paren):
    """text[open_paren] == '(' of a call whose only argument is a closure `|PAT| BODY`;
    returns (pattern_text, body_text, close_paren_exclusive) or None"""
    toks = lex(text)
    offs = {t[2]: i for i, t in enumerate(toks)}
    if open_paren not in offs:
        return None
    k = offs[open_paren]
    c = match_close(toks, k)
    inner = text[toks[k][3]:toks[c][2]]
    m = re.match(r'\s*\|', inner)
    if not m:
        return None
    # closure parameter list ends at the next `|` at delimiter depth 0
    depth = 0
    end_pat = None
    for t in lex(inner[m.end():]):
        if t[0] == 'punct' and t[1] in '([{':
            depth += 1
        elif t[0] == 'punct' and t[1] in ')]}':
            depth -= 1
        elif t[0] == 'punct' and t[1] == '|' and depth == 0:
            end_pat = m.end() + t[2]
            break
    if end_pat is None:
        return None
    pat = inner[m.end():end_pat].strip()
    body = inner[end_pat + 1:].strip()
    return pat, body, toks[c][3]


def r6_option_combinators(text):
    """R6: Option combinators with a one-expression closure:
       X.map(|p| E).unwrap_or(D)  ->  match X { Some(p) => E, None => D }
       X.and_then(|p| E)          ->  match X { Some(p) => E, None => None }
       X.is_some_and(|p| E)       ->  (match X { Some(p) => E, None => false })
       X.is_none_or(|p| E)        ->  (match X { Some(p) => E, None => true })"""
    n = 0
    while True:
        m = re.search(r'\.\s*map\s*\(', text)
        done = True
        for m in re.finditer(r'\.\s*map\s*\(', text):
            cl = _closure_at(text, m.end() - 1)
            if not cl:
                continue
            pat, body, end = cl
            m2 = re.match(r'\s*\.\s*unwrap_or\s*\(', text[end:])
            if not m2:
                continue
            toks = lex(text)
            k = next(i for i, t in enumerate(toks) if t[2] == end + m2.end() - 1)
            c = match_close(toks, k)
            default = text[toks[k][3]:toks[c][2]].strip()
            rs = _receiver_start(text, m.start())
            recv = text[rs:m.start()].strip()
            new = 'match %s { Some(%s) => %s, None => %s }' % (recv, pat, body, default)
            text = text[:rs] + new + text[toks[c][3]:]
            n += 1
            done = False
            break
        if done:
            break
    while True:
        done = True
        for m in re.finditer(r'\.\s*and_then\s*\(', text):
            cl = _closure_at(text, m.end() - 1)
            if not cl:
                continue
            pat, body, end = cl
            rs = _receiver_start(text, m.start())
            recv = text[rs:m.start()].strip()
            new = 'match %s { Some(%s) => %s, None => None }' % (recv, pat, body)
            text = text[:rs] + new + text[end:]
            n += 1
            done = False
            break
        if done:
            break
    for (meth, dflt) in (('is_some_and', 'false'), ('is_none_or', 'true')):
        while True:
            done = True
            for m in re.finditer(r'\.\s*' + meth + r'\s*\(', text):
                cl = _closure_at(text, m.end() - 1)
                if not cl:
                    continue
                pat, body, end = cl
                rs = _receiver_start(text, m.start())
                recv = text[rs:m.start()].strip()
                new = '(match %s { Some(%s) => %s, None => %s })' % (recv, pat, body, dflt)
                text = text[:rs] + new + text[end:]
                n += 1
                done = False
                break
            if done:
                break
    return text, n


REWRITES['R6'] = r6_option_combinators


def r10_continue_to_else(text):
    """R10: inside a loop body,  `if C { A; continue; } REST`  ->  `if C { A; } else { REST }`
    (only when `continue;` is the last statement of an if-block without else; the label of a
    labelled continue is dropped when it names the innermost loop — not checked here, the
    result must still type-check)."""
    n = 0
    while True:
        toks = lex(text)
        code = [i for i, t in enumerate(toks) if t[0] not in ('ws', 'lcomment', 'bcomment')]
        hit = None
        for ci, k in enumerate(code):
            t = toks[k]
            if t[0] == 'ident' and t[1] == 'continue':
                # optional label, then `;`, then `}` closing the if-block
                cj = ci + 1
                if toks[code[cj]][0] == 'lifetime':
                    cj += 1
                if toks[code[cj]][1] != ';':
                    continue
                if toks[code[cj + 1]][1] != '}':
                    continue
                hit = (ci, cj)
                break
        if hit is None:
            break
        ci, cj = hit
        close_if = code[cj + 1]
        # enclosing block close: scan forward for the `}` at depth -1 relative to after close_if
        depth = 0
        close_outer = None
        for j in range(close_if + 1, len(toks)):
            u = toks[j]
            if u[0] != 'punct':
                continue
            if u[1] in '([{':
                depth += 1
            elif u[1] in ')]}':
                if depth == 0:
                    close_outer = j
                    break
                depth -= 1
        if close_outer is None:
            break
        # no `else` may follow the if-block
        nxt = next((toks[c] for c in code if c > close_if), None)
        if nxt is not None and nxt[1] == 'else':
            break
        new = (text[:toks[code[ci]][2]] + text[toks[code[cj]][3]:toks[close_if][3]] + ' else {' +
               text[toks[close_if][3]:toks[close_outer][2]] + '}\n' + text[toks[close_outer][2]:])
        text = new
        n += 1
    return text, n


REWRITES['R10'] = r10_continue_to_else


def r6b_map_err_question(text):
    """R6b:  `X.map_err(|e| { E })?`  ->  `match X { Ok(v) => v, Err(e) => return Err((E).into_err()) }`
    simplified for the shape used in apply_file_system_operations, where the function's
    error type IS the closure's result type:  -> `match X { Ok(v__) => v__, Err(e) => return Err(E) }`"""
    n = 0
    while True:
        done = True
        for m in re.finditer(r'\.\s*map_err\s*\(', text):
            cl = _closure_at(text, m.end() - 1)
            if not cl:
                continue
            pat, body, end = cl
            m2 = re.match(r'\s*\?', text[end:])
            if not m2:
                continue
            rs = _receiver_start(text, m.start())
            recv = text[rs:m.start()].strip()
            new = 'match %s { Ok(v__) => v__, Err(%s) => return Err(%s) }' % (recv, pat, body)
            text = text[:rs] + new + text[end + m2.end():]
            n += 1
            done = False
            break
        if done:
            break
    return text, n


REWRITES['R6b'] = r6b_map_err_question


def r14_enumerate(text):
    """R14:  `for (I, X) in E.iter().enumerate() { BODY }`  ->
             `let mut I: usize = 0; for X in E.iter() { BODY I += 1; }`
    (textbook desugaring of enumerate; only when BODY has no `continue`)"""
    n = 0
    while True:
        m = re.search(r'for\s*\(\s*(\w+)\s*,\s*(\w+)\s*\)\s*in\s*([\w\.]+?)\.iter\(\)\.enumerate\(\)\s*\{', text)
        if not m:
            break
        toks = lex(text)
        k = next(i for i, t in enumerate(toks) if t[2] == m.end() - 1)
        c = match_close(toks, k)
        body = text[toks[k][3]:toks[c][2]]
        if re.search(r'\bcontinue\b', body):
            break
        new = ('let mut %s: usize = 0;\n        for %s in %s.iter() {' % (m.group(1), m.group(2), m.group(3)) + body +
               '    %s += 1;\n        }' % m.group(1))
        text = text[:m.start()] + new + text[toks[c][3]:]
        n += 1
    return text, n


REWRITES['R14'] = r14_enumerate

def r15_string_and_to(text):
    """R15: `"lit".to_string()` -> `string_of("lit")` (a String built from a literal; the text
    of diagnostics plays no role), and prelude::Postfix `E.to::<T>()` -> `T::from(E)`."""
    n = 0
    toks = lex(text)
    out = []
    i = 0
    # string literal followed by .to_string()
    pat = re.compile(r'\s*\.\s*to_string\(\)')
    res = ''
    pos = 0
    for t in toks:
        if t[0] == 'str' and t[2] >= pos:
            m = pat.match(text, t[3])
            if m:
                res += text[pos:t[2]] + 'string_of(' + t[1] + ')'
                pos = m.end()
                n += 1
    res += text[pos:]
    text = res
    while True:
        m = re.search(r'\.\s*to::<([^<>()]*(?:<[^<>()]*>)?)>\(\)', text)
        if not m:
            break
        rs = _receiver_start(text, m.start())
        recv = text[rs:m.start()].strip()
        text = text[:rs] + m.group(1) + '::from(' + recv + ')' + text[m.end():]
        n += 1
    return text, n


REWRITES['R15'] = r15_string_and_to

def r16_location_postfix(text):
    """R16: common_lang_types postfix sugar, replaced by the one-line bodies it stands for:
       X.with_span(S)            -> WithSpan::new(X, S)             (WithSpanPostfix)
       X.with_generated_span()   -> WithSpan::new(X, Span::todo_generated())
       X.with_location(L)        -> WithGenericLocation::new(X, L)  (WithLocationPostfix)"""
    n = 0
    for name, fmt in (('with_generated_span', 'WithSpan::new(%s, Span::todo_generated())'),
                      ('with_span', 'WithSpan::new(%s, %s)'),
                      ('with_location', 'WithGenericLocation::new(%s, %s)')):
        while True:
            spans = _call_spans(text, r'\.\s*' + name + r'\b')
            if not spans:
                break
            st, op, cl = spans[0]
            rs = _receiver_start(text, st)
            recv = text[rs:st].strip()
            arg = text[op + 1:cl - 1].strip()
            if arg.endswith(','):
                arg = arg[:-1].rstrip()
            new = (fmt % recv) if name == 'with_generated_span' else (fmt % (recv, arg))
            text = text[:rs] + new + text[cl:]
            n += 1
    return text, n


REWRITES['R16'] = r16_location_postfix

def r17_into(text):
    """R17: `X.into()` -> `From::from(X)` (the blanket impl of Into; vstd specifies From::from)."""
    n = 0
    while True:
        m = re.search(r'\.\s*into\(\)', text)
        if not m:
            break
        rs = _receiver_start(text, m.start())
        recv = text[rs:m.start()].strip()
        text = text[:rs] + 'From::from(' + recv + ')' + text[m.end():]
        n += 1
    return text, n


REWRITES['R17'] = r17_into

def r19_empty_vec(text):
    """R19: `vec![]` -> `Vec::new()` (the empty-vector macro; Verus has no spec for the macro form)."""
    text, n = re.subn(r'\bvec!\[\s*\]', 'Vec::new()', text)
    return text, n


REWRITES['R19'] = r19_empty_vec

def r20_filter_any(text):
    """R20:  `X.iter().filter(|P| F).any(|Q| G)`  ->
         { let mut any_found = false;
           for Q in any_it: X.iter() { if !any_found { let P = &Q; if F { if G { any_found = true; } } } }
           any_found }
    `any` stops at the first element for which G holds; the guard `!any_found` evaluates F and G
    for exactly the same elements in the same order (advancing a slice iterator has no effect)."""
    n = 0
    while True:
        m = re.search(r'\.\s*iter\(\)\s*\.\s*filter\s*\(', text)
        if not m:
            break
        cl1 = _closure_at(text, m.end() - 1)
        if not cl1:
            raise ValueError('R20: filter argument is not a closure')
        pat1, body1, end1 = cl1
        m2 = re.match(r'\s*\.\s*any\s*\(', text[end1:])
        if not m2:
            raise ValueError('R20: .filter(..) not followed by .any(..)')
        cl2 = _closure_at(text, end1 + m2.end() - 1)
        if not cl2:
            raise ValueError('R20: any argument is not a closure')
        pat2, body2, end2 = cl2
        rs = _receiver_start(text, m.start())
        recv = text[rs:m.start()].strip()
        new = ('{ let mut any_found = false;\n for %s in any_it: %s.iter() {\n if !any_found { let %s = &%s; if %s { if %s { any_found = true; } } }\n }\n any_found }'
               % (pat2, recv, pat1, pat2, body1, body2))
        text = text[:rs] + new + text[end2:]
        n += 1
    return text, n


REWRITES['R20'] = r20_filter_any

def r21_or_else(text):
    """R21:  `X.or_else(|| Y)`  ->  `match X { Some(v_) => Some(v_), None => Y }`
    (Option::or_else with a parameterless closure: its definition; lets Y use variables that the
    closure would have captured mutably)."""
    n = 0
    while True:
        m = re.search(r'\.\s*or_else\s*\(', text)
        if not m:
            break
        cl = _closure_at(text, m.end() - 1)
        if not cl or cl[0] != '':
            raise ValueError('R21: or_else argument is not a parameterless closure')
        _, body, end = cl
        rs = _receiver_start(text, m.start())
        recv = text[rs:m.start()].strip()
        text = text[:rs] + 'match %s { Some(v_) => Some(v_), None => %s }' % (recv, body) + text[end:]
        n += 1
    return text, n


REWRITES['R21'] = r21_or_else


def r23_str_contains_literal(text):
    """R23:  `X.contains("lit")`  ->  `str_contains_lit(&(X), "lit")`  (substring test on a
    str / String with a literal pattern; the stand-in has NO contract: any answer is possible)"""
    n = 0
    while True:
        m = re.search(r'\.\s*contains\s*\(\s*("(?:[^"\\]|\\.)*")\s*\)', text)
        if not m:
            break
        rs = _receiver_start(text, m.start())
        recv = text[rs:m.start()].strip()
        text = text[:rs] + 'str_contains_lit(&(%s), %s)' % (recv, m.group(1)) + text[m.end():]
        n += 1
    return text, n


REWRITES['R23'] = r23_str_contains_literal
