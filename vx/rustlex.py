"""Small Rust-aware lexer: enough to find items and match delimiters safely.

Tokens are (kind, text, start, end) with kind in
  ws, lcomment, bcomment, str, rawstr, char, lifetime, ident, num, punct
Byte offsets index into the *str* (python code points) of the source text.
"""
import re

IDENT_START = re.compile(r'[A-Za-z_\u0080-￿]')
IDENT_CONT = re.compile(r'[A-Za-z0-9_\u0080-￿]')


class LexError(Exception):
    pass


def lex(src):
    toks = []
    i = 0
    n = len(src)
    while i < n:
        c = src[i]
        if c.isspace():
            j = i + 1
            while j < n and src[j].isspace():
                j += 1
            toks.append(('ws', src[i:j], i, j))
            i = j
            continue
        if src.startswith('//', i):
            j = src.find('\n', i)
            if j < 0:
                j = n
            toks.append(('lcomment', src[i:j], i, j))
            i = j
            continue
        if src.startswith('/*', i):
            depth = 1
            j = i + 2
            while j < n and depth > 0:
                if src.startswith('/*', j):
                    depth += 1
                    j += 2
                elif src.startswith('*/', j):
                    depth -= 1
                    j += 2
                else:
                    j += 1
            if depth != 0:
                raise LexError('unterminated block comment at %d' % i)
            toks.append(('bcomment', src[i:j], i, j))
            i = j
            continue
        # raw strings / byte strings / raw idents
        m = re.match(r'(b|c)?r(#*)"', src[i:i + 40])
        if m:
            hashes = m.group(2)
            endpat = '"' + hashes
            j = src.find(endpat, i + m.end())
            if j < 0:
                raise LexError('unterminated raw string at %d' % i)
            j += len(endpat)
            toks.append(('rawstr', src[i:j], i, j))
            i = j
            continue
        if c == '"' or (c in 'bc' and i + 1 < n and src[i + 1] == '"'):
            j = i + (1 if c == '"' else 2)
            while j < n:
                if src[j] == '\\':
                    j += 2
                elif src[j] == '"':
                    j += 1
                    break
                else:
                    j += 1
            toks.append(('str', src[i:j], i, j))
            i = j
            continue
        if c == "'" or (c == 'b' and i + 1 < n and src[i + 1] == "'"):
            k = i + (1 if c == "'" else 2)
            # char literal or lifetime
            if k < n and src[k] == '\\':
                j = k + 2
                while j < n and src[j] != "'":
                    j += 1
                j += 1
                toks.append(('char', src[i:j], i, j))
                i = j
                continue
            if k + 1 < n and src[k + 1] == "'":
                j = k + 2
                toks.append(('char', src[i:j], i, j))
                i = j
                continue
            # lifetime
            j = k
            while j < n and IDENT_CONT.match(src[j]):
                j += 1
            toks.append(('lifetime', src[i:j], i, j))
            i = j
            continue
        if IDENT_START.match(c):
            j = i + 1
            while j < n and IDENT_CONT.match(src[j]):
                j += 1
            # raw identifier r#foo
            if src[i:j] == 'r' and j < n and src[j] == '#' and j + 1 < n and IDENT_START.match(src[j + 1]):
                j += 1
                while j < n and IDENT_CONT.match(src[j]):
                    j += 1
            toks.append(('ident', src[i:j], i, j))
            i = j
            continue
        if c.isdigit():
            j = i + 1
            while j < n and (IDENT_CONT.match(src[j]) or (src[j] == '.' and j + 1 < n and src[j + 1].isdigit())):
                j += 1
            toks.append(('num', src[i:j], i, j))
            i = j
            continue
        toks.append(('punct', c, i, i + 1))
        i += 1
    return toks


OPEN = {'(': ')', '[': ']', '{': '}'}
CLOSE = {')': '(', ']': '[', '}': '{'}


def code_tokens(toks):
    """indices of tokens that are not whitespace/comments"""
    return [k for k, t in enumerate(toks) if t[0] not in ('ws', 'lcomment', 'bcomment')]


def match_close(toks, k):
    """toks[k] is an opening delimiter; return index of its matching close."""
    assert toks[k][0] == 'punct' and toks[k][1] in OPEN, toks[k]
    depth = 0
    for j in range(k, len(toks)):
        t = toks[j]
        if t[0] != 'punct':
            continue
        if t[1] in OPEN:
            depth += 1
        elif t[1] in CLOSE:
            depth -= 1
            if depth == 0:
                return j
    raise LexError('unbalanced delimiter at offset %d' % toks[k][2])
