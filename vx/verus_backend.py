"""Run Verus on a generated single-file unit and turn its diagnostics into named
obligations."""
import json
import os
import re
import subprocess
import time

VERUS = os.environ.get('VERUS', 'verus')

UNDECIDED_PATTERNS = (
    'rlimit', 'Resource limit', 'timed out', 'timeout', 'could not be proved: solver',
)
VERIFICATION_MESSAGES = (
    'postcondition not satisfied', 'precondition not satisfied', 'assertion failed',
    'invariant not satisfied', 'possible arithmetic', 'possible division by zero',
    'decreases not satisfied', 'possible bit shift', 'recommendation not met',
    'unreachable', 'loop invariant', 'possible overflow', 'possible underflow',
    'constructed value may fail to meet its declared type invariant',
    'cannot show', 'might not', 'failed', 'unable to prove', 'post-condition', 'pre-condition',
)


class VerusResult:
    def __init__(self):
        self.ran = False
        self.undecided = None       # reason string if the run says nothing
        self.failures = []          # dicts: message, line, lines, label, block, serves, rendered
        self.functions = []         # (name, mode, time_us, success)
        self.verified = 0
        self.errors = 0
        self.smt_ms = 0
        self.total_ms = 0
        self.cmd = ''
        self.wall_s = 0.0
        self.raw_stderr = ''
        self.version = ''
        self.unclassified = None    # error diagnostics of an unknown kind next to verification failures


def run(path, gen, rlimit=30, multiple_errors=30, extra=()):
    r = VerusResult()
    cmd = [VERUS, os.path.basename(path), '--edition', '2024', '--output-json', '--time',
           '--error-format=json', '--multiple-errors', str(multiple_errors), '--rlimit', str(rlimit),
           '--num-threads', '8', '--triggers-mode', 'silent'] + list(extra)
    r.cmd = ' '.join(cmd)
    t0 = time.time()
    try:
        p = subprocess.run(cmd, cwd=os.path.dirname(path), capture_output=True, text=True, timeout=1500)
    except subprocess.TimeoutExpired:
        r.undecided = 'verus timed out (1500 s)'
        return r
    r.wall_s = time.time() - t0
    r.ran = True
    r.raw_stderr = p.stderr
    try:
        # stdout may contain non-json noise before the object
        s = p.stdout
        j = json.loads(s[s.index('{'):])
    except Exception:
        r.undecided = 'verus produced no JSON (exit %s): %s' % (p.returncode, (p.stderr or p.stdout)[-2000:])
        return r
    vr = j.get('verification-results', {})
    r.version = j.get('verus', {}).get('version', '')
    r.verified = vr.get('verified', 0)
    r.errors = vr.get('errors', 0)
    tm = j.get('times-ms', {})
    r.total_ms = tm.get('total', 0)
    smt = tm.get('smt', {})
    r.smt_ms = smt.get('total', 0)
    for mod in smt.get('smt-run-module-times', []):
        for fb in mod.get('function-breakdown', []):
            r.functions.append((fb.get('function'), fb.get('mode:', fb.get('mode')), fb.get('time-micros', 0), fb.get('success')))
    diags = []
    for line in p.stderr.splitlines():
        line = line.strip()
        if not line.startswith('{'):
            continue
        try:
            d = json.loads(line)
        except Exception:
            continue
        if d.get('$message_type') == 'diagnostic':
            diags.append(d)
    hard_errors = []
    for d in diags:
        if d.get('level') not in ('error',):
            continue
        msg = d.get('message', '')
        if msg.startswith('aborting due to') or msg.startswith('could not compile'):
            continue
        spans = d.get('spans', [])
        is_verif = any(m in msg for m in VERIFICATION_MESSAGES)
        # once Verus reports verification results, type checking and VIR construction have
        # succeeded: every remaining error diagnostic is a failed proof obligation, whatever
        # its wording (e.g. "unable to prove post-condition of closure")
        if not is_verif and vr and (vr.get('verified', 0) + vr.get('errors', 0)) > 0 and not vr.get('encountered-vir-error') and not d.get('code'):
            is_verif = True
        if any(u in msg for u in UNDECIDED_PATTERNS):
            r.undecided = 'solver resource limit: ' + msg
            continue
        if not is_verif:
            hard_errors.append(d)
            continue
        prim = [s for s in spans if s.get('is_primary')] or spans
        label = None
        lines_seen = []
        ordered = prim + [s for s in spans if s not in prim]
        # precondition failures: the failed clause is a secondary span with label text
        for s in ordered:
            for ln in range(s['line_start'], s['line_end'] + 1):
                lines_seen.append(ln)
                if ln in gen.labels and label is None:
                    label = gen.labels[ln]
        pline = prim[0]['line_start'] if prim else 0
        block = None
        serves = []
        for (a, b, name, sv) in gen.blocks:
            if a <= pline < b:
                block, serves = name, sv
        snippet = ''
        if prim and prim[0].get('text'):
            snippet = ' '.join(t['text'].strip() for t in prim[0]['text'])[:200]
        r.failures.append({
            'message': msg, 'line': pline, 'label': label, 'block': block, 'serves': serves,
            'snippet': snippet, 'rendered': d.get('rendered', '')[:4000],
        })
    if r.undecided and r.undecided.startswith('solver resource limit'):
        # when the solver gives up, Verus may also print 'not satisfied' diagnostics for the
        # same queries: none of them is a refutation. Undecided, never an alarm.
        r.failures = []
    if hard_errors and not r.failures:
        msgs = '; '.join((d.get('message', '') + ' @' + str((d.get('spans') or [{}])[0].get('line_start'))) for d in hard_errors[:5])
        r.undecided = 'unit does not compile under Verus (unsupported construct / type error): ' + msgs
    elif hard_errors:
        # verification failures next to errors of an unknown kind: never report the run as
        # clean — the unknown ones make it undecided unless the named failures decide it
        msgs = '; '.join((d.get('message', '') + ' @' + str((d.get('spans') or [{}])[0].get('line_start'))) for d in hard_errors[:5])
        r.unclassified = msgs
    if not vr and not r.undecided:
        r.undecided = 'no verification-results in Verus output'
    if vr.get('encountered-vir-error') and not r.failures and not r.undecided:
        r.undecided = 'Verus VIR error'
    if not vr.get('success', False) and not r.failures and not r.undecided:
        r.undecided = 'Verus reported failure without a verification diagnostic: ' + p.stderr[-1500:]
    return r
