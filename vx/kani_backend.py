"""Kani back end.

A Kani unit is a cargo crate:
  mode "inplace"   units/<u>/crate is the crate; it has a path dependency on the REAL
                   /repo crate (hooks give visibility only) — nothing extracted.
  mode "extracted" units/<u>/lib.rs is a template; the real function text is pulled from
                   /repo on every run (vx.template) into .build/kani-src/<u>/src/target.rs.
Harnesses are written against a value source `S: Src` (units/common/src.rs) so that the
same harness body runs under Kani (symbolic) and natively in /verif/replay against the
real crates with the concrete values Kani's counterexample gives.
"""
import hashlib
import json
import os
import re
import shutil
import subprocess
import time

from . import template
from .extract import AnchorLost

KANI_ENV = {'CARGO_NET_OFFLINE': 'true'}


def _scan_trusted(text):
    from .run import scan_trusted
    return scan_trusted(text)


def parse_kani_output(out):
    """returns {harness: {'status','checks','failed','failed_checks':[..],'time'}}"""
    res = {}
    thread_h = {}
    cur = None  # for non -j output
    blocks = {}
    for line in out.splitlines():
        m = re.match(r'(?:Thread (\d+): )?Checking harness ([\w:]+)\.\.\.', line)
        if m:
            th = m.group(1) or '0'
            h = m.group(2).split('::')[-1]
            thread_h[th] = h
            cur = th
            blocks.setdefault(h, [])
            continue
        m = re.match(r'Thread (\d+): ?(.*)', line)
        if m:
            cur = m.group(1)
            if cur in thread_h:
                blocks[thread_h[cur]].append(m.group(2))
            continue
        if cur is not None and cur in thread_h:
            blocks[thread_h[cur]].append(line)
    for h, ls in blocks.items():
        txt = '\n'.join(ls)
        st = None
        if 'VERIFICATION:- SUCCESSFUL' in txt:
            st = 'SUCCESSFUL'
        elif 'VERIFICATION:- FAILED' in txt:
            st = 'FAILED'
        m = re.search(r'\*\* (\d+) of (\d+) failed', txt)
        failed_checks = re.findall(r'Failed Checks: (.*)', txt)
        t = re.search(r'Verification Time: ([\d.]+)s', txt)
        res[h] = {'status': st, 'failed': int(m.group(1)) if m else None, 'checks': int(m.group(2)) if m else None,
                  'failed_checks': failed_checks, 'time': float(t.group(1)) if t else 0.0, 'text': txt[-3000:]}
    return res


def run_unit(u, tier, root, build):
    res = {'unit': u['name'], 'backend': 'kani', 'undecided': None, 'obligations': [], 'failures': [],
           'functions': [], 'trusted': [], 'rewrites': [], 'extracted': [], 'dropped': [], 'cmds': [],
           'solver_s': 0.0, 'wall_s': 0.0, 'canaries': []}
    t0 = time.time()
    env = dict(os.environ)
    env.update(KANI_ENV)
    # extracted std-only crates share one target dir (kani's library is built once)
    env['CARGO_TARGET_DIR'] = os.path.join(build, 'kani', u.get('target_group', u['name']) if u.get('mode') == 'inplace' else '_shared')
    rf = (u.get('rustflags', '') + ' ' + u.get('tier_rustflags', {}).get(tier, '')).strip()
    if rf:
        env['RUSTFLAGS'] = rf
    common = os.path.join(root, 'units', 'common')
    if u.get('mode') == 'inplace':
        crate = os.path.join(u['dir'], 'crate')
        shutil.copy('/repo/Cargo.lock', os.path.join(crate, 'Cargo.lock'))
        src_text = ''
        for dp, _, fs in os.walk(os.path.join(crate, 'src')):
            for f in fs:
                src_text += open(os.path.join(dp, f)).read()
        res['trusted'] = _scan_trusted(src_text)
        res['extracted'] = [{'file': p, 'kind': 'crate (in place, nothing extracted)', 'name': p,
                             'sha256': _hash_tree(os.path.join('/repo', p))} for p in u.get('inplace_sources', [])]
    else:
        crate = os.path.join(build, 'kani-src', u['name'])
        os.makedirs(os.path.join(crate, 'src'), exist_ok=True)
        try:
            tpl = open(os.path.join(u['dir'], u.get('template', 'target.rs'))).read()
            gen = template.render(tpl, flags=[tier] + u.get('flags', []), canary=False)
        except AnchorLost as e:
            res['undecided'] = 'lost anchor: %s' % e
            return res
        except (template.TemplateError, template.Unsupported) as e:
            res['undecided'] = 'template/unsupported: %s' % e
            return res
        _write_if_changed(os.path.join(crate, 'src', 'target.rs'), gen.text)
        for f in ('harness.rs',):
            _write_if_changed(os.path.join(crate, 'src', f), open(os.path.join(u['dir'], f)).read())
        _write_if_changed(os.path.join(crate, 'src', 'src_kani.rs'), open(os.path.join(common, 'src_kani.rs')).read())
        _write_if_changed(os.path.join(crate, 'src', 'lib.rs'), open(os.path.join(common, 'lib_extracted.rs')).read())
        _write_if_changed(os.path.join(crate, 'Cargo.toml'), open(os.path.join(common, 'Cargo_extracted.toml')).read().replace('@NAME@', 'vx_' + u['name']))
        res['extracted'] = gen.extracted
        res['rewrites'] = gen.rewrites
        res['dropped'] = gen.dropped
        res['generated'] = os.path.join(crate, 'src', 'target.rs')
        res['generated_sha256'] = hashlib.sha256(gen.text.encode()).hexdigest()
        res['trusted'] = _scan_trusted(gen.text + open(os.path.join(u['dir'], 'harness.rs')).read())
    hs = [h for h in u['harnesses'] if tier in h.get('tiers', ['quick', 'thorough'])]
    # (TTL 20 min: it only lets two properties served by the same unit, e.g. C22/C23, share
    # one solver run when their checks are invoked back to back; evidence says so)
    # result cache keyed by the exact verifier input (generated text / real crate sources,
    # harnesses, flags, tool): identical input => identical verdict, so only the solver
    # run is skipped; extraction from /repo's working tree still happens on every run.
    key_src = json.dumps([u['name'], tier, rf, u['harnesses'], u.get('kani_args', []),
                          res.get('generated_sha256'), [e.get('sha256') for e in res['extracted']],
                          _hash_tree(os.path.join(u['dir'], 'harness.rs')) if os.path.exists(os.path.join(u['dir'], 'harness.rs')) else '',
                          _hash_tree(os.path.join(common, 'src_kani.rs'))], sort_keys=True)
    ckey = hashlib.sha256(key_src.encode()).hexdigest()
    cpath = os.path.join(build, 'cache', 'kani-' + ckey + '.json')
    if os.environ.get('VERIF_NO_CACHE') != '1' and os.path.exists(cpath):
        try:
            c = json.load(open(cpath))
            if time.time() - c['at'] < int(os.environ.get('VERIF_CACHE_TTL', '1200')) and not c['res']['failures'] and not c['res']['undecided']:
                c['res']['cached_result'] = {'key': ckey, 'age_s': int(time.time() - c['at'])}
                c['res']['wall_s'] = time.time() - t0
                return c['res']
        except Exception:
            pass
    if not hs:
        res['undecided'] = 'no harness for tier ' + tier
        return res
    cmd = ['cargo', 'kani', '-Z', 'stubbing', '-Z', 'function-contracts', '-j', str(u.get('jobs', 8)), '--output-format', 'terse']
    cmd += u.get('kani_args', [])
    for h in hs:
        cmd += ['--harness', h['name']]
    res['cmds'] = [' '.join(cmd) + '   (cwd=%s, RUSTFLAGS=%r)' % (crate, rf)]
    rc, so, se = _run_group(cmd, crate, env, u.get('timeout', 1800))
    if rc is None:
        res['undecided'] = 'cargo kani timed out after %d s (solver budget exceeded: undecided, not a violation)' % u.get('timeout', 1800)
        res['wall_s'] = time.time() - t0
        return res
    out = so + '\n' + se
    parsed = parse_kani_output(out)
    if not parsed:
        res['undecided'] = 'cargo kani produced no harness results (build error?): ' + out[-2500:]
        res['wall_s'] = time.time() - t0
        return res
    for h in hs:
        r = parsed.get(h['name'])
        label = h.get('obligation', '%s::%s' % (u['name'], h['name']))
        if r is None or r['status'] is None:
            res['undecided'] = (res['undecided'] or '') + ' harness %s gave no verdict (crash/timeout/OOM);' % h['name']
            continue
        res['solver_s'] += r['time']
        if h.get('canary'):
            ok = r['status'] == 'FAILED'
            res['canaries'].append({'name': h['name'], 'failed_as_required': ok})
            if not ok:
                res['undecided'] = (res['undecided'] or '') + ' canary %s did not fail;' % h['name']
            continue
        from .run import label_props
        props = label_props(label) or u.get('serves', [])
        o = {'name': label, 'props': props, 'backend': 'kani/cbmc', 'harness': h['name'],
             'status': 'discharged' if r['status'] == 'SUCCESSFUL' else 'failed',
             'cbmc_checks': r['checks'], 'solver_s': r['time']}
        if h.get('bounded'):
            o['bounded'] = h['bounded']
        else:
            o['complete'] = h.get('complete', 'loop-free over the full input domain')
        res['obligations'].append(o)
        if r['status'] == 'FAILED' and r['failed_checks'] and all('unwinding assertion' in c for c in r['failed_checks']):
            # the only failed check is the unwinding assertion: the stated bound was too small
            # for this code, nothing was refuted
            o['status'] = 'undecided'
            res['undecided'] = (res['undecided'] or '') + ' harness %s: unwinding bound exceeded (no verdict);' % h['name']
            continue
        if r['status'] == 'FAILED':
            f = {'obligation': label, 'props': props, 'message': '; '.join(r['failed_checks'])[:500] or 'verification failed',
                 'rendered': r['text'], 'label': label, 'block': h['name'], 'serves': props, 'harness': h['name']}
            _concrete_playback(u, h, crate, env, f, root, build)
            res['failures'].append(f)
    res['wall_s'] = time.time() - t0
    if not res['failures'] and not res['undecided']:
        os.makedirs(os.path.dirname(cpath), exist_ok=True)
        json.dump({'at': time.time(), 'res': res}, open(cpath, 'w'))
    return res


def _run_group(cmd, cwd, env, timeout):
    """run in its own process group so that a timeout also kills cbmc children"""
    import signal
    p = subprocess.Popen(cmd, cwd=cwd, env=env, stdout=subprocess.PIPE, stderr=subprocess.PIPE, text=True, start_new_session=True)
    try:
        so, se = p.communicate(timeout=timeout)
        return p.returncode, so, se
    except subprocess.TimeoutExpired:
        try:
            os.killpg(p.pid, signal.SIGKILL)
        except Exception:
            pass
        try:
            p.communicate(timeout=10)
        except Exception:
            pass
        return None, '', ''


def _write_if_changed(path, text):
    if os.path.exists(path) and open(path).read() == text:
        return
    with open(path, 'w') as f:
        f.write(text)


def _hash_tree(path):
    h = hashlib.sha256()
    if os.path.isfile(path):
        h.update(open(path, 'rb').read())
        return h.hexdigest()
    for dp, ds, fs in sorted(os.walk(path)):
        ds.sort()
        for f in sorted(fs):
            if f.endswith('.rs') or f.endswith('.toml'):
                h.update(f.encode())
                h.update(open(os.path.join(dp, f), 'rb').read())
    return h.hexdigest()


def _concrete_playback(u, h, crate, env, f, root, build):
    """ask Kani for concrete values for the failing harness, then run the same harness body
    natively against the real code in /verif/replay."""
    cmd = ['cargo', 'kani', '-Z', 'stubbing', '-Z', 'function-contracts', '-Z', 'concrete-playback',
           '--concrete-playback=print', '--harness', h['name']] + u.get('kani_args', [])
    rc, so, se = _run_group(cmd, crate, env, min(u.get('timeout', 1800), 900))
    if rc is None:
        return
    out = so + se
    vals = None
    # one test per failing check AND per satisfied cover: take a failing check's test
    for blk in re.split(r'Concrete playback unit test for', out)[1:]:
        kind = re.search(r'/// Check for `(\w+)`', blk)
        if kind and kind.group(1) == 'cover':
            continue
        m = re.search(r'let concrete_vals: Vec<Vec<u8>> = vec!\[(.*?)\n\s*\];', blk, re.S)
        if not m:
            continue
        vals = []
        for vm in re.finditer(r'vec!\[([\d,\s]*)\]', m.group(1)):
            vals.append([int(x) for x in vm.group(1).replace(' ', '').split(',') if x != ''])
        break
    if vals is None:
        return
    f['concrete_input'] = {'harness': h['name'], 'kani_concrete_vals': vals}
    # native replay on the real code
    from . import replay
    rr = replay.native_replay(u, h, vals, root, build)
    f['replay_result'] = rr
    if rr is not None and rr.get('reproduced') is False and rr.get('ran'):
        # a failed CBMC memory-safety check (invalid/out-of-bounds pointer, bad dealloc, leak)
        # is undefined behaviour that a native run need not turn into a panic: such a
        # failure stands without native reproduction (only for in-place units, where CBMC ran
        # the real code and nothing was over-approximated)
        memsafe = re.search(r'dereference failure|pointer|same allocation|dealloc|memory leak|uninitialized', f.get('message', ''))
        if not (memsafe and u.get('mode') == 'inplace' and not u.get('overapprox_stubs')):
            f['spurious'] = True
        else:
            f['replay_note'] = 'memory-safety check of CBMC on the real code; native runs do not necessarily panic on undefined behaviour'
