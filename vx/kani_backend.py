def run_unit(u, tier, root, build):
    raise SystemExit('kani backend not built yet')
