"""Record, per Verus unit, how many closures WITHOUT a contract (and which contract-free
stand-ins listed in unit.json `contract_free`) each function under contract contains / calls on the tree the contracts were written for (units/<u>/closures.json). The runner uses
it this way: when an obligation fails inside a function that now holds MORE contract-less
closures than recorded, the failure may be nothing but the missing closure contract ("needs
contract", not "bug"): the unit is reported undecided and the bounded replay decides.
Run after editing a unit: python3 -m vx.closure_baseline"""
import json
import os
import sys
from . import template

ROOT = os.path.dirname(os.path.dirname(os.path.abspath(__file__)))


def contract_free_calls(g, cfg):
    """per emitted block: which of the unit's contract-free stand-ins (unit.json `contract_free`:
    functions whose result Verus knows nothing about) the block calls"""
    import re
    names = cfg.get('contract_free', [])
    out = {}
    for blk, text in g.block_text.items():
        out[blk] = [n for n in names if re.search(r'\b' + re.escape(n) + r'\s*(::<[^>]*>)?\s*\(', text)]
    return out


def main():
    for u in sorted(os.listdir(os.path.join(ROOT, 'units'))):
        d = os.path.join(ROOT, 'units', u)
        uj = os.path.join(d, 'unit.json')
        if not os.path.exists(uj):
            continue
        cfg = json.load(open(uj))
        if cfg.get('backend') != 'verus':
            continue
        tpl = open(os.path.join(d, cfg.get('template', 'unit.rs'))).read()
        tot = {}
        calls = {}
        for tier in ('quick', 'thorough'):
            g = template.render(tpl, flags=[tier] + cfg.get('flags', []), canary=True)
            for k, v in g.bare_closures.items():
                if v:
                    tot[k] = max(tot.get(k, 0), v)
            for k, names in contract_free_calls(g, cfg).items():
                if names:
                    calls[k] = sorted(set(calls.get(k, [])) | set(names))
        json.dump({'bare_closures': tot, 'contract_free_calls': calls}, open(os.path.join(d, 'closures.json'), 'w'), indent=1, sort_keys=True)
        print(u, tot, calls)


if __name__ == '__main__':
    main()
