"""Record, per Verus unit, how many closures WITHOUT a contract each function under contract
contains on the tree the contracts were written for (units/<u>/closures.json). The runner uses
it this way: when an obligation fails inside a function that now holds MORE contract-less
closures than recorded, the failure may be nothing but the missing closure contract ("needs
contract", not "bug"): the unit is reported undecided and the bounded replay decides.
Run after editing a unit: python3 -m vx.closure_baseline"""
import json
import os
import sys
from . import template

ROOT = os.path.dirname(os.path.dirname(os.path.abspath(__file__)))


def main():
    for u in sorted(os.listdir(os.path.join(ROOT, 'units'))):
        d = os.path.join(ROOT, 'units', u)
        uj = os.path.join(d, 'unit.json')
        if not os.path.exists(uj):
            continue
        cfg = json.load(open(uj))
        if cfg.get('backend') != 'verus':
            continue
        tpl = open(os.path.join(d, cfg.get('template', 'unit.rs'))).read()
        tot = {}
        for tier in ('quick', 'thorough'):
            g = template.render(tpl, flags=[tier] + cfg.get('flags', []), canary=True)
            for k, v in g.bare_closures.items():
                if v:
                    tot[k] = max(tot.get(k, 0), v)
        json.dump(tot, open(os.path.join(d, 'closures.json'), 'w'), indent=1, sort_keys=True)
        print(u, tot)


if __name__ == '__main__':
    main()
