"""Regenerates MANIFEST.json from vx/props.json (claimed) and vx/not_applicable.json."""
import json, os
ROOT = os.path.dirname(os.path.dirname(os.path.abspath(__file__)))
props = json.load(open(os.path.join(ROOT, 'vx', 'props.json')))
na = json.load(open(os.path.join(ROOT, 'vx', 'not_applicable.json')))
all_ids = [json.loads(l)['id'] for l in open(os.path.join(ROOT, 'properties.jsonl'))]
checks = []
for pid in all_ids:
    if pid not in props:
        continue
    P = props[pid]
    checks.append({
        'property_id': pid,
        'quick_cmd': './check %s --tier quick' % pid,
        'thorough_cmd': './check %s --tier thorough' % pid,
        'evidence_file': '/verif/evidence/%s.json' % pid,
        'replay_cmd_template': './check %s --replay {path}' % pid,
        'engine': 'vx',
        'level_claimed': {'category': P.get('level', 'proof'), 'text': P['level_text'], 'design_ref': 'DESIGN.md §5 ' + pid},
        'level_note': P['level_note'],
        'technique': P['technique'],
    })
missing = [p for p in all_ids if p not in props and p not in na]
assert not missing, missing
m = {
    'version': 1,
    'setup_cmd': './setup.sh',
    'hooks': {
        'guard': 'isographlabs_isograph_verif',
        'enable': 'RUSTFLAGS="--cfg isographlabs_isograph_verif" (set by the runner for the in-place Kani units and the replay crate)',
        'baseline_off_cmd': 'cd /repo && cargo test --workspace --no-fail-fast --offline',
        'source_commits': json.load(open(os.path.join(ROOT, 'vx', 'hook_commits.json'))),
        'add_only': True,
    },
    'engines': [{'name': 'vx', 'path': '/verif/vx', 'serves_properties': [c['property_id'] for c in checks],
                 'kind_free_text': 'contract-based deductive verification: real function text extracted from /repo on every run, contracts spliced in, discharged by Verus (unbounded) or Kani/CBMC (function contracts; full-domain loop-free harnesses = complete, unwind-bounded harnesses labelled bounded)'}],
    'checks': checks,
    'not_applicable': [{'property_id': p, 'reason': na[p]} for p in all_ids if p in na and p not in props],
    'notes': 'exit 0 = all obligations discharged (KNOWN-FINDING lines for known_findings.txt entries); exit 1 + VIOLATION = a named obligation failed; exit 2 = undecided (lost anchor / unsupported construct / solver limit), never an alarm. See DESIGN.md.',
}
json.dump(m, open(os.path.join(ROOT, 'MANIFEST.json'), 'w'), indent=1)
print('MANIFEST.json: %d checks, %d not applicable' % (len(checks), len(m['not_applicable'])))
