"""Build (codegen only) every Kani unit crate and the replay crate; no verification."""
import json, os, shutil, subprocess, sys
from . import run, template, kani_backend
ROOT = run.ROOT; BUILD = run.BUILD
units = [d for d in sorted(os.listdir(os.path.join(ROOT, 'units'))) if os.path.exists(os.path.join(ROOT, 'units', d, 'unit.json'))]
claimed = set(u for p in run.load_props().values() for u in p['units'])
ok = True
for name in units:
    if name not in claimed:
        continue
    u = run.load_unit(name)
    if u['backend'] != 'kani':
        continue
    env = dict(os.environ); env.update(kani_backend.KANI_ENV)
    env['CARGO_TARGET_DIR'] = os.path.join(BUILD, 'kani', u.get('target_group', u['name']) if u.get('mode') == 'inplace' else '_shared')
    rf = u.get('rustflags', '')
    if rf: env['RUSTFLAGS'] = rf
    if u.get('mode') == 'inplace':
        crate = os.path.join(u['dir'], 'crate')
        shutil.copy('/repo/Cargo.lock', os.path.join(crate, 'Cargo.lock'))
    else:
        crate = os.path.join(BUILD, 'kani-src', name)
        os.makedirs(os.path.join(crate, 'src'), exist_ok=True)
        common = os.path.join(ROOT, 'units', 'common')
        gen = template.render(open(os.path.join(u['dir'], u.get('template', 'target.rs'))).read(), flags=['quick'])
        open(os.path.join(crate, 'src', 'target.rs'), 'w').write(gen.text)
        shutil.copy(os.path.join(u['dir'], 'harness.rs'), os.path.join(crate, 'src', 'harness.rs'))
        shutil.copy(os.path.join(common, 'src_kani.rs'), os.path.join(crate, 'src', 'src_kani.rs'))
        shutil.copy(os.path.join(common, 'lib_extracted.rs'), os.path.join(crate, 'src', 'lib.rs'))
        open(os.path.join(crate, 'Cargo.toml'), 'w').write(open(os.path.join(common, 'Cargo_extracted.toml')).read().replace('@NAME@', 'vx_' + name))
    p = subprocess.run(['cargo', 'kani', '-Z', 'stubbing', '-Z', 'function-contracts', '--only-codegen'], cwd=crate, env=env, capture_output=True, text=True)
    print('prebuild', name, 'ok' if p.returncode == 0 else 'FAILED: ' + (p.stderr or p.stdout)[-300:])
    ok = ok and p.returncode == 0
env = dict(os.environ); env['CARGO_NET_OFFLINE'] = 'true'; env['CARGO_TARGET_DIR'] = os.path.join(BUILD, 'replay-target'); env['RUSTFLAGS'] = '--cfg isographlabs_isograph_verif'
shutil.copy('/repo/Cargo.lock', os.path.join(ROOT, 'replay', 'Cargo.lock'))
p = subprocess.run(['cargo', 'build', '--offline'], cwd=os.path.join(ROOT, 'replay'), env=env, capture_output=True, text=True)
print('prebuild replay crate', 'ok' if p.returncode == 0 else 'FAILED: ' + p.stderr[-300:])
sys.exit(0 if ok and p.returncode == 0 else 1)
