"""Replay files: what failed, the verifier's output, and (where the back end gives a
counterexample) the concrete input re-run against the real code."""
import json
import os
import re
import time


def write_replay(prop, unit_res, failure, root, build, replay_dir):
    name = re.sub(r'[^A-Za-z0-9_.+-]', '_', failure['obligation'])[:120]
    path = os.path.join(replay_dir, '%s-%s.json' % (prop, name))
    found = bool(failure.get('concrete_input'))
    doc = {
        'property': prop,
        'unit': unit_res['unit'],
        'backend': unit_res['backend'],
        'failed_obligation': failure['obligation'],
        'verifier_message': failure['message'],
        'verifier_output': failure.get('rendered', ''),
        'generated_unit_file': unit_res.get('generated'),
        'concrete_input': failure.get('concrete_input'),
        'replay_on_real_code': failure.get('replay_result'),
        'no_failing_input_found': not found,
        'written_at': time.strftime('%Y-%m-%dT%H:%M:%SZ', time.gmtime()),
    }
    with open(path, 'w') as f:
        json.dump(doc, f, indent=1)
    return path, found


def run_replay(prop, path, root, build):
    doc = json.load(open(path))
    print(json.dumps(doc, indent=1)[:6000])
    return 0
