"""Replay files: what failed, the verifier's output, and (where the back end gives a
counterexample) the concrete input re-run against the real code."""
import json
import os
import re
import time


def write_replay(prop, unit_res, failure, root, build, replay_dir):
    name = re.sub(r'[^A-Za-z0-9_.+-]', '_', failure['obligation'])[:120]
    path = os.path.join(replay_dir, '%s-%s.json' % (prop, name))
    if not failure.get('concrete_input') and unit_res.get('witnesses'):
        witness_search(unit_res, failure, root, build)
    found = bool(failure.get('concrete_input'))
    doc = {
        'property': prop,
        'unit': unit_res['unit'],
        'backend': unit_res['backend'],
        'failed_obligation': failure['obligation'],
        'verifier_message': failure['message'],
        'verifier_output': failure.get('rendered', ''),
        'generated_unit_file': unit_res.get('generated'),
        'concrete_input': failure.get('concrete_input'),
        'replay_on_real_code': failure.get('replay_result'),
        'no_failing_input_found': not found,
        'written_at': time.strftime('%Y-%m-%dT%H:%M:%SZ', time.gmtime()),
    }
    with open(path, 'w') as f:
        json.dump(doc, f, indent=1)
    return path, found


def run_replay(prop, path, root, build):
    """print the replay file, then re-run its concrete input (a witness / exploration program of
    /verif/replay, or the native replay of a Kani counterexample) against /repo's CURRENT tree:
    exit 1 + VIOLATION line if it still fails, exit 0 if it does not (or if the file carries no
    input: no-failing-input-found)."""
    import shutil
    import subprocess
    doc = json.load(open(path))
    print(json.dumps(doc, indent=1)[:6000])
    ci = doc.get('concrete_input') or {}
    rr = doc.get('replay_on_real_code') or {}
    crate = os.path.join(root, 'replay')
    env = dict(os.environ)
    env['CARGO_NET_OFFLINE'] = 'true'
    env['CARGO_TARGET_DIR'] = os.path.join(build, 'replay-target')
    env['RUSTFLAGS'] = '--cfg isographlabs_isograph_verif'
    env['RUST_BACKTRACE'] = '0'
    cmd = None
    if ci.get('witness_program'):
        binname = os.path.basename(ci['witness_program'])[:-3]
        cmd = (binname, [str(a) for a in ci.get('args', [])])
    elif rr.get('cmd'):
        parts = rr['cmd'].split()
        cmd = (os.path.basename(parts[0]), parts[1:])
    if not cmd:
        print('replay: this file carries no concrete input (no-failing-input-found); nothing to re-run')
        return 0
    shutil.copy('/repo/Cargo.lock', os.path.join(crate, 'Cargo.lock'))
    b = subprocess.run(['cargo', 'build', '--offline', '--bin', cmd[0]], cwd=crate, env=env, capture_output=True, text=True)
    if b.returncode != 0:
        print('replay: the replay crate does not build against the current tree: ' + b.stderr[-800:])
        return 2
    os.makedirs(os.path.join(build, 'replay-work'), exist_ok=True)
    try:
        p = subprocess.run([os.path.join(env['CARGO_TARGET_DIR'], 'debug', cmd[0])] + cmd[1], capture_output=True, text=True, timeout=1800,
                           env=env, cwd=os.path.join(build, 'replay-work'))
    except subprocess.TimeoutExpired:
        print('replay: timed out')
        return 2
    print((p.stdout or '')[-2000:])
    if p.returncode in (1, 101):
        print('VIOLATION property=%s replay=%s' % (prop, path))
        print('replay: REPRODUCED on the current tree (%s %s -> exit %d)' % (cmd[0], ' '.join(cmd[1]), p.returncode))
        return 1
    if p.returncode == 0:
        print('replay: not reproduced on the current tree (%s %s -> exit 0)' % (cmd[0], ' '.join(cmd[1])))
        return 0
    print('replay: the program exited %d' % p.returncode)
    return 2


def native_replay(u, h, vals, root, build):
    """run the same harness body natively against the real /repo crates with the concrete
    values of Kani's counterexample.  reproduced = the harness assertion panics."""
    import shutil
    import subprocess
    crate = os.path.join(root, 'replay')
    env = dict(os.environ)
    env['CARGO_NET_OFFLINE'] = 'true'
    env['CARGO_TARGET_DIR'] = os.path.join(build, 'replay-target')
    env['RUSTFLAGS'] = '--cfg isographlabs_isograph_verif'
    shutil.copy('/repo/Cargo.lock', os.path.join(crate, 'Cargo.lock'))
    b = subprocess.run(['cargo', 'build', '--offline', '--bin', 'kani_replay'], cwd=crate, env=env, capture_output=True, text=True)
    if b.returncode != 0:
        return {'ran': False, 'error': 'replay crate does not build: ' + b.stderr[-1500:]}
    hexvals = [''.join('%02x' % x for x in v) or '-' for v in vals]
    exe = os.path.join(env['CARGO_TARGET_DIR'], 'debug', 'kani_replay')
    try:
        p = subprocess.run([exe, u['name'], h['name']] + hexvals, capture_output=True, text=True, timeout=120)
    except subprocess.TimeoutExpired:
        return {'ran': True, 'reproduced': False, 'error': 'native replay timed out'}
    if p.returncode not in (0, 101):
        return {'ran': False, 'exit': p.returncode, 'error': 'replay binary could not run this harness: ' + (p.stderr or p.stdout)[-500:]}
    return {'ran': True, 'reproduced': p.returncode == 101, 'exit': p.returncode,
            'cmd': ' '.join([exe, u['name'], h['name']] + hexvals), 'stdout': p.stdout[-1500:], 'stderr': p.stderr[-1500:]}


def witness_search(unit_res, failure, root, build):
    """Verus gives no counterexample: run the unit's registered concrete witness programs
    (real /repo crates, /verif/replay) whose pattern matches the failed obligation; a
    program that exits 1 is a failing input for the real code."""
    import shutil
    import subprocess
    cands = [w for w in unit_res['witnesses'] if re.search(w['match'], failure['obligation'])]
    if not cands:
        return
    crate = os.path.join(root, 'replay')
    env = dict(os.environ)
    env['CARGO_NET_OFFLINE'] = 'true'
    env['CARGO_TARGET_DIR'] = os.path.join(build, 'replay-target')
    env['RUSTFLAGS'] = '--cfg isographlabs_isograph_verif'
    env['RUST_BACKTRACE'] = '0'
    shutil.copy('/repo/Cargo.lock', os.path.join(crate, 'Cargo.lock'))
    tried = []
    for w in cands:
        b = subprocess.run(['cargo', 'build', '--offline', '--bin', w['cmd'][0]], cwd=crate, env=env, capture_output=True, text=True)
        if b.returncode != 0:
            tried.append({'cmd': w['cmd'], 'error': 'does not build: ' + b.stderr[-800:]})
            continue
        exe = os.path.join(env['CARGO_TARGET_DIR'], 'debug', w['cmd'][0])
        os.makedirs(os.path.join(build, 'replay-work'), exist_ok=True)
        try:
            p = subprocess.run([exe] + w['cmd'][1:], capture_output=True, text=True, timeout=300, env=env, cwd=os.path.join(build, 'replay-work'))
        except subprocess.TimeoutExpired:
            tried.append({'cmd': w['cmd'], 'error': 'timeout'})
            continue
        tried.append({'cmd': w['cmd'], 'exit': p.returncode, 'stdout': p.stdout[-1200:]})
        if p.returncode == 1:
            failure['concrete_input'] = {'witness_program': '/verif/replay/src/bin/%s.rs' % w['cmd'][0], 'args': w['cmd'][1:]}
            failure['replay_result'] = {'ran': True, 'reproduced': True, 'exit': 1, 'stdout': p.stdout[-1500:]}
            break
    failure['witness_search'] = tried

def run_explorations(unit_res, explorations, root, build):
    """thorough tier: bounded exhaustive replays on the REAL code (witness-search programs run
    proactively). Each is a bounded stand-in, never counted as proved: exit 0 = held on
    everything explored, exit 1 = a failing input (printed by the program), else undecided."""
    import shutil
    import subprocess
    crate = os.path.join(root, 'replay')
    env = dict(os.environ)
    env['CARGO_NET_OFFLINE'] = 'true'
    env['CARGO_TARGET_DIR'] = os.path.join(build, 'replay-target')
    env['RUSTFLAGS'] = '--cfg isographlabs_isograph_verif'
    env['RUST_BACKTRACE'] = '0'
    shutil.copy('/repo/Cargo.lock', os.path.join(crate, 'Cargo.lock'))
    for e in explorations:
        obl = {'name': e['obligation'], 'props': e['props'], 'backend': 'native replay on the real crates (/verif/replay)',
               'bounded': e['bounded'], 'kind': 'bounded exhaustive replay', 'cmd': ' '.join(e['cmd'])}
        b = subprocess.run(['cargo', 'build', '--offline', '--bin', e['cmd'][0]], cwd=crate, env=env, capture_output=True, text=True)
        if b.returncode != 0:
            obl['status'] = 'undecided'
            unit_res['undecided'] = unit_res['undecided'] or ('exploration %s does not build: %s' % (e['cmd'][0], b.stderr[-600:]))
            unit_res['obligations'].append(obl)
            continue
        exe = os.path.join(env['CARGO_TARGET_DIR'], 'debug', e['cmd'][0])
        os.makedirs(os.path.join(build, 'replay-work'), exist_ok=True)
        t0 = time.time()
        try:
            p = subprocess.run([exe] + e['cmd'][1:], capture_output=True, text=True, timeout=e.get('timeout', 1800), env=env, cwd=os.path.join(build, 'replay-work'))
        except subprocess.TimeoutExpired:
            obl['status'] = 'undecided'
            unit_res['undecided'] = unit_res['undecided'] or ('exploration %s timed out' % e['cmd'][0])
            unit_res['obligations'].append(obl)
            continue
        obl['wall_s'] = round(time.time() - t0, 1)
        obl['stdout'] = p.stdout[-400:]
        if p.returncode == 0:
            obl['status'] = 'discharged'
        elif p.returncode == 1:
            obl['status'] = 'failed'
            unit_res['failures'].append({
                'obligation': e['obligation'], 'props': e['props'], 'message': 'bounded exhaustive replay found a failing input',
                'rendered': p.stdout[-3000:], 'label': e['obligation'], 'block': None, 'serves': e['props'],
                'concrete_input': {'witness_program': '/verif/replay/src/bin/%s.rs' % e['cmd'][0], 'args': e['cmd'][1:]},
                'replay_result': {'ran': True, 'reproduced': True, 'exit': 1, 'stdout': p.stdout[-1500:]},
            })
        else:
            obl['status'] = 'undecided'
            unit_res['undecided'] = unit_res['undecided'] or ('exploration %s exited %d: %s' % (e['cmd'][0], p.returncode, (p.stderr or p.stdout)[-400:]))
        unit_res['obligations'].append(obl)
