// unit compile_driver — Verus. Real bodies of batch_compile::compile and
// write_artifacts::get_file_system_operations (extracted on every run) against assumed
// contracts for the artifact generator, FileSystemState (verified separately in unit
// fs_state) and apply_file_system_operations (fs:: calls; left unverified).
// Serves C17 (nothing is planned or applied unless generation succeeded), C18 (on success
// the stored state describes the generated artifacts) and C19 (after a failed write the
// stored state never claims the directory is up to date).
use vstd::prelude::*;
verus! {

// =====================================================================================
// Assumed contracts (trusted base; hand written)
// =====================================================================================
#[verifier::external_body]
pub struct ArtifactPathAndContent { p: core::marker::PhantomData<u8> }
#[verifier::external_body]
pub struct Path { p: core::marker::PhantomData<u8> }
impl Clone for Path { #[verifier::external_body] fn clone(&self) -> (r: Self) ensures r == *self { unimplemented!() } }
pub type PathBuf = Path;
pub struct FileContent { p: core::marker::PhantomData<u8> }
#[verifier::reject_recursive_types(T)]
pub struct Index<T> { pub idx: usize, pub phantom: core::marker::PhantomData<T> }
// the real enum (common_lang_types), so that code under contract may construct operations
//@item rel=crates/common_lang_types/src/file_system_operation.rs kind=enum name=FileSystemOperation prefix="pub"
#[verifier::external_body]
pub struct Diagnostic { p: core::marker::PhantomData<u8> }
#[verifier::external_body]
pub struct LocationFreeDiagnostic { p: core::marker::PhantomData<u8> }
impl Diagnostic {
    #[verifier::external_body]
    pub fn from(e: LocationFreeDiagnostic) -> Diagnostic { unimplemented!() }
}
pub type DiagnosticVecResult<T> = Result<T, Vec<Diagnostic>>;
pub type LocationFreeDiagnosticResult<T> = Result<T, LocationFreeDiagnostic>;
// `?` on Result<_, Diagnostic> inside a fn returning Result<_, Vec<Diagnostic>>
impl core::convert::From<Diagnostic> for Vec<Diagnostic> {
    #[verifier::external_body]
    fn from(e: Diagnostic) -> Vec<Diagnostic> { unimplemented!() }
}

pub struct GeneratorStats { pub client_field_count: usize, pub client_pointer_count: usize, pub entrypoint_count: usize }

/// ghost fact: this artifact list is the complete output of a generation run that
/// reported no error diagnostic.  Only the Ok result of the generator establishes it.
pub uninterp spec fn generated_ok(artifacts: Seq<ArtifactPathAndContent>) -> bool;

pub trait CompilationProfile {}
#[verifier::external_body]
#[verifier::reject_recursive_types(P)]
pub struct IsographDatabase<P> { p: core::marker::PhantomData<P> }
pub struct AbsolutePathAndRelativePath { pub absolute_path: Path }
pub struct CompilerConfig { pub artifact_directory: AbsolutePathAndRelativePath }
impl<P: CompilationProfile> IsographDatabase<P> {
    /// outcome of artifact generation for this database: a function of the database only
    pub uninterp spec fn gen_result(&self) -> Result<(Seq<ArtifactPathAndContent>, GeneratorStats), Seq<Diagnostic>>;
    pub uninterp spec fn config_spec(&self) -> &CompilerConfig;
    #[verifier::external_body]
    pub fn get_isograph_config(&self) -> (r: &CompilerConfig) ensures r == self.config_spec() { unimplemented!() }
}
/// artifact_content::get_artifact_path_and_content — assumed free of file-system writes
/// (a scan of crates/artifact_content for std::fs / File is reported in the evidence)
#[verifier::external_body]
pub fn get_artifact_path_and_content<P: CompilationProfile>(db: &IsographDatabase<P>)
    -> (r: DiagnosticVecResult<(Vec<ArtifactPathAndContent>, GeneratorStats)>)
    ensures
        match r {
            Ok(av) => db.gen_result() is Ok && av.0@ == db.gen_result()->Ok_0.0 && av.1 == db.gen_result()->Ok_0.1 && generated_ok(av.0@),
            Err(e) => db.gen_result() is Err,
        },
{ unimplemented!() }

#[verifier::external_body]
pub struct FileSystemState { p: core::marker::PhantomData<u8> }
impl FileSystemState {
    /// the artifact set this state describes
    pub uninterp spec fn describes(&self) -> Seq<ArtifactPathAndContent>;
    /// `FileSystemState::default()` (derive(Default)): the state of an EMPTY directory
    #[verifier::external_body]
    pub fn default() -> (r: FileSystemState) ensures r.describes() == Seq::<ArtifactPathAndContent>::empty() { unimplemented!() }
    /// FileSystemState::from(&[ArtifactPathAndContent]) (verified in unit fs_state)
    #[verifier::external_body]
    pub fn from_artifacts(a: &[ArtifactPathAndContent]) -> (r: FileSystemState) ensures r.describes() == a@ { unimplemented!() }
    #[verifier::external_body]
    pub fn recreate_all(state: &FileSystemState, artifact_directory: &Path) -> (ops: Vec<FileSystemOperation>)
        ensures plan_from_scratch(ops@, state.describes(), *artifact_directory)
    { unimplemented!() }
    #[verifier::external_body]
    pub fn diff(old: &FileSystemState, new: &FileSystemState, artifact_directory: &Path) -> (ops: Vec<FileSystemOperation>)
        ensures plan_from_state(ops@, old.describes(), new.describes(), *artifact_directory)
    { unimplemented!() }
}
/// `ops` turns ANY directory content into exactly `arts` (contract of recreate_all; unit fs_state)
pub uninterp spec fn plan_from_scratch(ops: Seq<FileSystemOperation>, arts: Seq<ArtifactPathAndContent>, dir: Path) -> bool;
/// `ops` turns a directory holding exactly `old` into exactly `new` (contract of diff; unit fs_state)
pub uninterp spec fn plan_from_state(ops: Seq<FileSystemOperation>, old: Seq<ArtifactPathAndContent>, new: Seq<ArtifactPathAndContent>, dir: Path) -> bool;

/// write_artifacts::apply_file_system_operations performs std::fs calls; its body is NOT
/// verified here (unit fs_state does that); only its REAL HEADER is extracted (stub=1). Contract: may only be called with artifacts of a successful generation
/// (C17) and a plan computed for exactly those artifacts.
pub uninterp spec fn apply_result(ops: Seq<FileSystemOperation>, artifacts: Seq<ArtifactPathAndContent>) -> Result<usize, LocationFreeDiagnostic>;
//@fn rel=crates/isograph_compiler/src/write_artifacts.rs name=apply_file_system_operations vis=pub ret=r stub=1 serves=C17,C18,C19
//@contract
    requires
        generated_ok(artifacts@), //@O C17.O-1_apply_only_after_successful_generation
        exists|dir: Path| plan_from_scratch(operations@, artifacts@, dir)
            || exists|old: Seq<ArtifactPathAndContent>| plan_from_state(operations@, old, artifacts@, dir), //@O C18.O-5_applied_plan_is_for_these_artifacts
    ensures r == apply_result(operations@, artifacts@),
//@end

#[verifier::external_body]
pub struct Instant { p: core::marker::PhantomData<u8> }

// =====================================================================================
// Real code under contract
// =====================================================================================
//@item rel=crates/isograph_compiler/src/compiler_state.rs kind=struct name=CompilerState prefix="#[verifier::reject_recursive_types(TCompilationProfile)] pub"
//@item rel=crates/isograph_compiler/src/batch_compile.rs kind=struct name=CompilationStats prefix="pub"

//@fn rel=crates/isograph_compiler/src/write_artifacts.rs name=get_file_system_operations vis=pub ret=ops serves=C17,C18,C19
//@sub "paths_and_contents\.into\(\)" => "FileSystemState::from_artifacts(paths_and_contents)" n=*
//@sub "let new_file_system_state =" => "let new_file_system_state: FileSystemState =" n=*
//@rw R4
//@contract
    requires
        generated_ok(paths_and_contents@), //@O C17.O-1_plan_only_after_successful_generation
    ensures
        // the plan is a from-scratch plan when nothing is known about the directory, and a
        // diff against the previously applied state otherwise
        *old(file_system_state) is None ==> plan_from_scratch(ops@, paths_and_contents@, *artifact_directory), //@O C18+C19.O-2_unknown_directory_is_recreated_from_scratch
        *old(file_system_state) is Some ==> plan_from_state(ops@, (*old(file_system_state))->Some_0.describes(), paths_and_contents@, *artifact_directory), //@O C18.O-3_known_directory_is_diffed_against_its_state
        // the state stored for the next compile describes exactly these artifacts
        *final(file_system_state) is Some && (*final(file_system_state))->Some_0.describes() == paths_and_contents@, //@O C18.O-5_stored_state_describes_new_artifacts
//@end

//@fn rel=crates/isograph_compiler/src/batch_compile.rs name=compile vis=pub ret=r serves=C17,C18,C19
//@rw R4 R6b
//@sub "\.map_err\(Diagnostic::from\)\?" => ".map_err_diag()?" n=*
//@contract
    ensures
        // C17: generation failed => error reported, remembered state untouched (and, by
        // the preconditions of the planner and of apply, nothing was planned or applied)
        old(state).db.gen_result() is Err ==> r is Err, //@O C17.O-2_failed_generation_is_reported
        // ... and does not forget (or change) what the session knows about the directory: the next
        // successful compile still writes only what changed
        old(state).db.gen_result() is Err ==> final(state).file_system_state == old(state).file_system_state, //@O C18.O-9_failed_generation_keeps_the_record_of_the_directory
        // C18: success => the remembered state describes exactly the generated artifacts
        r is Ok ==> old(state).db.gen_result() is Ok && final(state).file_system_state is Some
            && final(state).file_system_state->Some_0.describes() == old(state).db.gen_result()->Ok_0.0, //@O C18.O-5_success_remembers_generated_artifacts
        // C19: a write that failed part-way must not leave a remembered state that claims
        // the directory is up to date; the next compile has to start from scratch
        old(state).db.gen_result() is Ok && r is Err ==> final(state).file_system_state is None, //@O C18+C19.O-1_failed_write_forgets_directory_state
        // C17 (contrapositive): once the operations were applied successfully the compile does
        // not report an error any more — an Err is due to generation or to the write itself
        old(state).db.gen_result() is Ok && r is Err ==>
            exists|ops: Seq<FileSystemOperation>| (#[trigger] apply_result(ops, old(state).db.gen_result()->Ok_0.0)) is Err, //@O C17.O-3_error_reported_only_if_generation_or_write_failed
        final(state).db == old(state).db,
//@end

// glue for `.map_err(Diagnostic::from)` on the apply result (Result::map_err with a fn item)
pub trait MapErrDiag<T> { fn map_err_diag(self) -> Result<T, Diagnostic>; }
impl<T> MapErrDiag<T> for Result<T, LocationFreeDiagnostic> {
    fn map_err_diag(self) -> (r: Result<T, Diagnostic>)
        ensures self is Ok ==> r is Ok && r->Ok_0 == self->Ok_0, self is Err ==> r is Err,
    {
        match self { Ok(v) => Ok(v), Err(e) => Err(Diagnostic::from(e)) }
    }
}

} // verus!
fn main() {}
