// unit iso_lexer — Verus. Serves C07 (the iso-literal parser never panics on a span and every
// location it reports is well-formed and inside the literal). Real text, extracted on every run:
//  * the token cursor: PeekableLexer::{new, parse_token, peek, lexer_span, reached_eof,
//    remaining_token_span, source, parse_token_of_kind, parse_source_of_kind,
//    parse_string_key_type, with_embedded_location_result,
//    with_embedded_location_optional_result, white_space_span}; Span::{new, with_offset,
//    from_usize, as_usize, join, len, todo_generated}; WithSpan::{new,
//    to_with_embedded_location}; WithGenericLocation::{new, map};
//  * the recursive-descent parser (parse_iso_literal.rs): parse_iso_literal,
//    parse_iso_entrypoint_declaration, parse_iso_client_field_declaration,
//    parse_client_field_declaration_inner, parse_iso_client_pointer_declaration,
//    parse_client_pointer_declaration_inner, parse_client_pointer_target_type,
//    parse_optional_selection_set(_inner), parse_selection, parse_optional_alias_and_field_name,
//    parse_directives, parse_optional_arguments, parse_argument, parse_object_entry,
//    parse_variable_definitions, parse_variable_definition, parse_optional_default_value,
//    parse_delimited_list, parse_comma, parse_line_break, parse_comma_or_line_break,
//    parse_up_to_three_dots; description.rs: parse_optional_description,
//    parse_single_line_description, parse_multiline_description, the slicing of
//    clean_block_string_literal; closure contracts are spliced with //@closure;
//  * parse_non_constant_value and parse_type_annotation with their try-alternatives idiom
//    unfolded (R22), to_control_flow / from_control_flow, the integer-literal conversion;
//  * the logos callbacks lex_string / lex_block_string.
// Assumed (contract only): the logos-generated lexer; the payload
// types of the AST that are opaque stand-ins (string-key newtypes, directive sets, constant
// values). Termination of the parser is not proved.
use vstd::prelude::*;
use vstd::string::*;
use std::ops::ControlFlow;
verus! {

pub assume_specification<T>[core::mem::replace::<T>](dest: &mut T, src: T) -> (r: T)
    ensures r == *old(dest), *final(dest) == src;

// =====================================================================================
// Assumed contracts (trusted base; hand written)
// =====================================================================================
// IsographLangTokenKind: the real enum (token_kind.rs) with its #[derive(Logos)] /
// #[token] / #[regex] attributes stripped (the lexer logos generates from them is assumed by
// contract below).
//@item rel=crates/isograph_lang_parser/src/token_kind.rs kind=enum name=IsographLangTokenKind prefix="#[derive(Clone, Copy, PartialEq, Eq, Structural)] pub"
#[derive(Clone, Copy, PartialEq, Eq, Structural)]
pub struct IsographSemanticToken(pub u8);
#[derive(Clone, Copy, PartialEq, Eq, Structural)]
pub struct TextSource(pub u32);
#[verifier::external_body]
pub struct Diagnostic { p: core::marker::PhantomData<u8> }
impl Diagnostic {
    /// `DiagnosticData::location`
    pub uninterp spec fn loc(&self) -> Option<Location>;
}
/// C07 for diagnostics: the location a diagnostic carries (if it carries an embedded one) is
/// a well-formed range of a literal that is n bytes long
pub open spec fn diag_ok(d: Diagnostic, n: nat) -> bool {
    match d.loc() {
        Some(Location::Embedded(e)) => e.span.start <= e.span.end && e.span.end <= n,
        _ => true,
    }
}
pub type DiagnosticResult<T> = Result<T, Diagnostic>;
#[verifier::external_body]
pub fn parse_token_kind_diagnostic(expected: IsographLangTokenKind, found: IsographLangTokenKind, location: EmbeddedLocation) -> (r: Diagnostic)
    ensures r.loc() == Some(Location::Embedded(location))
{ unimplemented!() }
/// isograph_lang_types::semantic_token_legend: the 29 token classes as opaque tags (their
/// LSP fields play no role for spans)
pub mod semantic_token_legend {
    pub const ST_KEYWORD_USE: super::IsographSemanticToken = super::IsographSemanticToken(0);
    pub const ST_KEYWORD_DECLARATION: super::IsographSemanticToken = super::IsographSemanticToken(1);
    pub const ST_SERVER_OBJECT_TYPE: super::IsographSemanticToken = super::IsographSemanticToken(2);
    pub const ST_DOT: super::IsographSemanticToken = super::IsographSemanticToken(3);
    pub const ST_TO: super::IsographSemanticToken = super::IsographSemanticToken(4);
    pub const ST_CLIENT_SELECTABLE_NAME: super::IsographSemanticToken = super::IsographSemanticToken(5);
    pub const ST_OPEN_BRACE: super::IsographSemanticToken = super::IsographSemanticToken(6);
    pub const ST_CLOSE_BRACE: super::IsographSemanticToken = super::IsographSemanticToken(7);
    pub const ST_OPEN_PAREN: super::IsographSemanticToken = super::IsographSemanticToken(8);
    pub const ST_CLOSE_PAREN: super::IsographSemanticToken = super::IsographSemanticToken(9);
    pub const ST_OPEN_BRACKET: super::IsographSemanticToken = super::IsographSemanticToken(10);
    pub const ST_CLOSE_BRACKET: super::IsographSemanticToken = super::IsographSemanticToken(11);
    pub const ST_COMMA: super::IsographSemanticToken = super::IsographSemanticToken(12);
    pub const ST_SELECTION_NAME_OR_ALIAS: super::IsographSemanticToken = super::IsographSemanticToken(13);
    pub const ST_COLON: super::IsographSemanticToken = super::IsographSemanticToken(14);
    pub const ST_SELECTION_NAME_OR_ALIAS_POST_COLON: super::IsographSemanticToken = super::IsographSemanticToken(15);
    pub const ST_DIRECTIVE_AT: super::IsographSemanticToken = super::IsographSemanticToken(16);
    pub const ST_DIRECTIVE: super::IsographSemanticToken = super::IsographSemanticToken(17);
    pub const ST_ARGUMENT_NAME: super::IsographSemanticToken = super::IsographSemanticToken(18);
    pub const ST_VARIABLE_DOLLAR_DECLARATION: super::IsographSemanticToken = super::IsographSemanticToken(19);
    pub const ST_VARIABLE_DOLLAR_USAGE: super::IsographSemanticToken = super::IsographSemanticToken(20);
    pub const ST_VARIABLE: super::IsographSemanticToken = super::IsographSemanticToken(21);
    pub const ST_VARIABLE_EQUALS: super::IsographSemanticToken = super::IsographSemanticToken(22);
    pub const ST_STRING_LITERAL: super::IsographSemanticToken = super::IsographSemanticToken(23);
    pub const ST_NUMBER_LITERAL: super::IsographSemanticToken = super::IsographSemanticToken(24);
    pub const ST_BOOL_OR_NULL: super::IsographSemanticToken = super::IsographSemanticToken(25);
    pub const ST_OBJECT_LITERAL_KEY: super::IsographSemanticToken = super::IsographSemanticToken(26);
    pub const ST_TYPE_ANNOTATION: super::IsographSemanticToken = super::IsographSemanticToken(27);
    pub const ST_COMMENT: super::IsographSemanticToken = super::IsographSemanticToken(28);
}

/// logos::Lexer — contract of the generated lexer: `next` moves to a token that starts at
/// or after the end of the previous one and ends inside the source; `span` reports it.
/// (token boundaries are char boundaries: assumed from logos, not used below)
#[verifier::external_body]
pub struct Lexer<'source> { p: core::marker::PhantomData<&'source u8> }
impl<'source> Lexer<'source> {
    pub uninterp spec fn span_start(&self) -> nat;
    pub uninterp spec fn span_end(&self) -> nat;
    pub uninterp spec fn source_len(&self) -> nat;
    #[verifier::external_body]
    pub fn new(source: &'source str) -> (r: Self)
        ensures r.span_start() == 0, r.span_end() == 0, r.source_len() == byte_len(source)
    { unimplemented!() }
    #[verifier::external_body]
    pub fn next(&mut self) -> (r: Option<IsographLangTokenKind>)
        ensures
            final(self).source_len() == old(self).source_len(),
            old(self).span_end() <= final(self).span_start() <= final(self).span_end() <= final(self).source_len(),
            // a string token is the opening quote plus what lex_string bumped over (at least the
            // closing quote), a block string the opening `"""` plus at least the closing one
            r == Some(IsographLangTokenKind::StringLiteral) ==> final(self).span_end() - final(self).span_start() >= 2,
            r == Some(IsographLangTokenKind::BlockStringLiteral) ==> final(self).span_end() - final(self).span_start() >= 6,
    { unimplemented!() }
    #[verifier::external_body]
    pub fn span(&self) -> (r: core::ops::Range<usize>)
        ensures r.start == self.span_start(), r.end == self.span_end()
    { unimplemented!() }
}
/// byte length of a str (Verus views str as chars; the lexer's offsets are byte offsets, so
/// the byte length is kept abstract and tied to the lexer's source_len)
pub open spec fn byte_len(s: &str) -> nat { s.spec_bytes().len() }
/// std: the trimming functions return a sub-slice of their argument (only the length is used)
pub assume_specification<'a>[str::trim_end](s: &'a str) -> (r: &'a str) ensures byte_len(r) <= byte_len(s);
pub assume_specification<'a>[str::trim_start](s: &'a str) -> (r: &'a str) ensures byte_len(r) <= byte_len(s);
pub assume_specification<'a>[str::trim](s: &'a str) -> (r: &'a str) ensures byte_len(r) <= byte_len(s);
#[verifier::external_body]
pub fn lexer_for<'a>(source: &'a str) -> (r: Lexer<'a>)
    ensures r.span_start() == 0, r.span_end() == 0, r.source_len() == byte_len(source)
{ unimplemented!() }
/// `s.len()` in arithmetic position (vstd specifies str::len by a `returns` clause that the
/// installed Verus applies in cast position only)
#[verifier::external_body]
pub fn str_len(s: &str) -> (r: usize) ensures r == byte_len(s) { unimplemented!() }
/// `&s[start..end]`: in range (char boundaries assumed from logos)
#[verifier::external_body]
pub fn str_slice<'a>(s: &'a str, start: usize, end: usize) -> (r: &'a str)
    requires start <= end <= byte_len(s)
    ensures byte_len(r) == end - start
{ unimplemented!() }

// =====================================================================================
// Extracted types and helpers (real text)
// =====================================================================================
//@item rel=crates/common_lang_types/src/span.rs kind=struct name=Span prefix="#[derive(Copy, Clone, Eq, PartialEq, Structural)] pub"
impl Span {
//@fn rel=crates/common_lang_types/src/span.rs name=new within="impl Span" vis=pub ret=r serves=C07
//@sub "debug_assert!\(\s*start <= end,[^;]*\);" => "" n=1
//@contract
        // the authors' debug_assert!(start <= end) promoted to a precondition (R7)
        requires start <= end, //@O C07.O-2_span_new_start_le_end
        ensures r.start == start, r.end == end,
//@end
//@fn rel=crates/common_lang_types/src/span.rs name=todo_generated within="impl Span" vis=pub ret=r
//@contract
        ensures r.start == 0, r.end == 0,
//@end
//@fn rel=crates/common_lang_types/src/span.rs name=with_offset within="impl Span" vis=pub ret=r serves=C07
//@contract
        requires self.start <= self.end, self.end + offset <= u32::MAX,
        ensures r.start == self.start + offset, r.end == self.end + offset,
//@end
//@fn rel=crates/common_lang_types/src/span.rs name=from_usize within="impl Span" vis=pub ret=r serves=C07
//@contract
        requires start <= end, end <= u32::MAX,
        ensures r.start == start, r.end == end,
//@end
//@fn rel=crates/common_lang_types/src/span.rs name=as_usize within="impl Span" vis=pub ret=r
//@contract
        ensures r.0 == self.start, r.1 == self.end,
//@end
//@fn rel=crates/common_lang_types/src/span.rs name=join within="impl Span" vis=pub ret=r serves=C07
//@contract
        requires left.start <= right.end,
        ensures r.start == left.start, r.end == right.end,
//@end
//@fn rel=crates/common_lang_types/src/span.rs name=len within="impl Span" vis=pub ret=r serves=C07
//@contract
        requires self.start <= self.end,
        ensures r == self.end - self.start,
//@end
    // impl From<Range<usize>> for Span (real body: Span::from_usize(range.start, range.end))
    pub fn from_range(range: core::ops::Range<usize>) -> (r: Span)
        requires range.start <= range.end, range.end <= u32::MAX,
        ensures r.start == range.start, r.end == range.end,
    { Span::from_usize(range.start, range.end) }
}

#[derive(Copy, Clone, PartialEq, Eq, Structural)]
pub struct EmbeddedLocation { pub text_source: TextSource, pub span: Span }
impl EmbeddedLocation { pub fn new(text_source: TextSource, span: Span) -> (r: Self) ensures r.text_source == text_source, r.span == span { EmbeddedLocation { text_source, span } } }
//@item rel=crates/common_lang_types/src/location.rs kind=enum name=Location prefix="#[derive(Copy, Clone, PartialEq, Eq, Structural)] pub"
//@item rel=crates/common_lang_types/src/location.rs kind=struct name=WithGenericLocation prefix="#[derive(Copy, Clone)] pub"
pub type WithEmbeddedLocation<TItem> = WithGenericLocation<TItem, EmbeddedLocation>;
impl<T, TLocation> WithGenericLocation<T, TLocation> {
//@fn rel=crates/common_lang_types/src/location.rs name=new within="impl<T, TLocation> WithGenericLocation<T, TLocation>" vis=pub ret=r
//@contract
        ensures r.item == item, r.location == location,
//@end
//@fn rel=crates/common_lang_types/src/location.rs name=map within="impl<T, TLocation> WithGenericLocation<T, TLocation>" vis=pub ret=r
//@hsub "map: impl FnOnce\(T\) -> U" => "map: F"
//@hsub "fn map<U>" => "fn map<U, F: FnOnce(T) -> U>"
//@contract
        requires map.requires((self.item,)),
        ensures r.location == self.location, map.ensures((self.item,), r.item),
//@end
//@fn rel=crates/common_lang_types/src/location.rs name=and_then within="impl<T, TLocation> WithGenericLocation<T, TLocation>" vis=pub ret=r
//@rw R6b R4
//@hsub "map: impl FnOnce\(T\) -> Result<U, E>," => "map: F,"
//@hsub "fn and_then<U, E>" => "fn and_then<U, E, F: FnOnce(T) -> Result<U, E>>"
//@contract
        requires map.requires((self.item,)),
        ensures r is Ok ==> r->Ok_0.location == self.location && map.ensures((self.item,), Ok(r->Ok_0.item)),
            r is Err ==> map.ensures((self.item,), Err(r->Err_0)),
//@end
}
//@item rel=crates/common_lang_types/src/span.rs kind=struct name=WithSpan prefix="#[derive(Copy, Clone)] pub"
impl<T> WithSpan<T> {
//@fn rel=crates/common_lang_types/src/span.rs name=new within="impl<T> WithSpan<T>" vis=pub ret=r
//@contract
        ensures r.item == item, r.span == span,
//@end
//@fn rel=crates/common_lang_types/src/span.rs name=to_with_embedded_location within="impl<T> WithSpan<T>" vis=pub ret=r
//@contract
        ensures r.item == self.item, r.location.span == self.span, r.location.text_source == text_source,
//@end
}

//@item rel=crates/isograph_lang_parser/src/peekable_lexer.rs kind=struct name=PeekableLexer prefix="pub" sub="logos::Lexer<'source, IsographLangTokenKind>=>Lexer<'source>"

pub open spec fn tok_span(t: WithEmbeddedLocation<IsographSemanticToken>) -> Span { t.location.span }
/// semantic tokens are well-formed, non-overlapping and increasing
pub open spec fn tokens_ordered(ts: Seq<WithEmbeddedLocation<IsographSemanticToken>>) -> bool {
    &&& forall|i: int| 0 <= i < ts.len() ==> (#[trigger] tok_span(ts[i])).start <= tok_span(ts[i]).end
    &&& forall|i: int, j: int| 0 <= i < j < ts.len() ==> (#[trigger] tok_span(ts[i])).end <= (#[trigger] tok_span(ts[j])).start
}

impl<'source> PeekableLexer<'source> {
    /// representation invariant of the token cursor
    pub open spec fn inv(&self) -> bool {
        &&& self.offset == 0
        &&& self.lexer.source_len() == byte_len(self.source)
        &&& self.lexer.source_len() <= u32::MAX
        &&& self.end_index_of_last_parsed_token <= self.current.span.start
        &&& self.current.span.start <= self.current.span.end
        &&& self.current.span.end <= self.lexer.source_len()
        &&& self.lexer.span_end() == self.current.span.end
        &&& self.current.item == IsographLangTokenKind::StringLiteral ==> self.current.span.end - self.current.span.start >= 2
        &&& self.current.item == IsographLangTokenKind::BlockStringLiteral ==> self.current.span.end - self.current.span.start >= 6
        &&& tokens_ordered(self.semantic_tokens@)
        &&& forall|i: int| 0 <= i < self.semantic_tokens@.len() ==> (#[trigger] tok_span(self.semantic_tokens@[i])).end <= self.current.span.start
    }
    /// still the same literal
    pub open spec fn same_literal(&self, o: &Self) -> bool {
        self.source == o.source && self.text_source == o.text_source && self.offset == o.offset
    }
    /// the cursor never moves backwards
    pub open spec fn monotone(&self, o: &Self) -> bool {
        self.end_index_of_last_parsed_token >= o.end_index_of_last_parsed_token && self.current.span.start >= o.current.span.start
            && self.current.span.end >= o.current.span.end
    }
    /// at least the token that was current in `o` has been consumed: a span from the start of
    /// that token to the end of the last parsed token is well-formed
    pub open spec fn progressed(&self, o: &Self) -> bool {
        self.end_index_of_last_parsed_token >= o.current.span.end
    }
    pub open spec fn not_moved(&self, o: &Self) -> bool {
        self.current == o.current && self.semantic_tokens@ == o.semantic_tokens@
            && self.end_index_of_last_parsed_token == o.end_index_of_last_parsed_token
    }

//@fn rel=crates/isograph_lang_parser/src/peekable_lexer.rs name=lexer_span within="impl<'source> PeekableLexer<'source>" vis=pub ret=r serves=C07
//@sub "let span: Span = self\.lexer\.span\(\)\.into\(\);" => "let span: Span = Span::from_range(self.lexer.span());" n=1
//@contract
        requires self.lexer.span_start() <= self.lexer.span_end() <= u32::MAX, self.lexer.span_end() + self.offset <= u32::MAX,
        ensures r.start == self.lexer.span_start() + self.offset, r.end == self.lexer.span_end() + self.offset,
//@end

//@fn rel=crates/isograph_lang_parser/src/peekable_lexer.rs name=parse_token within="impl<'source> PeekableLexer<'source>" vis=pub ret=r serves=C07
//@sub "kind\.with_span\(span\)" => "WithSpan::new(kind, span)" n=1
//@sub "isograph_semantic_token\.with_location\(parsed_token\.location\)" => "WithGenericLocation::new(isograph_semantic_token, parsed_token.location)" n=1
//@contract
        requires old(self).inv(),
        ensures
            final(self).inv(), //@O C07.O-1_parse_token_preserves_cursor_invariant
            // the token handed out is the one that was current, inside the literal
            r.location.span == old(self).current.span && r.location.span.end <= byte_len(old(self).source), //@O C07.O-1_parsed_token_span_inside_literal
            r.item == old(self).current.item && r.location.text_source == old(self).text_source,
            // exactly one semantic token is appended: the span of the token handed out
            final(self).semantic_tokens@ == old(self).semantic_tokens@.push(WithGenericLocation { item: isograph_semantic_token, location: r.location }), //@O C07.O-1_semantic_token_appended_for_parsed_token
            final(self).source == old(self).source,
            final(self).same_literal(old(self)),
            final(self).end_index_of_last_parsed_token == old(self).current.span.end,
            final(self).current.span.start >= old(self).current.span.end,
//@atend
        proof {
            assert(tokens_ordered(self.semantic_tokens@)) by {
                let ts = self.semantic_tokens@;
                let n = ts.len() - 1;
                assert forall|i: int, j: int| 0 <= i < j < ts.len() implies (#[trigger] tok_span(ts[i])).end <= (#[trigger] tok_span(ts[j])).start by {
                    if j == n { assert(tok_span(old(self).semantic_tokens@[i]).end <= old(self).current.span.start); }
                }
            }
        }
//@end

//@fn rel=crates/isograph_lang_parser/src/peekable_lexer.rs name=new within="impl<'source> PeekableLexer<'source>" vis=pub ret=r serves=C07
//@sub "IsographLangTokenKind::lexer\(source\)" => "lexer_for(source)" n=1
//@sub "IsographLangTokenKind::EndOfFile\.with_generated_span\(\)" => "WithSpan::new(IsographLangTokenKind::EndOfFile, Span::todo_generated())" n=1
//@contract
        // iso literals are far below 4 GiB (precondition derived from the u32 spans)
        requires byte_len(source) <= u32::MAX,
        ensures
            r.inv(), //@O C07.O-1_new_establishes_cursor_invariant
            r.semantic_tokens@.len() == 0,
            r.source == source,
//@end

//@fn rel=crates/isograph_lang_parser/src/peekable_lexer.rs name=peek within="impl<'source> PeekableLexer<'source>" vis=pub ret=r serves=C07
//@contract
        ensures r.item == self.current.item, r.location.span == self.current.span,
//@end

//@fn rel=crates/isograph_lang_parser/src/peekable_lexer.rs name=reached_eof within="impl<'source> PeekableLexer<'source>" vis=pub ret=r
//@contract
        ensures r == (self.current.item == IsographLangTokenKind::EndOfFile),
//@end

//@fn rel=crates/isograph_lang_parser/src/peekable_lexer.rs name=remaining_token_span within="impl<'source> PeekableLexer<'source>" vis=pub ret=r serves=C07
//@rw R4
//@contract
        requires old(self).inv(),
        ensures
            final(self).inv(), //@O C07.O-1_remaining_token_span_preserves_cursor_invariant
            r is Some ==> r->Some_0.start <= r->Some_0.end && r->Some_0.end <= byte_len(old(self).source), //@O C07.O-2_remaining_span_inside_literal
            // it is the rest of the literal from the token that was current, and that token is consumed
            (r is Some) == (old(self).current.item != IsographLangTokenKind::EndOfFile), //@O C07.O-2_remaining_span_none_iff_eof
            r is Some ==> r->Some_0.start == old(self).current.span.start, //@O C07.O-2_remaining_span_starts_at_current_token
            r is None ==> final(self).current == old(self).current && final(self).semantic_tokens@ == old(self).semantic_tokens@,
//@end

//@fn rel=crates/isograph_lang_parser/src/peekable_lexer.rs name=source within="impl<'source> PeekableLexer<'source>" vis=pub ret=r serves=C07
//@sub "&self\.source\[start\.\.end\]" => "str_slice(self.source, start, end)" n=1
//@contract
        // callers pass spans of tokens handed out by this cursor
        requires self.offset == 0, span.start <= span.end, span.end <= byte_len(self.source),
        ensures byte_len(r) == span.end - span.start,
//@end

//@fn rel=crates/isograph_lang_parser/src/peekable_lexer.rs name=parse_token_of_kind within="impl<'source> PeekableLexer<'source>" vis=pub ret=r serves=C07
//@rw R4
//@contract
        requires old(self).inv(),
        ensures
            final(self).inv(), //@O C07.O-1_parse_token_of_kind_preserves_cursor_invariant
            r is Ok ==> r->Ok_0.location.span == old(self).current.span && r->Ok_0.location.span.end <= byte_len(old(self).source), //@O C07.O-1_token_of_kind_span_inside_literal
            // a token is consumed exactly when it has the expected kind
            (r is Ok) == (old(self).current.item == expected_kind), //@O C07.O-1_token_consumed_iff_kind_matches
            r is Ok ==> r->Ok_0.item == expected_kind,
            // on a mismatch the cursor does not move
            r is Err ==> final(self).current == old(self).current && final(self).semantic_tokens@ == old(self).semantic_tokens@
                && final(self).end_index_of_last_parsed_token == old(self).end_index_of_last_parsed_token, //@O C07.O-1_mismatch_does_not_advance
            final(self).same_literal(old(self)), final(self).monotone(old(self)),
            r is Ok ==> final(self).progressed(old(self)) && final(self).end_index_of_last_parsed_token == old(self).current.span.end,
        r is Err ==> diag_ok(r->Err_0, byte_len(old(self).source)), //@O C07.O-7_diagnostic_location_inside_literal
//@end

//@fn rel=crates/isograph_lang_parser/src/peekable_lexer.rs name=parse_source_of_kind within="impl<'source> PeekableLexer<'source>" vis=pub ret=r serves=C07
//@rw R4 R6b
//@sub "self\.source\(kind\.location\.span\)\s*\.with_location\(kind\.location\)" => "WithGenericLocation::new(self.source(kind.location.span), kind.location)" n=1
//@contract
        requires old(self).inv(),
        ensures
            final(self).inv(), //@O C07.O-1_parse_source_of_kind_preserves_cursor_invariant
            final(self).same_literal(old(self)), final(self).monotone(old(self)),
            (r is Ok) == (old(self).current.item == expected_kind),
            r is Ok ==> final(self).progressed(old(self)) && r->Ok_0.location.span == old(self).current.span
                && r->Ok_0.location.span.end <= byte_len(old(self).source), //@O C07.O-1_source_of_kind_span_inside_literal
            // the text handed out is the token's text: a string token comes with both quotes
            r is Ok ==> byte_len(r->Ok_0.item) == r->Ok_0.location.span.end - r->Ok_0.location.span.start,
            r is Ok && expected_kind == IsographLangTokenKind::StringLiteral ==> byte_len(r->Ok_0.item) >= 2,
            r is Ok && expected_kind == IsographLangTokenKind::BlockStringLiteral ==> byte_len(r->Ok_0.item) >= 6,
            r is Err ==> final(self).not_moved(old(self)),
        r is Err ==> diag_ok(r->Err_0, byte_len(old(self).source)), //@O C07.O-7_diagnostic_location_inside_literal
//@end

//@fn rel=crates/isograph_lang_parser/src/peekable_lexer.rs name=parse_string_key_type within="impl<'source> PeekableLexer<'source>" vis=pub ret=r serves=C07
//@rw R6b R15 R16 R4
//@sub "self\.source\(kind\.location\.span\)\.intern\(\)" => "intern_str(self.source(kind.location.span))" n=1
//@contract
        requires old(self).inv(),
        ensures
            final(self).inv(), //@O C07.O-1_parse_string_key_type_preserves_cursor_invariant
            final(self).same_literal(old(self)), final(self).monotone(old(self)),
            (r is Ok) == (old(self).current.item == expected_kind),
            r is Ok ==> final(self).progressed(old(self)) && r->Ok_0.location.span == old(self).current.span
                && r->Ok_0.location.span.end <= byte_len(old(self).source), //@O C07.O-1_string_key_span_inside_literal
            r is Err ==> final(self).not_moved(old(self)),
        r is Err ==> diag_ok(r->Err_0, byte_len(old(self).source)), //@O C07.O-7_diagnostic_location_inside_literal
//@end

//@fn rel=crates/isograph_lang_parser/src/peekable_lexer.rs name=with_embedded_location_result within="impl<'source> PeekableLexer<'source>" vis=pub ret=r serves=C07
//@rw R4 R6b
//@hsub "do_stuff: impl FnOnce\(&mut Self\) -> Result<T, E>," => "do_stuff: F,"
//@hsub "with_embedded_location_result<T, E>" => "with_embedded_location_result<T, E, F: FnOnce(&mut Self) -> Result<T, E>>"
//@sub "result\s*\.with_span\(Span::new\(start, end\)\)" => "WithSpan::new(result, Span::new(start, end))" n=1
//@contract
        requires
            old(self).inv(),
            // what the callback must guarantee (the authors' comment: "If `do_stuff` parses nothing
            // ... then end < start, and we will panic"): it can run on any well-formed cursor, keeps
            // it well-formed on the same literal, and if it succeeds it has consumed a token
            forall|x: &mut Self| x.inv() ==> #[trigger] do_stuff.requires((x,)),
            forall|x: &mut Self, y: Result<T, E>| x.inv() && #[trigger] do_stuff.ensures((x,), y) ==>
                final(x).inv() && final(x).same_literal(&*x) && final(x).monotone(&*x) && (y is Ok ==> final(x).progressed(&*x)),
        ensures
            final(self).inv(), //@O C07.O-4_with_embedded_location_result_preserves_cursor_invariant
            final(self).same_literal(old(self)), final(self).monotone(old(self)),
            r is Ok ==> final(self).progressed(old(self))
                && r->Ok_0.location.span.start == old(self).current.span.start
                && r->Ok_0.location.span.start <= r->Ok_0.location.span.end
                && r->Ok_0.location.span.end <= byte_len(old(self).source), //@O C07.O-4_located_span_well_formed_and_inside_literal,
            // an error is the callback's error, unchanged
            r is Err ==> exists|x: &mut Self, y: Result<T, E>| x.inv() && x.source == old(self).source && #[trigger] do_stuff.ensures((x,), y) && y is Err && y->Err_0 == r->Err_0,
//@end

//@fn rel=crates/isograph_lang_parser/src/peekable_lexer.rs name=with_embedded_location_optional_result within="impl<'source> PeekableLexer<'source>" vis=pub ret=r serves=C07
//@rw R4 R6b
//@hsub "do_stuff: impl FnOnce\(&mut Self\) -> Result<Option<T>, E>," => "do_stuff: F,"
//@hsub "with_embedded_location_optional_result<T, E>" => "with_embedded_location_optional_result<T, E, F: FnOnce(&mut Self) -> Result<Option<T>, E>>"
//@sub "debug_assert!\(\s*result\.is_some\(\) \|\| \(start == self\.current\.span\.start\),[^;]*\);" => "assert(result is Some || start == self.current.span.start);" n=1
//@sub "result\s*\.map\(\|value\| \{\s*value\s*\.with_span\(Span::new\(start, end\)\)\s*\.to_with_embedded_location\(self\.text_source\)\s*\}\)" => "(match result { Some(value) => Some(WithSpan::new(value, Span::new(start, end)).to_with_embedded_location(self.text_source)), None => None })" n=1
//@contract
        requires
            old(self).inv(),
            // the callback either parses something (then it has consumed a token) or parses
            // nothing and leaves the cursor where it was (the authors' debug_assert, here PROVED)
            forall|x: &mut Self| x.inv() ==> #[trigger] do_stuff.requires((x,)),
            forall|x: &mut Self, y: Result<Option<T>, E>| x.inv() && #[trigger] do_stuff.ensures((x,), y) ==>
                final(x).inv() && final(x).same_literal(&*x) && final(x).monotone(&*x)
                && (y is Ok && y->Ok_0 is Some ==> final(x).progressed(&*x))
                && (y is Ok && y->Ok_0 is None ==> final(x).current.span.start == x.current.span.start),
        ensures
            final(self).inv(), //@O C07.O-4_with_embedded_location_optional_result_preserves_cursor_invariant
            final(self).same_literal(old(self)), final(self).monotone(old(self)),
            r is Ok && r->Ok_0 is Some ==> final(self).progressed(old(self))
                && r->Ok_0->Some_0.location.span.start == old(self).current.span.start
                && r->Ok_0->Some_0.location.span.start <= r->Ok_0->Some_0.location.span.end
                && r->Ok_0->Some_0.location.span.end <= byte_len(old(self).source), //@O C07.O-4_optional_located_span_well_formed_and_inside_literal
            r is Ok && r->Ok_0 is None ==> final(self).current.span.start == old(self).current.span.start,
            // an error is the callback's error, unchanged
            r is Err ==> exists|x: &mut Self, y: Result<Option<T>, E>| x.inv() && x.source == old(self).source && #[trigger] do_stuff.ensures((x,), y) && y is Err && y->Err_0 == r->Err_0,
//@end

    /// `self.semantic_tokens.clone()` (derive(Clone) of the element type has no Verus spec)
    #[verifier::external_body]
    pub fn semantic_tokens(&self) -> (r: Vec<WithEmbeddedLocation<IsographSemanticToken>>)
        ensures r@ == self.semantic_tokens@
    { unimplemented!() }
//@fn rel=crates/isograph_lang_parser/src/peekable_lexer.rs name=white_space_span within="impl<'source> PeekableLexer<'source>" vis=pub ret=r serves=C07
//@contract
        requires self.inv(),
        ensures r.start == self.end_index_of_last_parsed_token, r.end == self.current.span.start, r.start <= r.end, //@O C07.O-2_white_space_span_well_formed
//@end
}

// ---- call sites of the span combinators in parse_iso_literal.rs (closure contracts spliced) ----
//@fn rel=crates/isograph_lang_parser/src/parse_iso_literal.rs name=parse_up_to_three_dots vis=pub ret=r serves=C07 prefix="#[verifier::exec_allows_no_decreases_clause]"
//@rw R4 R6 R6b
//@hsub "tokens: &mut PeekableLexer\)" => "tokens: &mut PeekableLexer<'_>)"
//@contract
    requires old(tokens).inv(),
    ensures
        final(tokens).inv(), //@O C07.O-4_parse_up_to_three_dots_preserves_cursor_invariant
        final(tokens).same_literal(old(tokens)), final(tokens).monotone(old(tokens)),
        r is Some ==> r->Some_0.span.start <= r->Some_0.span.end && r->Some_0.span.end <= byte_len(old(tokens).source), //@O C07.O-4_fragment_spread_location_well_formed
//@closure 1 params="tokens: &mut PeekableLexer<'_>" ret="cr: Result<(), Diagnostic>"
            requires old(tokens).inv(),
            ensures final(tokens).inv(), final(tokens).same_literal(old(tokens)), final(tokens).monotone(old(tokens)),
                cr is Ok ==> final(tokens).progressed(old(tokens)),
                cr is Err ==> diag_ok(cr->Err_0, byte_len(old(tokens).source)),
//@closure 2 params="x: WithEmbeddedLocation<()>" ret="m: EmbeddedLocation"
            ensures m == x.location,
//@end

// ---- stand-ins for the parser's payload (opaque: the cursor contracts do not depend on them) ----
impl Location {
    /// `impl From<EmbeddedLocation> for Location` (real body: Location::Embedded(value)); an
    /// inherent function so that it can carry its postcondition
    pub fn from(e: EmbeddedLocation) -> (r: Location) ensures r == Location::Embedded(e) { Location::Embedded(e) }
//@fn rel=crates/common_lang_types/src/location.rs name=new within="impl Location" vis=pub ret=r
//@contract
        ensures r == Location::Embedded(EmbeddedLocation { text_source, span }),
//@end
}
/// intern::string_key::StringKey and `str.intern()` (opaque: the cursor does not depend on them)
#[derive(Clone, Copy)]
pub struct StringKey(pub u32);
#[verifier::external_body]
pub fn intern_str(s: &str) -> StringKey { unimplemented!() }
/// string-key newtypes of common_lang_types / isograph_lang_types (string_key_newtype! macro):
/// opaque, built `From<StringKey>`
#[derive(Clone, Copy)] pub struct FieldArgumentName(pub StringKey);
impl From<StringKey> for FieldArgumentName { #[verifier::external_body] fn from(k: StringKey) -> Self { FieldArgumentName(k) } }
#[derive(Clone, Copy)] pub struct ValueKeyName(pub StringKey);
impl From<StringKey> for ValueKeyName { #[verifier::external_body] fn from(k: StringKey) -> Self { ValueKeyName(k) } }
#[derive(Clone, Copy)] pub struct IsographDirectiveName(pub StringKey);
impl From<StringKey> for IsographDirectiveName { #[verifier::external_body] fn from(k: StringKey) -> Self { IsographDirectiveName(k) } }
/// `s.contains(c)` for a char pattern
#[verifier::external_body]
pub fn str_contains_char(s: &str, c: char) -> bool { unimplemented!() }
/// `&String` as `&str` (deref coercion)
pub uninterp spec fn string_byte_len(s: &String) -> nat;
#[verifier::external_body]
pub fn string_as_str<'a>(s: &'a String) -> (r: &'a str) ensures byte_len(r) == string_byte_len(s) { unimplemented!() }
/// Option<String>::as_deref
#[verifier::external_body]
pub fn opt_as_deref<'a>(o: &'a Option<String>) -> Option<&'a str> { unimplemented!() }
/// `a == b` / `a != b` on &str
#[verifier::external_body]
pub fn str_eq(a: &str, b: &str) -> bool { unimplemented!() }
#[derive(Clone, Copy)] pub struct SelectableName(pub StringKey);
impl From<StringKey> for SelectableName { #[verifier::external_body] fn from(k: StringKey) -> Self { SelectableName(k) } }
#[derive(Clone, Copy)] pub struct SelectableAlias(pub StringKey);
impl From<StringKey> for SelectableAlias { #[verifier::external_body] fn from(k: StringKey) -> Self { SelectableAlias(k) } }
/// directive sets are deserialized from the parsed directives (serde; opaque here)
#[verifier::external_body]
pub struct ScalarSelectionDirectiveSet { p: core::marker::PhantomData<u8> }
#[verifier::external_body]
pub struct ObjectSelectionDirectiveSet { p: core::marker::PhantomData<u8> }
#[verifier::external_body]
pub fn from_isograph_field_directives<T>(directives: &WithEmbeddedLocation<Vec<WithEmbeddedLocation<IsographFieldDirective>>>) -> (r: Result<T, Diagnostic>)
    // real body: the deserialization error is reported at the location of the directives
    ensures r is Err ==> r->Err_0.loc() == Some(Location::Embedded(directives.location))
{ unimplemented!() }
#[verifier::external_body]
pub fn fragment_spread_diagnostic(location: EmbeddedLocation) -> (r: Diagnostic) ensures r.loc() == Some(Location::Embedded(location)) { unimplemented!() }
//@item rel=crates/isograph_lang_types/src/base_types.rs kind=enum name=SelectionType prefix="pub"
//@item rel=crates/isograph_lang_types/src/declarations/selection_declaration.rs kind=struct name=ScalarSelection prefix="pub"
//@item rel=crates/isograph_lang_types/src/declarations/selection_declaration.rs kind=struct name=ObjectSelection prefix="pub"
pub type Selection = SelectionType<ScalarSelection, ObjectSelection>;
//@item rel=crates/isograph_lang_types/src/declarations/selection_argument.rs kind=struct name=SelectionFieldArgument prefix="pub"
//@item rel=crates/isograph_lang_types/src/isograph_directives.rs kind=struct name=IsographFieldDirective prefix="pub"
//@item rel=crates/isograph_lang_types/src/declarations/client_selectable_declaration.rs kind=struct name=SelectionSet prefix="pub"

/// a located value whose span is well-formed, lies inside the literal and does not start
/// before the cursor position `o` it was parsed from
pub open spec fn located_from<T>(v: WithEmbeddedLocation<T>, o: &PeekableLexer<'_>) -> bool {
    v.location.span.start >= o.current.span.start && v.location.span.start <= v.location.span.end
        && v.location.span.end <= byte_len(o.source)
}
/// contract every item / delimiter parser of the recursive descent satisfies: it runs on any
/// well-formed cursor, keeps it well-formed on the same literal and never moves it backwards
#[verifier::prophetic]
pub open spec fn cursor_fn_ok<'a, T, F: Fn(&mut PeekableLexer<'a>) -> DiagnosticResult<T>>(f: F) -> bool {
    &&& forall|x: &mut PeekableLexer<'a>| x.inv() ==> #[trigger] f.requires((x,))
    &&& forall|x: &mut PeekableLexer<'a>, y: DiagnosticResult<T>| x.inv() && #[trigger] f.ensures((x,), y) ==>
            final(x).inv() && final(x).same_literal(&*x) && final(x).monotone(&*x)
            && (y is Err ==> diag_ok(y->Err_0, byte_len(x.source)))
}

//@fn rel=crates/isograph_lang_parser/src/parse_iso_literal.rs name=parse_comma vis=pub ret=r serves=C07 prefix="#[verifier::exec_allows_no_decreases_clause]"
//@contract
    requires old(tokens).inv(),
    ensures final(tokens).inv(), final(tokens).same_literal(old(tokens)), final(tokens).monotone(old(tokens)),
        r is Ok ==> final(tokens).progressed(old(tokens)),
        r is Err ==> final(tokens).not_moved(old(tokens)),
        r is Err ==> diag_ok(r->Err_0, byte_len(old(tokens).source)), //@O C07.O-7_diagnostic_location_inside_literal
//@end

//@fn rel=crates/isograph_lang_parser/src/parse_iso_literal.rs name=parse_line_break vis=pub ret=r serves=C07 prefix="#[verifier::exec_allows_no_decreases_clause]"
//@rw R15 R4
//@sub "tokens\.source\(tokens\.white_space_span\(\)\)\.contains\('\\n'\)" => "str_contains_char(tokens.source(tokens.white_space_span()), '\\n')" n=1
//@contract
    requires old(tokens).inv(),
    // the white space between the last parsed token and the current one is a well-formed
    // range of the literal (precondition of `source`)
    ensures *final(tokens) == *old(tokens), //@O C07.O-5_parse_line_break_reads_a_well_formed_range_and_moves_nothing,
        r is Err ==> diag_ok(r->Err_0, byte_len(old(tokens).source)), //@O C07.O-7_diagnostic_location_inside_literal
//@end

//@fn rel=crates/isograph_lang_parser/src/parse_iso_literal.rs name=parse_comma_or_line_break vis=pub ret=r serves=C07 prefix="#[verifier::exec_allows_no_decreases_clause]"
//@rw R15 R4
//@contract
    requires old(tokens).inv(),
    ensures final(tokens).inv(), final(tokens).same_literal(old(tokens)), final(tokens).monotone(old(tokens)), //@O C07.O-5_parse_comma_or_line_break_preserves_cursor_invariant,
        r is Err ==> diag_ok(r->Err_0, byte_len(old(tokens).source)), //@O C07.O-7_diagnostic_location_inside_literal
//@end

//@fn rel=crates/isograph_lang_parser/src/parse_iso_literal.rs name=parse_delimited_list vis=pub ret=r serves=C07 prefix="#[verifier::exec_allows_no_decreases_clause]"
//@rw R19 R4
//@hsub "parse_item: impl Fn\(&mut PeekableLexer<'a>\) -> DiagnosticResult<TResult> \+ 'a," => "parse_item: FI,"
//@hsub "parse_delimiter: impl Fn\(&mut PeekableLexer<'a>\) -> DiagnosticResult<\(\)> \+ 'a," => "parse_delimiter: FD,"
//@hsub "parse_delimited_list<'a, TResult>" => "parse_delimited_list<'a, TResult, FI: Fn(&mut PeekableLexer<'a>) -> DiagnosticResult<TResult> + 'a, FD: Fn(&mut PeekableLexer<'a>) -> DiagnosticResult<()> + 'a>"
//@contract
    requires
        old(tokens).inv(), cursor_fn_ok(parse_item), cursor_fn_ok(parse_delimiter),
    ensures
        final(tokens).inv(), //@O C07.O-5_parse_delimited_list_preserves_cursor_invariant
        final(tokens).same_literal(old(tokens)), final(tokens).monotone(old(tokens)),
        // the list is located at its closing token, which was consumed
        r is Ok ==> final(tokens).progressed(old(tokens)) && located_from(r->Ok_0, old(tokens)), //@O C07.O-5_delimited_list_located_at_its_closing_token,
        r is Err ==> diag_ok(r->Err_0, byte_len(old(tokens).source)), //@O C07.O-7_diagnostic_location_inside_literal
//@closure 1 params="_k: IsographLangTokenKind" ret="v: Vec<TResult>"
//@closure 2 params="_k: IsographLangTokenKind" ret="v: Vec<TResult>"
//@closure 3 params="_k: IsographLangTokenKind" ret="v: Vec<TResult>"
//@loop 1
        invariant
            tokens.inv(), tokens.same_literal(old(tokens)), tokens.monotone(old(tokens)),
            cursor_fn_ok(parse_item), cursor_fn_ok(parse_delimiter),
//@end


//@fn rel=crates/isograph_lang_parser/src/parse_iso_literal.rs name=parse_optional_selection_set_inner vis=pub ret=r serves=C07 prefix="#[verifier::exec_allows_no_decreases_clause]"
//@rw R19 R4
//@contract
    requires old(tokens).inv(),
    ensures
        final(tokens).inv(), //@O C07.O-5_parse_selection_set_inner_preserves_cursor_invariant
        final(tokens).same_literal(old(tokens)), final(tokens).monotone(old(tokens)),
        // a selection set is reported only if its opening brace was consumed; otherwise the
        // cursor has not moved
        r is Ok && r->Ok_0 is Some ==> final(tokens).progressed(old(tokens)), //@O C07.O-5_selection_set_present_only_if_brace_consumed
        r is Ok && r->Ok_0 is None ==> final(tokens).not_moved(old(tokens)), //@O C07.O-5_absent_selection_set_leaves_cursor_in_place,
        r is Err ==> diag_ok(r->Err_0, byte_len(old(tokens).source)), //@O C07.O-7_diagnostic_location_inside_literal
//@loop 1
        invariant
            tokens.inv(), tokens.same_literal(old(tokens)), tokens.monotone(old(tokens)), tokens.progressed(old(tokens)),
//@end

//@fn rel=crates/isograph_lang_parser/src/parse_iso_literal.rs name=parse_optional_selection_set vis=pub ret=r serves=C07 prefix="#[verifier::exec_allows_no_decreases_clause]"
//@rw R4
//@contract
    requires old(tokens).inv(),
    ensures
        final(tokens).inv(), //@O C07.O-5_parse_optional_selection_set_preserves_cursor_invariant
        final(tokens).same_literal(old(tokens)), final(tokens).monotone(old(tokens)),
        r is Ok && r->Ok_0 is Some ==> final(tokens).progressed(old(tokens)) && located_from(r->Ok_0->Some_0, old(tokens)), //@O C07.O-5_selection_set_span_well_formed
        r is Ok && r->Ok_0 is None ==> final(tokens).current.span.start == old(tokens).current.span.start,
        r is Err ==> diag_ok(r->Err_0, byte_len(old(tokens).source)), //@O C07.O-7_diagnostic_location_inside_literal
//@closure 1 params="tokens: &mut PeekableLexer<'_>" ret="cr: Result<Option<SelectionSet>, Diagnostic>"
            requires old(tokens).inv(),
            ensures final(tokens).inv(), final(tokens).same_literal(old(tokens)), final(tokens).monotone(old(tokens)),
                cr is Ok && cr->Ok_0 is Some ==> final(tokens).progressed(old(tokens)),
                cr is Ok && cr->Ok_0 is None ==> final(tokens).current.span.start == old(tokens).current.span.start,
                cr is Err ==> diag_ok(cr->Err_0, byte_len(old(tokens).source)),
//@closure 2 params="selections: Vec<WithEmbeddedLocation<Selection>>" ret="ss: SelectionSet"
//@end

//@fn rel=crates/isograph_lang_parser/src/parse_iso_literal.rs name=parse_optional_alias_and_field_name vis=pub ret=r serves=C07 prefix="#[verifier::exec_allows_no_decreases_clause]"
//@rw R4
//@hsub "tokens: &mut PeekableLexer," => "tokens: &mut PeekableLexer<'_>,"
//@contract
    requires old(tokens).inv(),
    ensures
        final(tokens).inv(), //@O C07.O-5_parse_alias_and_field_name_preserves_cursor_invariant
        final(tokens).same_literal(old(tokens)), final(tokens).monotone(old(tokens)),
        r is Ok ==> final(tokens).progressed(old(tokens)),
        r is Err ==> diag_ok(r->Err_0, byte_len(old(tokens).source)), //@O C07.O-7_diagnostic_location_inside_literal
//@end

//@item rel=crates/graphql_lang_types/src/value.rs kind=struct name=NameValuePairInner prefix="pub"
pub type NameValuePair<TName, TValue> = NameValuePairInner<TName, TValue, EmbeddedLocation>;
#[derive(Clone, Copy)] pub struct StringLiteralValue(pub StringKey);
impl From<StringKey> for StringLiteralValue { #[verifier::external_body] fn from(k: StringKey) -> Self { StringLiteralValue(k) } }
#[derive(Clone, Copy)] pub struct FloatValue(pub u64);
#[derive(Clone, Copy)] pub struct EnumLiteralValue(pub StringKey);
//@item rel=crates/isograph_lang_types/src/declarations/selection_argument.rs kind=enum name=NonConstantValueInner prefix="pub"
pub type NonConstantValue = NonConstantValueInner<EmbeddedLocation>;

//@fn rel=crates/isograph_lang_parser/src/parse_iso_literal.rs name=parse_argument vis=pub ret=r serves=C07 prefix="#[verifier::exec_allows_no_decreases_clause]"
//@rw R4
//@contract
    requires old(tokens).inv(),
    ensures
        final(tokens).inv(), //@O C07.O-5_parse_argument_preserves_cursor_invariant
        final(tokens).same_literal(old(tokens)), final(tokens).monotone(old(tokens)),
        r is Ok ==> final(tokens).progressed(old(tokens)) && located_from(r->Ok_0, old(tokens)), //@O C07.O-5_argument_span_well_formed,
        r is Err ==> diag_ok(r->Err_0, byte_len(old(tokens).source)), //@O C07.O-7_diagnostic_location_inside_literal
//@closure 1 params="tokens: &mut PeekableLexer<'_>" ret="cr: Result<SelectionFieldArgument, Diagnostic>"
            requires old(tokens).inv(),
            ensures final(tokens).inv(), final(tokens).same_literal(old(tokens)), final(tokens).monotone(old(tokens)),
                cr is Ok ==> final(tokens).progressed(old(tokens)),
                cr is Err ==> diag_ok(cr->Err_0, byte_len(old(tokens).source)),
//@end

//@fn rel=crates/isograph_lang_parser/src/parse_iso_literal.rs name=parse_optional_arguments vis=pub ret=r serves=C07 prefix="#[verifier::exec_allows_no_decreases_clause]"
//@rw R19 R4
//@hsub "tokens: &mut PeekableLexer," => "tokens: &mut PeekableLexer<'_>,"
//@contract
    requires old(tokens).inv(),
    ensures
        final(tokens).inv(), //@O C07.O-5_parse_optional_arguments_preserves_cursor_invariant
        final(tokens).same_literal(old(tokens)), final(tokens).monotone(old(tokens)),
        r is Err ==> diag_ok(r->Err_0, byte_len(old(tokens).source)), //@O C07.O-7_diagnostic_location_inside_literal
//@end

//@fn rel=crates/isograph_lang_parser/src/parse_iso_literal.rs name=parse_object_entry vis=pub ret=r serves=C07 prefix="#[verifier::exec_allows_no_decreases_clause]"
//@rw R4
//@hsub "tokens: &mut PeekableLexer," => "tokens: &mut PeekableLexer<'_>,"
//@contract
    requires old(tokens).inv(),
    ensures
        final(tokens).inv(), //@O C07.O-5_parse_object_entry_preserves_cursor_invariant
        final(tokens).same_literal(old(tokens)), final(tokens).monotone(old(tokens)),
        r is Ok ==> final(tokens).progressed(old(tokens)),
        r is Err ==> diag_ok(r->Err_0, byte_len(old(tokens).source)), //@O C07.O-7_diagnostic_location_inside_literal
//@end

//@fn rel=crates/isograph_lang_parser/src/parse_iso_literal.rs name=parse_directives vis=pub ret=r serves=C07 prefix="#[verifier::exec_allows_no_decreases_clause]"
//@rw R19 R16 R4
//@hsub "tokens: &mut PeekableLexer," => "tokens: &mut PeekableLexer<'_>,"
//@contract
    requires old(tokens).inv(),
    ensures
        final(tokens).inv(), //@O C07.O-5_parse_directives_preserves_cursor_invariant
        final(tokens).same_literal(old(tokens)), final(tokens).monotone(old(tokens)),
        r is Ok ==> r->Ok_0.location.span.start <= r->Ok_0.location.span.end
            && r->Ok_0.location.span.end <= byte_len(old(tokens).source), //@O C07.O-5_directives_span_well_formed,
        r is Err ==> diag_ok(r->Err_0, byte_len(old(tokens).source)), //@O C07.O-7_diagnostic_location_inside_literal
//@closure 1 params="tokens: &mut PeekableLexer<'_>" ret="cr: Result<Option<Vec<WithEmbeddedLocation<IsographFieldDirective>>>, Diagnostic>"
            requires old(tokens).inv(),
            ensures final(tokens).inv(), final(tokens).same_literal(old(tokens)), final(tokens).monotone(old(tokens)),
                cr is Ok && cr->Ok_0 is Some ==> final(tokens).progressed(old(tokens)),
                cr is Ok && cr->Ok_0 is None ==> final(tokens).current.span.start == old(tokens).current.span.start,
                cr is Err ==> diag_ok(cr->Err_0, byte_len(old(tokens).source)),
//@loop 1
                invariant
                    tokens.inv(), tokens.same_literal(old(tokens)), tokens.monotone(old(tokens)),
                    directives@.len() > 0 ==> tokens.progressed(old(tokens)),
                    directives@.len() == 0 ==> tokens.current.span.start == old(tokens).current.span.start,
//@closure 2 params="" ret="d: WithEmbeddedLocation<Vec<WithEmbeddedLocation<IsographFieldDirective>>>"
            ensures d.location.span.start == 0 && d.location.span.end == 0,
//@end

//@fn rel=crates/isograph_lang_parser/src/parse_iso_literal.rs name=parse_selection vis=pub ret=r serves=C07 prefix="#[verifier::exec_allows_no_decreases_clause]"
//@rw R17 R4
//@contract
    requires old(tokens).inv(),
    ensures
        final(tokens).inv(), //@O C07.O-5_parse_selection_preserves_cursor_invariant
        final(tokens).same_literal(old(tokens)), final(tokens).monotone(old(tokens)),
        r is Ok ==> final(tokens).progressed(old(tokens)) && located_from(r->Ok_0, old(tokens)), //@O C07.O-5_selection_span_well_formed,
        r is Err ==> diag_ok(r->Err_0, byte_len(old(tokens).source)), //@O C07.O-7_diagnostic_location_inside_literal
//@closure 1 params="tokens: &mut PeekableLexer<'_>" ret="cr: Result<Selection, Diagnostic>"
            requires old(tokens).inv(),
            ensures final(tokens).inv(), final(tokens).same_literal(old(tokens)), final(tokens).monotone(old(tokens)),
                cr is Ok ==> final(tokens).progressed(old(tokens)),
                cr is Err ==> diag_ok(cr->Err_0, byte_len(old(tokens).source)),
//@end

// ---- variable definitions -------------------------------------------------------------
#[derive(Clone, Copy)] pub struct VariableName(pub StringKey);
impl From<StringKey> for VariableName { #[verifier::external_body] fn from(k: StringKey) -> Self { VariableName(k) } }
#[derive(Clone, Copy)] pub struct VariableNameWrapper(pub VariableName);
impl From<VariableName> for VariableNameWrapper { #[verifier::external_body] fn from(k: VariableName) -> Self { VariableNameWrapper(k) } }
//@item rel=crates/graphql_lang_types/src/graphql_type_annotation.rs kind=enum name=GraphQLTypeAnnotation prefix="pub"
//@item rel=crates/graphql_lang_types/src/graphql_type_annotation.rs kind=enum name=GraphQLNonNullTypeAnnotation prefix="pub"
//@item rel=crates/graphql_lang_types/src/graphql_type_annotation.rs kind=struct name=GraphQLNamedTypeAnnotation prefix="pub"
//@item rel=crates/graphql_lang_types/src/graphql_type_annotation.rs kind=struct name=GraphQLListTypeAnnotation prefix="pub"
#[verifier::external_body]
pub struct TypeAnnotationDeclaration { p: core::marker::PhantomData<u8> }
impl TypeAnnotationDeclaration {
    #[verifier::external_body]
    pub fn from_graphql_type_annotation(t: GraphQLTypeAnnotation) -> TypeAnnotationDeclaration { unimplemented!() }
}
#[verifier::external_body]
#[verifier::reject_recursive_types(TLocation)]
pub struct ConstantValueInner<TLocation> { p: core::marker::PhantomData<TLocation> }
pub type ConstantValue = ConstantValueInner<EmbeddedLocation>;
/// `non_constant_value.item.try_into()` (TryFrom<NonConstantValue> for ConstantValue)
#[verifier::external_body]
pub fn constant_value_of(v: NonConstantValue) -> Result<ConstantValue, VariableNameWrapper> { unimplemented!() }
//@item rel=crates/isograph_lang_types/src/declarations/variable_declaration.rs kind=struct name=VariableDeclarationInner prefix="#[verifier::reject_recursive_types(TLocation)] pub"
pub type VariableDeclaration = VariableDeclarationInner<EmbeddedLocation>;


//@fn rel=crates/isograph_lang_parser/src/parse_iso_literal.rs name=parse_optional_default_value vis=pub ret=r serves=C07 prefix="#[verifier::exec_allows_no_decreases_clause]"
//@rw R6b R15 R16 R4
//@sub "non_constant_value\.item\.try_into\(\)" => "constant_value_of(non_constant_value.item)" n=1
//@contract
    requires old(tokens).inv(),
    ensures
        final(tokens).inv(), //@O C07.O-5_parse_optional_default_value_preserves_cursor_invariant
        final(tokens).same_literal(old(tokens)), final(tokens).monotone(old(tokens)),
        r is Err ==> diag_ok(r->Err_0, byte_len(old(tokens).source)), //@O C07.O-7_diagnostic_location_inside_literal
//@end

//@fn rel=crates/isograph_lang_parser/src/parse_iso_literal.rs name=parse_variable_definition vis=pub ret=r serves=C07 prefix="#[verifier::exec_allows_no_decreases_clause]"
//@rw R4
//@contract
    requires old(tokens).inv(),
    ensures
        final(tokens).inv(), //@O C07.O-5_parse_variable_definition_preserves_cursor_invariant
        final(tokens).same_literal(old(tokens)), final(tokens).monotone(old(tokens)),
        r is Ok ==> final(tokens).progressed(old(tokens)) && located_from(r->Ok_0, old(tokens)), //@O C07.O-5_variable_definition_span_well_formed,
        r is Err ==> diag_ok(r->Err_0, byte_len(old(tokens).source)), //@O C07.O-7_diagnostic_location_inside_literal
//@closure 1 params="tokens: &mut PeekableLexer<'_>" ret="cr: Result<VariableDeclaration, Diagnostic>"
            requires old(tokens).inv(),
            ensures final(tokens).inv(), final(tokens).same_literal(old(tokens)), final(tokens).monotone(old(tokens)),
                cr is Ok ==> final(tokens).progressed(old(tokens)),
                cr is Err ==> diag_ok(cr->Err_0, byte_len(old(tokens).source)),
//@end

//@fn rel=crates/isograph_lang_parser/src/parse_iso_literal.rs name=parse_variable_definitions vis=pub ret=r serves=C07 prefix="#[verifier::exec_allows_no_decreases_clause]"
//@rw R19 R4
//@hsub "tokens: &mut PeekableLexer," => "tokens: &mut PeekableLexer<'_>,"
//@contract
    requires old(tokens).inv(),
    ensures
        final(tokens).inv(), //@O C07.O-5_parse_variable_definitions_preserves_cursor_invariant
        final(tokens).same_literal(old(tokens)), final(tokens).monotone(old(tokens)),
        r is Err ==> diag_ok(r->Err_0, byte_len(old(tokens).source)), //@O C07.O-7_diagnostic_location_inside_literal
//@closure 1 params="item: &mut PeekableLexer<'_>" ret="cr: DiagnosticResult<WithEmbeddedLocation<VariableDeclaration>>"
            requires old(item).inv(),
            ensures final(item).inv(), final(item).same_literal(old(item)), final(item).monotone(old(item)),
                cr is Err ==> diag_ok(cr->Err_0, byte_len(old(item).source)),
//@end

//@fn rel=crates/isograph_lang_parser/src/parse_iso_literal.rs name=parse_client_pointer_target_type vis=pub ret=r serves=C07 prefix="#[verifier::exec_allows_no_decreases_clause]"
//@rw R15 R16 R4
//@sub "keyword\.item != \"to\"" => "!str_eq(keyword.item, \"to\")" n=1
//@contract
    requires old(tokens).inv(),
    ensures
        final(tokens).inv(), //@O C07.O-5_parse_client_pointer_target_type_preserves_cursor_invariant
        final(tokens).same_literal(old(tokens)), final(tokens).monotone(old(tokens)),
        r is Ok ==> final(tokens).progressed(old(tokens)),
        r is Err ==> diag_ok(r->Err_0, byte_len(old(tokens).source)), //@O C07.O-7_diagnostic_location_inside_literal
//@end

// ---- the three declarations and parse_iso_literal ---------------------------------------
#[derive(Clone, Copy)] pub struct EntityName(pub StringKey);
impl From<StringKey> for EntityName { #[verifier::external_body] fn from(k: StringKey) -> Self { EntityName(k) } }
#[derive(Clone, Copy)] pub struct EntityNameWrapper(pub EntityName);
#[derive(Clone, Copy)] pub struct ClientScalarSelectableName(pub StringKey);
impl From<StringKey> for ClientScalarSelectableName { #[verifier::external_body] fn from(k: StringKey) -> Self { ClientScalarSelectableName(k) } }
#[derive(Clone, Copy)] pub struct ClientScalarSelectableNameWrapper(pub ClientScalarSelectableName);
impl From<SelectableName> for ClientScalarSelectableNameWrapper { #[verifier::external_body] fn from(k: SelectableName) -> Self { unimplemented!() } }
#[derive(Clone, Copy)] pub struct ClientObjectSelectableNameWrapper(pub StringKey);
impl From<SelectableName> for ClientObjectSelectableNameWrapper { #[verifier::external_body] fn from(k: SelectableName) -> Self { unimplemented!() } }
#[derive(Clone, Copy)] pub struct ConstExportName(pub StringKey);
impl From<StringKey> for ConstExportName { #[verifier::external_body] fn from(k: StringKey) -> Self { ConstExportName(k) } }
#[derive(Clone, Copy)] pub struct IsoLiteralText(pub StringKey);
impl From<StringKey> for IsoLiteralText { #[verifier::external_body] fn from(k: StringKey) -> Self { IsoLiteralText(k) } }
#[derive(Clone, Copy)] pub struct RelativePathToSourceFile(pub StringKey);
#[verifier::external_body]
pub struct Description { p: core::marker::PhantomData<u8> }
#[verifier::external_body]
pub fn leftover_tokens_diagnostic(location: Location) -> (r: Diagnostic) ensures r.loc() == Some(location) { unimplemented!() }
#[verifier::external_body]
pub fn expected_selection_set_diagnostic(location: Location) -> (r: Diagnostic) ensures r.loc() == Some(location) { unimplemented!() }
#[verifier::external_body]
pub fn expected_literal_to_be_exported_diagnostic(literal_type: &str, suggested_const_export_name: SelectableName, location: Location) -> (r: Diagnostic) ensures r.loc() == Some(location) { unimplemented!() }
// ---- description.rs: optional description in front of a selection set ----------------------
#[derive(Clone, Copy)] pub struct DescriptionValue(pub StringKey);
impl From<StringKey> for DescriptionValue { #[verifier::external_body] fn from(k: StringKey) -> Self { DescriptionValue(k) } }
impl From<DescriptionValue> for Description { #[verifier::external_body] fn from(k: DescriptionValue) -> Self { unimplemented!() } }
/// clean_block_string_literal (description.rs): cuts the `"""` off both ends with
/// `&source[3..source.len() - 3]` and re-indents the lines (iterator code that cannot panic;
/// not modelled). Its slicing precondition is what is carried here.
#[verifier::external_body]
pub fn clean_block_string_literal(source: &str) -> (r: String)
    requires byte_len(source) >= 6, //@O C07.O-8_block_string_text_comes_with_both_triple_quotes
{ unimplemented!() }
#[verifier::external_body]
pub fn intern_string(s: String) -> StringKey { unimplemented!() }

/// the slicing at the start of the real clean_block_string_literal: in range for every block
/// string token (which comes with both `"""`)
pub fn block_string_inner<'a>(source: &'a str) -> (r: &'a str)
    requires byte_len(source) >= 6,
    ensures byte_len(r) == byte_len(source) - 6, //@O C07.O-8_block_string_quotes_are_cut_inside_the_token
{
//@expr rel=crates/isograph_lang_parser/src/description.rs fn=clean_block_string_literal start="&source[" until=";" block=block_string_inner serves=C07 sub="&source\[([^\]]*?)\.\.([^\]]*?)\]=>str_slice(source, \1, \2)" sub2="source\.len\(\)=>str_len(source)"
}
//@fn rel=crates/isograph_lang_parser/src/description.rs name=parse_single_line_description vis=pub ret=r serves=C07
//@rw R17
//@sub "source_with_quotes\[([^\]]*?)\.\.([^\]]*?)\]\s*\.intern\(\)" => "intern_str(str_slice(source_with_quotes, \1, \2))" n=1
//@sub "source_with_quotes\.len\(\)" => "str_len(source_with_quotes)" n=*
//@contract
    requires old(tokens).inv(),
    ensures final(tokens).inv(), final(tokens).same_literal(old(tokens)), final(tokens).monotone(old(tokens)), //@O C07.O-8_parse_single_line_description_preserves_cursor_invariant
//@closure 1 params="parsed_str: WithEmbeddedLocation<&str>" ret="o: WithEmbeddedLocation<DescriptionValue>"
            requires byte_len(parsed_str.item) >= 2,
//@closure 2 params="source_with_quotes: &str" ret="v: DescriptionValue"
            requires byte_len(source_with_quotes) >= 2, //@O C07.O-8_description_quotes_are_cut_inside_the_token
//@end

//@fn rel=crates/isograph_lang_parser/src/description.rs name=parse_multiline_description vis=pub ret=r serves=C07
//@rw R17
//@sub "clean_block_string_literal\(unparsed_text\)\.intern\(\)" => "intern_string(clean_block_string_literal(unparsed_text))" n=1
//@contract
    requires old(tokens).inv(),
    ensures final(tokens).inv(), final(tokens).same_literal(old(tokens)), final(tokens).monotone(old(tokens)), //@O C07.O-8_parse_multiline_description_preserves_cursor_invariant
//@closure 1 params="parsed_str: WithEmbeddedLocation<&str>" ret="o: WithEmbeddedLocation<DescriptionValue>"
            requires byte_len(parsed_str.item) >= 6,
//@closure 2 params="unparsed_text: &str" ret="v: DescriptionValue"
            requires byte_len(unparsed_text) >= 6,
//@end

//@fn rel=crates/isograph_lang_parser/src/description.rs name=parse_optional_description vis=pub ret=r serves=C07
//@rw R21
//@contract
    requires old(tokens).inv(),
    ensures final(tokens).inv(), final(tokens).same_literal(old(tokens)), final(tokens).monotone(old(tokens)), //@O C07.O-8_parse_optional_description_preserves_cursor_invariant
//@end
//@item rel=crates/isograph_lang_types/src/declarations/entrypoint_declaration.rs kind=struct name=EntrypointDeclaration prefix="pub"
//@item rel=crates/isograph_lang_types/src/declarations/client_selectable_declaration.rs kind=struct name=ClientFieldDeclaration prefix="pub"
//@item rel=crates/isograph_lang_types/src/declarations/client_selectable_declaration.rs kind=struct name=ClientPointerDeclaration prefix="pub"

//@fn rel=crates/isograph_lang_parser/src/parse_iso_literal.rs name=parse_iso_entrypoint_declaration vis=pub ret=r serves=C07 prefix="#[verifier::exec_allows_no_decreases_clause]"
//@sub "dot\.map\(\|_\| \(\)\)" => "dot.map(|_d: IsographLangTokenKind| ())" n=1
//@sub "\.map\(EntityNameWrapper\)" => ".map(|v| EntityNameWrapper(v))" n=*
//@sub "\.map\(ClientScalarSelectableNameWrapper\)" => ".map(|v| ClientScalarSelectableNameWrapper(v))" n=*
//@rw R16 R4
//@contract
    requires old(tokens).inv(),
    ensures
        final(tokens).inv(), //@O C07.O-5_parse_entrypoint_declaration_preserves_cursor_invariant
        r is Ok ==> located_from(r->Ok_0, old(tokens)), //@O C07.O-5_entrypoint_declaration_span_well_formed,
        r is Err ==> diag_ok(r->Err_0, byte_len(old(tokens).source)), //@O C07.O-7_diagnostic_location_inside_literal
//@closure 1 params="tokens: &mut PeekableLexer<'_>" ret="cr: Result<EntrypointDeclaration, Diagnostic>"
            requires old(tokens).inv(),
            ensures final(tokens).inv(), final(tokens).same_literal(old(tokens)), final(tokens).monotone(old(tokens)),
                cr is Ok ==> final(tokens).progressed(old(tokens)),
                cr is Err ==> diag_ok(cr->Err_0, byte_len(old(tokens).source)),
//@end

//@fn rel=crates/isograph_lang_parser/src/parse_iso_literal.rs name=parse_client_field_declaration_inner vis=pub ret=r serves=C07 prefix="#[verifier::exec_allows_no_decreases_clause]"
//@sub "From::from\(client_field_name\.location\)" => "Location::from(client_field_name.location)" n=1
//@sub "\.map\(EntityNameWrapper\)" => ".map(|v| EntityNameWrapper(v))" n=*
//@rw R17 R16 R4
//@sub "const_export_name\.intern\(\)" => "intern_str(const_export_name)" n=1
//@contract
    requires old(tokens).inv(),
    ensures
        final(tokens).inv(), //@O C07.O-5_parse_client_field_declaration_preserves_cursor_invariant
        final(tokens).same_literal(old(tokens)), final(tokens).monotone(old(tokens)),
        r is Ok ==> located_from(r->Ok_0, old(tokens)), //@O C07.O-5_client_field_declaration_span_well_formed,
        r is Err ==> diag_ok(r->Err_0, byte_len(old(tokens).source)), //@O C07.O-7_diagnostic_location_inside_literal
//@closure 1 params="tokens: &mut PeekableLexer<'_>" ret="cr: Result<ClientFieldDeclaration, Diagnostic>"
            requires old(tokens).inv(),
            ensures final(tokens).inv(), final(tokens).same_literal(old(tokens)), final(tokens).monotone(old(tokens)),
                cr is Ok ==> final(tokens).progressed(old(tokens)),
                cr is Err ==> diag_ok(cr->Err_0, byte_len(old(tokens).source)),
//@closure 4 params="" ret="d: Diagnostic"
            ensures d.loc() == Some(Location::Embedded(EmbeddedLocation { text_source: tokens.text_source, span: Span { start: 0, end: 0 } })),
//@closure 5 params="" ret="d: Diagnostic"
            ensures d.loc() == Some(Location::Embedded(client_field_name.location)),
//@end

//@fn rel=crates/isograph_lang_parser/src/parse_iso_literal.rs name=parse_iso_client_field_declaration vis=pub ret=r serves=C07 prefix="#[verifier::exec_allows_no_decreases_clause]"
//@rw R4
//@contract
    requires old(tokens).inv(),
    ensures
        final(tokens).inv(), //@O C07.O-5_parse_iso_client_field_declaration_preserves_cursor_invariant
        r is Ok ==> located_from(r->Ok_0, old(tokens)),
        r is Err ==> diag_ok(r->Err_0, byte_len(old(tokens).source)), //@O C07.O-7_diagnostic_location_inside_literal
//@end

//@fn rel=crates/isograph_lang_parser/src/parse_iso_literal.rs name=parse_client_pointer_declaration_inner vis=pub ret=r serves=C07 prefix="#[verifier::exec_allows_no_decreases_clause]"
//@sub "From::from\(client_pointer_name\.location\)" => "Location::from(client_pointer_name.location)" n=1
//@sub "\.map\(EntityNameWrapper\)" => ".map(|v| EntityNameWrapper(v))" n=*
//@rw R17 R16 R4
//@sub "const_export_name\.intern\(\)" => "intern_str(const_export_name)" n=1
//@contract
    requires old(tokens).inv(),
    ensures
        final(tokens).inv(), //@O C07.O-5_parse_client_pointer_declaration_preserves_cursor_invariant
        final(tokens).same_literal(old(tokens)), final(tokens).monotone(old(tokens)),
        r is Ok ==> located_from(r->Ok_0, old(tokens)), //@O C07.O-5_client_pointer_declaration_span_well_formed,
        r is Err ==> diag_ok(r->Err_0, byte_len(old(tokens).source)), //@O C07.O-7_diagnostic_location_inside_literal
//@closure 1 params="tokens: &mut PeekableLexer<'_>" ret="cr: Result<ClientPointerDeclaration, Diagnostic>"
            requires old(tokens).inv(),
            ensures final(tokens).inv(), final(tokens).same_literal(old(tokens)), final(tokens).monotone(old(tokens)),
                cr is Ok ==> final(tokens).progressed(old(tokens)),
                cr is Err ==> diag_ok(cr->Err_0, byte_len(old(tokens).source)),
//@closure 4 params="" ret="d: Diagnostic"
            ensures d.loc() == Some(Location::Embedded(EmbeddedLocation { text_source: tokens.text_source, span: Span { start: 0, end: 0 } })),
//@closure 5 params="" ret="d: Diagnostic"
            ensures d.loc() == Some(Location::Embedded(client_pointer_name.location)),
//@end

//@fn rel=crates/isograph_lang_parser/src/parse_iso_literal.rs name=parse_iso_client_pointer_declaration vis=pub ret=r serves=C07 prefix="#[verifier::exec_allows_no_decreases_clause]"
//@rw R4
//@contract
    requires old(tokens).inv(),
    ensures
        final(tokens).inv(), //@O C07.O-5_parse_iso_client_pointer_declaration_preserves_cursor_invariant
        r is Ok ==> located_from(r->Ok_0, old(tokens)),
        r is Err ==> diag_ok(r->Err_0, byte_len(old(tokens).source)), //@O C07.O-7_diagnostic_location_inside_literal
//@end

//@item rel=crates/isograph_lang_parser/src/parse_iso_literal.rs kind=enum name=IsoLiteralExtractionResult prefix="pub"
//@fn rel=crates/isograph_lang_parser/src/parse_iso_literal.rs name=parse_iso_literal vis=pub ret=r serves=C07 prefix="#[verifier::exec_allows_no_decreases_clause]"
//@rw R15 R16 R17 R4
//@sub "PeekableLexer::new\(&iso_literal_text, text_source\)" => "PeekableLexer::new(string_as_str(&iso_literal_text), text_source)" n=1
//@sub "\(&iso_literal_text\)\.intern\(\)" => "intern_str(string_as_str(&iso_literal_text))" n=1
//@sub "const_export_name\.as_deref\(\)" => "opt_as_deref(&const_export_name)" n=*
//@contract
    // iso literals are far below 4 GiB (precondition of the u32 spans)
    requires string_byte_len(&iso_literal_text) <= u32::MAX,
        ensures r is Err ==> diag_ok(r->Err_0, string_byte_len(&iso_literal_text)), //@O C07.O-7_diagnostic_location_inside_literal
//@end

// ---- parse_non_constant_value / parse_type_annotation as a whole (R22) --------------------
//@fn rel=crates/isograph_lang_parser/src/parse_iso_literal.rs name=parse_non_constant_value vis=pub ret=r serves=C07 prefix="#[verifier::exec_allows_no_decreases_clause] #[verifier::rlimit(150)] #[verifier::spinoff_prover]"
//@rw R15 R16 R17 R4
//@hsub "tokens: &mut PeekableLexer," => "tokens: &mut PeekableLexer<'_>,"
//@sub "name\.map\(NonConstantValue::Variable\)" => "name.map(|v| NonConstantValue::Variable(v))" n=1
//@sub "string\.map\(NonConstantValue::String\)" => "string.map(|v| NonConstantValue::String(v))" n=1
//@sub "source_with_quotes\[([^\]]*?)\.\.([^\]]*?)\]\s*\.intern\(\)" => "intern_str(str_slice(source_with_quotes, \1, \2))" n=1
//@sub "source_with_quotes\.len\(\)" => "str_len(source_with_quotes)" n=*
//@sub "number\.parse\(\)" => "parse_i64(number)" n=1
//@sub "bool\.parse::<bool>\(\)" => "parse_bool(bool)" n=1
//@sub "parse_object_entry," => "|t: &mut PeekableLexer<'_>| -> (o: DiagnosticResult<NameValuePair<ValueKeyName, NonConstantValue>>) requires old(t).inv() ensures final(t).inv(), final(t).same_literal(old(t)), final(t).monotone(old(t)), o is Err ==> diag_ok(o->Err_0, byte_len(old(t).source)) { parse_object_entry(t) }," n=1
//@altsplit var=tokens ty="&mut PeekableLexer<'_>" ret="Result<WithEmbeddedLocation<NonConstantValue>, Diagnostic>"
            requires old(tokens).inv(),
            ensures final(tokens).inv(), final(tokens).same_literal(old(tokens)), final(tokens).monotone(old(tokens)),
                alt is Ok ==> final(tokens).progressed(old(tokens)) && located_from(alt->Ok_0, old(tokens)),
                alt is Err ==> diag_ok(alt->Err_0, byte_len(old(tokens).source)),
//@contract
    requires old(tokens).inv(),
    ensures
        final(tokens).inv(), //@O C07.O-6_parse_non_constant_value_preserves_cursor_invariant
        final(tokens).same_literal(old(tokens)), final(tokens).monotone(old(tokens)),
        r is Ok ==> final(tokens).progressed(old(tokens)) && located_from(r->Ok_0, old(tokens)), //@O C07.O-6_a_value_consumes_a_token_and_is_located_inside_the_literal
        r is Err ==> diag_ok(r->Err_0, byte_len(old(tokens).source)), //@O C07.O-7_diagnostic_location_inside_literal
//@closure 4 params="parsed_str: WithEmbeddedLocation<&str>" ret="o: WithEmbeddedLocation<StringLiteralValue>"
            requires byte_len(parsed_str.item) >= 2,
            ensures o.location == parsed_str.location,
//@closure 5 params="source_with_quotes: &str" ret="v: StringLiteralValue"
            requires byte_len(source_with_quotes) >= 2, //@O C07.O-6_string_value_quotes_are_cut_inside_the_token
//@closure 8 params="number: &str" ret="o: Result<NonConstantValue, Diagnostic>"
            ensures o is Err ==> o->Err_0.loc() == Some(Location::Embedded(embedded_location)),
//@closure 12 params="bool_or_null: &str" ret="o: Result<NonConstantValue, Diagnostic>"
            ensures o is Err ==> o->Err_0.loc() == Some(Location::Embedded(embedded_location)),
//@end

//@fn rel=crates/isograph_lang_parser/src/parse_iso_literal.rs name=parse_type_annotation vis=pub ret=r serves=C07 prefix="#[verifier::exec_allows_no_decreases_clause]"
//@rw R15 R16 R17 R4
//@hsub "tokens: &mut PeekableLexer," => "tokens: &mut PeekableLexer<'_>,"
//@altsplit var=tokens ty="&mut PeekableLexer<'_>" ret="Result<GraphQLTypeAnnotation, Diagnostic>"
            requires old(tokens).inv(),
            ensures final(tokens).inv(), final(tokens).same_literal(old(tokens)), final(tokens).monotone(old(tokens)),
                alt is Ok ==> final(tokens).progressed(old(tokens)),
                alt is Err ==> diag_ok(alt->Err_0, byte_len(old(tokens).source)),
//@contract
    requires old(tokens).inv(),
    ensures
        final(tokens).inv(), //@O C07.O-6_parse_type_annotation_preserves_cursor_invariant
        final(tokens).same_literal(old(tokens)), final(tokens).monotone(old(tokens)),
        r is Ok ==> final(tokens).progressed(old(tokens)) && located_from(r->Ok_0, old(tokens)), //@O C07.O-6_type_annotation_span_well_formed
        r is Err ==> diag_ok(r->Err_0, byte_len(old(tokens).source)), //@O C07.O-7_diagnostic_location_inside_literal
//@closure 1 params="tokens: &mut PeekableLexer<'_>" ret="cr: Result<GraphQLTypeAnnotation, Diagnostic>"
            requires old(tokens).inv(),
            ensures final(tokens).inv(), final(tokens).same_literal(old(tokens)), final(tokens).monotone(old(tokens)),
                cr is Ok ==> final(tokens).progressed(old(tokens)),
                cr is Err ==> diag_ok(cr->Err_0, byte_len(old(tokens).source)),
//@end

// ---- the two glue combinators of the try-alternatives idiom ----------------------------------
// the two glue combinators themselves (generic, no cursor): to_control_flow turns Ok into
// Break and Err into Continue, from_control_flow turns them back
//@fn rel=crates/isograph_lang_parser/src/parse_iso_literal.rs name=to_control_flow vis=pub ret=r serves=C07 prefix="#[verifier::exec_allows_no_decreases_clause]"
//@hsub "result: impl FnOnce\(\) -> Result<T, E>" => "result: F"
//@hsub "to_control_flow<T, E>" => "to_control_flow<T, E, F: FnOnce() -> Result<T, E>>"
//@contract
    requires result.requires(()),
    ensures match r { ControlFlow::Break(t) => result.ensures((), Ok(t)), ControlFlow::Continue(e) => result.ensures((), Err(e)) }, //@O C07.O-6_to_control_flow_is_the_callbacks_result
//@end
//@fn rel=crates/isograph_lang_parser/src/parse_iso_literal.rs name=from_control_flow vis=pub ret=r serves=C07 prefix="#[verifier::exec_allows_no_decreases_clause]"
//@hsub "control_flow: impl FnOnce\(\) -> ControlFlow<T, E>" => "control_flow: F"
//@hsub "from_control_flow<T, E>" => "from_control_flow<T, E, F: FnOnce() -> ControlFlow<T, E>>"
//@contract
    requires control_flow.requires(()),
    ensures match r { Ok(t) => control_flow.ensures((), ControlFlow::Break(t)), Err(e) => control_flow.ensures((), ControlFlow::Continue(e)) }, //@O C07.O-6_from_control_flow_is_the_callbacks_result
//@end

// ---- the alternatives once more, each as a function of its own: cheap, and a broken
// alternative fails here with a named obligation even if the composed function above runs
// into the solver's resource limit
/// alternative 1 of parse_non_constant_value: `$name`
pub fn non_constant_value_alt_variable(tokens: &mut PeekableLexer<'_>) -> (r: Result<WithEmbeddedLocation<NonConstantValue>, Diagnostic>)
    requires old(tokens).inv(),
    ensures final(tokens).inv(), final(tokens).same_literal(old(tokens)), final(tokens).monotone(old(tokens)), //@O C07.O-6_value_alternative_variable_preserves_cursor_invariant
        r is Ok ==> final(tokens).progressed(old(tokens)),
        r is Err ==> diag_ok(r->Err_0, byte_len(old(tokens).source)), //@O C07.O-7_diagnostic_location_inside_literal
{
//@expr rel=crates/isograph_lang_parser/src/parse_iso_literal.rs fn=parse_non_constant_value start="to_control_flow::<_, Diagnostic>(|| {" skip="to_control_flow::<_, Diagnostic>(||" nth=0 block=non_constant_value_alt_variable serves=C07 sub="name\.map\(NonConstantValue::Variable\)=>name.map(|v| NonConstantValue::Variable(v))" rw=R4
}

/// alternative 2 of parse_non_constant_value: a string literal; the quotes are cut off with
/// `source_with_quotes[1..source_with_quotes.len() - 1]` (in range because a string token
/// comes with both quotes)
pub fn non_constant_value_alt_string(tokens: &mut PeekableLexer<'_>) -> (r: Result<WithEmbeddedLocation<NonConstantValue>, Diagnostic>)
    requires old(tokens).inv(),
    ensures final(tokens).inv(), final(tokens).same_literal(old(tokens)), final(tokens).monotone(old(tokens)), //@O C07.O-6_value_alternative_string_preserves_cursor_invariant
        r is Ok ==> final(tokens).progressed(old(tokens)),
        r is Err ==> diag_ok(r->Err_0, byte_len(old(tokens).source)), //@O C07.O-7_diagnostic_location_inside_literal
{
//@expr rel=crates/isograph_lang_parser/src/parse_iso_literal.rs fn=parse_non_constant_value start="to_control_flow::<_, Diagnostic>(|| {" skip="to_control_flow::<_, Diagnostic>(||" nth=1 block=non_constant_value_alt_string serves=C07 sub="source_with_quotes\[([^\]]*?)\.\.([^\]]*?)\]\s*\.intern\(\)\s*\.into\(\)=>From::from(intern_str(str_slice(source_with_quotes, \1, \2)))" sub5="source_with_quotes\.len\(\)=>str_len(source_with_quotes)" sub2="\|parsed_str\| \{=>|parsed_str: WithEmbeddedLocation<&str>| -> (o: WithEmbeddedLocation<StringLiteralValue>) requires byte_len(parsed_str.item) >= 2 {" sub3="\|source_with_quotes\| \{=>|source_with_quotes: &str| -> (v: StringLiteralValue) requires byte_len(source_with_quotes) >= 2 {" sub4="string\.map\(NonConstantValue::String\)=>string.map(|v| NonConstantValue::String(v))" rw=R4
}

/// alternative 3 of parse_non_constant_value: an integer literal (the conversion itself is
/// integer_literal_value above)
pub fn non_constant_value_alt_integer(tokens: &mut PeekableLexer<'_>) -> (r: Result<WithEmbeddedLocation<NonConstantValue>, Diagnostic>)
    requires old(tokens).inv(),
    ensures final(tokens).inv(), final(tokens).same_literal(old(tokens)), final(tokens).monotone(old(tokens)), //@O C07.O-6_value_alternative_integer_preserves_cursor_invariant
        r is Ok ==> final(tokens).progressed(old(tokens)) && located_from(r->Ok_0, old(tokens)),
        r is Err ==> diag_ok(r->Err_0, byte_len(old(tokens).source)), //@O C07.O-7_diagnostic_location_inside_literal
{
//@expr rel=crates/isograph_lang_parser/src/parse_iso_literal.rs fn=parse_non_constant_value start="to_control_flow::<_, Diagnostic>(|| {" skip="to_control_flow::<_, Diagnostic>(||" nth=2 block=non_constant_value_alt_integer serves=C07 sub="number\.parse\(\)=>parse_i64(number)" rw=R15,R4 closure1="number: &str ;; o: Result<NonConstantValue, Diagnostic> ;; ensures o is Err ==> o->Err_0.loc() == Some(Location::Embedded(embedded_location))"
}

/// alternative 5 of parse_non_constant_value: `null`, `true`, `false`
pub fn non_constant_value_alt_bool_or_null(tokens: &mut PeekableLexer<'_>) -> (r: Result<WithEmbeddedLocation<NonConstantValue>, Diagnostic>)
    requires old(tokens).inv(),
    ensures final(tokens).inv(), final(tokens).same_literal(old(tokens)), final(tokens).monotone(old(tokens)), //@O C07.O-6_value_alternative_bool_or_null_preserves_cursor_invariant
        r is Ok ==> final(tokens).progressed(old(tokens)) && located_from(r->Ok_0, old(tokens)),
        r is Err ==> diag_ok(r->Err_0, byte_len(old(tokens).source)), //@O C07.O-7_diagnostic_location_inside_literal
{
//@expr rel=crates/isograph_lang_parser/src/parse_iso_literal.rs fn=parse_non_constant_value start="to_control_flow(|| {" skip="to_control_flow(||" nth=0 block=non_constant_value_alt_bool_or_null serves=C07 sub="bool\.parse::<bool>\(\)=>parse_bool(bool)" rw=R15,R4 closure1="bool_or_null: &str ;; o: Result<NonConstantValue, Diagnostic> ;; ensures o is Err ==> o->Err_0.loc() == Some(Location::Embedded(embedded_location))"
}

/// alternative 4 of parse_non_constant_value: `{ key: value, .. }` — its span joins the
/// opening brace with the closing one (Span::join needs left.start <= right.end)
#[verifier::exec_allows_no_decreases_clause]
pub fn non_constant_value_alt_object(tokens: &mut PeekableLexer<'_>) -> (r: Result<WithEmbeddedLocation<NonConstantValue>, Diagnostic>)
    requires old(tokens).inv(),
    ensures final(tokens).inv(), final(tokens).same_literal(old(tokens)), final(tokens).monotone(old(tokens)), //@O C07.O-6_value_alternative_object_preserves_cursor_invariant
        r is Ok ==> final(tokens).progressed(old(tokens)) && located_from(r->Ok_0, old(tokens)), //@O C07.O-6_object_literal_span_well_formed
        r is Err ==> diag_ok(r->Err_0, byte_len(old(tokens).source)), //@O C07.O-7_diagnostic_location_inside_literal
{
//@expr rel=crates/isograph_lang_parser/src/parse_iso_literal.rs fn=parse_non_constant_value start="to_control_flow::<_, Diagnostic>(|| {" skip="to_control_flow::<_, Diagnostic>(||" nth=3 block=non_constant_value_alt_object serves=C07 rw=R16,R4
}

/// alternative 1 of parse_type_annotation (inside with_embedded_location_result): `Name` / `Name!`
pub fn type_annotation_alt_named(tokens: &mut PeekableLexer<'_>) -> (r: Result<GraphQLTypeAnnotation, Diagnostic>)
    requires old(tokens).inv(),
    ensures final(tokens).inv(), final(tokens).same_literal(old(tokens)), final(tokens).monotone(old(tokens)), //@O C07.O-6_type_alternative_named_preserves_cursor_invariant
        r is Ok ==> final(tokens).progressed(old(tokens)), //@O C07.O-6_type_alternative_named_consumes_a_token
        r is Err ==> diag_ok(r->Err_0, byte_len(old(tokens).source)), //@O C07.O-7_diagnostic_location_inside_literal
{
//@expr rel=crates/isograph_lang_parser/src/parse_iso_literal.rs fn=parse_type_annotation start="to_control_flow::<_, Diagnostic>(|| {" skip="to_control_flow::<_, Diagnostic>(||" nth=0 block=type_annotation_alt_named serves=C07 rw=R4
}

/// alternative 2 of parse_type_annotation: `[Type]` / `[Type]!`
#[verifier::exec_allows_no_decreases_clause]
pub fn type_annotation_alt_list(tokens: &mut PeekableLexer<'_>) -> (r: Result<GraphQLTypeAnnotation, Diagnostic>)
    requires old(tokens).inv(),
    ensures final(tokens).inv(), final(tokens).same_literal(old(tokens)), final(tokens).monotone(old(tokens)), //@O C07.O-6_type_alternative_list_preserves_cursor_invariant
        r is Ok ==> final(tokens).progressed(old(tokens)), //@O C07.O-6_type_alternative_list_consumes_a_token
        r is Err ==> diag_ok(r->Err_0, byte_len(old(tokens).source)), //@O C07.O-7_diagnostic_location_inside_literal
{
//@expr rel=crates/isograph_lang_parser/src/parse_iso_literal.rs fn=parse_type_annotation start="to_control_flow::<_, Diagnostic>(|| {" skip="to_control_flow::<_, Diagnostic>(||" nth=1 block=type_annotation_alt_list serves=C07 rw=R4
}

// ---- string / block-string callbacks of the logos lexer (token_kind.rs) ---------------
/// `i` is a char boundary of `s` (logos::Lexer::bump panics "Invalid Lexer bump" otherwise)
pub uninterp spec fn boundary(s: &str, i: nat) -> bool;
//@item rel=crates/isograph_lang_parser/src/token_kind.rs kind=enum name=StringToken prefix="pub"
//@item rel=crates/isograph_lang_parser/src/token_kind.rs kind=enum name=BlockStringToken prefix="#[derive(Copy, Clone)] pub"
/// the sub-lexers generated by #[derive(Logos)] for StringToken / BlockStringToken: any
/// variant may come out (Error is logos' catch-all for input no pattern matches); spans are
/// char boundaries inside the sub-lexer's source
#[verifier::external_body]
#[verifier::reject_recursive_types(T)]
pub struct SubLexer<'a, T> { p: core::marker::PhantomData<&'a T> }
impl<'a, T> SubLexer<'a, T> {
    pub uninterp spec fn src(&self) -> &'a str;
    pub uninterp spec fn span_start(&self) -> nat;
    pub uninterp spec fn span_end(&self) -> nat;
    #[verifier::external_body]
    pub fn next(&mut self) -> (r: Option<T>)
        ensures
            final(self).src() == old(self).src(),
            final(self).span_start() <= final(self).span_end() <= byte_len(final(self).src()),
            boundary(final(self).src(), final(self).span_start()) && boundary(final(self).src(), final(self).span_end()),
    { unimplemented!() }
    #[verifier::external_body]
    pub fn span(&self) -> (r: core::ops::Range<usize>) ensures r.start == self.span_start(), r.end == self.span_end() { unimplemented!() }
}
#[verifier::external_body]
pub fn string_lexer_for<'a>(s: &'a str) -> (r: SubLexer<'a, StringToken>) ensures r.src() == s { unimplemented!() }
#[verifier::external_body]
pub fn block_string_lexer_for<'a>(s: &'a str) -> (r: SubLexer<'a, BlockStringToken>) ensures r.src() == s { unimplemented!() }
impl<'source> Lexer<'source> {
    pub uninterp spec fn remainder_spec(&self) -> &'source str;
    #[verifier::external_body]
    pub fn remainder(&self) -> (r: &'source str) ensures r == self.remainder_spec() { unimplemented!() }
    /// logos::Lexer::bump: panics unless the new end is inside the source on a char boundary
    #[verifier::external_body]
    pub fn bump(&mut self, n: usize)
        requires n <= byte_len(old(self).remainder_spec()), boundary(old(self).remainder_spec(), n as nat),
    { unimplemented!() }
}

//@fn rel=crates/isograph_lang_parser/src/token_kind.rs name=lex_string vis=pub ret=r serves=C07 prefix="#[verifier::exec_allows_no_decreases_clause]"
//@hsub "Lexer<'_, IsographLangTokenKind>" => "Lexer<'_>"
//@sub "StringToken::lexer\(remainder\)" => "string_lexer_for(remainder)" n=1
//@contract
    // total: no bump outside the remainder or inside a character (C07: never panics)
//@loop 1
        invariant string_lexer.src() == lexer.remainder_spec(),
//@end

//@fn rel=crates/isograph_lang_parser/src/token_kind.rs name=lex_block_string vis=pub ret=r serves=C07 prefix="#[verifier::exec_allows_no_decreases_clause]"
//@hsub "Lexer<'_, IsographLangTokenKind>" => "Lexer<'_>"
//@sub "BlockStringToken::lexer\(remainder\)" => "block_string_lexer_for(remainder)" n=1
//@contract
    // total: no bump outside the remainder or inside a character, no unreachable!() (C07)
//@loop 1
        invariant string_lexer.src() == lexer.remainder_spec(),
//@end

// ---- integer literal conversion inside parse_non_constant_value (parse_iso_literal.rs) ----
/// `s` is an IntegerLiteral token: matches  -?(0|[1-9][0-9]*)  (token_kind.rs) — any number of digits
pub uninterp spec fn is_integer_literal(s: &str) -> bool;
/// str::parse::<i64>: Ok exactly when the decimal value fits into i64 (assumed contract)
pub uninterp spec fn fits_i64(s: &str) -> bool;
#[derive(Debug)]
pub struct ParseIntError { p: core::marker::PhantomData<u8> }
#[derive(Debug)]
pub struct ParseBoolError { p: core::marker::PhantomData<u8> }
/// str::parse::<bool>
#[verifier::external_body]
pub fn parse_bool(s: &str) -> Result<bool, ParseBoolError> { unimplemented!() }
#[verifier::external_body]
pub fn parse_i64(s: &str) -> (r: Result<i64, ParseIntError>) ensures (r is Ok) == fits_i64(s) { unimplemented!() }
impl Diagnostic {
    #[verifier::external_body]
    pub fn new(message: String, location: Option<Location>) -> (r: Diagnostic) ensures r.loc() == location { unimplemented!() }
}
#[verifier::external_body]
pub fn string_of(s: &str) -> String { unimplemented!() }
//@ifexpr rel=crates/isograph_lang_parser/src/parse_iso_literal.rs fn=parse_non_constant_value start="match number.parse()"
/// the value built for an IntegerLiteral token: the real `match number.parse() {..}` of
/// parse_non_constant_value — must not panic for ANY IntegerLiteral token, and must not
/// accept a literal whose value does not fit
pub fn integer_literal_value(number: &str, embedded_location: EmbeddedLocation) -> (r: Result<NonConstantValue, Diagnostic>)
    requires is_integer_literal(number),
    ensures (r is Ok) == fits_i64(number), //@O C07.O-3_integer_literal_is_value_or_diagnostic_never_panic
{
//@expr rel=crates/isograph_lang_parser/src/parse_iso_literal.rs fn=parse_non_constant_value start="match number.parse()" block=integer_literal_value serves=C07 sub="number\.parse\(\)=>parse_i64(number)" sub2="\"Integer literal is out of range\"\.to_string\(\)=>string_of(\"Integer literal is out of range\")" sub3="embedded_location\.to::<Location>\(\)=>Location::from(embedded_location)" rw=R2,R4
}

//@endif
//@ifnotexpr rel=crates/isograph_lang_parser/src/parse_iso_literal.rs fn=parse_non_constant_value start="match number.parse()"
/// other shape of the same code: the value is built directly from the parse result
pub fn integer_literal_value(number: &str) -> (r: NonConstantValue)
    requires is_integer_literal(number), //@O C07.O-3_integer_literal_is_value_or_diagnostic_never_panic
{
//@expr rel=crates/isograph_lang_parser/src/parse_iso_literal.rs fn=parse_non_constant_value start="NonConstantValue::Integer(" block=integer_literal_value serves=C07 sub="number\.parse\(\)=>parse_i64(number)" rw=R2
}
//@endif

} // verus!
fn main() {}
