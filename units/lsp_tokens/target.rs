// unit lsp_tokens — extracted Kani crate. Real text (pulled on every run) of
// isograph_lsp::semantic_tokens::{absolutize_relative_token, convert_absolute_token_to_lsp_token,
// delta_line_delta_start} and the AbsoluteIsographSemanticToken struct.
// Stand-ins: Span / WithEmbeddedLocation / IsographSemanticToken / lsp_types::SemanticToken
// reduced to the fields these functions touch.
#[derive(Clone, Copy, Debug, PartialEq, Eq)]
pub struct Span { pub start: u32, pub end: u32 }
#[derive(Clone, Copy, Debug)]
pub struct EmbeddedLocation { pub span: Span }
#[derive(Clone, Copy, Debug)]
pub struct WithEmbeddedLocation<T> { pub item: T, pub location: EmbeddedLocation }
#[derive(Clone, Copy, Debug, PartialEq, Eq)]
pub struct LspSemanticTokenType(pub u32);
#[derive(Clone, Copy, Debug, PartialEq, Eq)]
pub struct IsographSemanticToken { pub lsp_semantic_token: LspSemanticTokenType }
#[derive(Clone, Copy, Debug, PartialEq, Eq)]
pub struct LspSemanticToken { pub delta_line: u32, pub delta_start: u32, pub length: u32, pub token_type: u32, pub token_modifiers_bitset: u32 }

//@item rel=crates/isograph_lsp/src/semantic_tokens.rs kind=struct name=AbsoluteIsographSemanticToken prefix="#[derive(Debug)] pub"

//@fn rel=crates/isograph_lsp/src/semantic_tokens.rs name=absolutize_relative_token vis=pub serves=C23
//@rw R4
//@end

//@fn rel=crates/isograph_lsp/src/semantic_tokens.rs name=convert_absolute_token_to_lsp_token vis=pub serves=C23
//@rw R4
//@end

//@fn rel=crates/isograph_lsp/src/semantic_tokens.rs name=delta_line_delta_start vis=pub serves=C23
//@end

/// LSP tokens for ONE relative token of one literal: (delta_line, delta_start, length) each
pub fn api_tokens(page_content: &str, literal_start: u32, tok_start: u32, tok_end: u32) -> Vec<(u32, u32, u32)> {
    let relative = WithEmbeddedLocation {
        item: IsographSemanticToken { lsp_semantic_token: LspSemanticTokenType(1) },
        location: EmbeddedLocation { span: Span { start: tok_start, end: tok_end } },
    };
    let span = Span { start: literal_start, end: page_content.len() as u32 };
    let abs: Vec<AbsoluteIsographSemanticToken> = absolutize_relative_token(page_content, span, &relative).collect();
    convert_absolute_token_to_lsp_token(abs.into_iter(), page_content)
        .map(|t| (t.delta_line, t.delta_start, t.length))
        .collect()
}
