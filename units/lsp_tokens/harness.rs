//! C23: "Semantic tokens decode to non-overlapping, increasing ranges that each cover one
//! source token", under the protocol's UTF-16 column convention. One relative token of one
//! literal is pushed through the real absolutize_relative_token /
//! convert_absolute_token_to_lsp_token; the emitted LSP tokens are decoded as a client does
//! (running line/column) and compared with the pieces of the source token (split after each
//! line break, as the code intends): same line, same UTF-16 start column, UTF-16 length.
use super::src_kani::Src;
#[cfg(kani)]
use super::src_kani::KaniSrc;
use super::target::api_tokens;

#[cfg(verif_n6)]
pub const N: usize = 5;
#[cfg(not(verif_n6))]
pub const N: usize = 2;

fn utf16_len(b: &[u8]) -> u32 {
    let mut n = 0u32;
    let mut i = 0usize;
    while i < b.len() {
        let c = b[i];
        if c < 0x80 { n += 1; i += 1; } else if c < 0xE0 { n += 1; i += 2; } else if c < 0xF0 { n += 1; i += 3; } else { n += 2; i += 4; }
    }
    n
}
/// LSP (line, utf16 column) of byte offset `off`
fn lsp_pos(b: &[u8], off: usize) -> (u32, u32) {
    let mut line = 0u32;
    let mut start = 0usize;
    let mut i = 0usize;
    while i < off {
        if b[i] == b'\n' { line += 1; start = i + 1; }
        i += 1;
    }
    (line, utf16_len(&b[start..off]))
}

fn sym_text<'a, S: Src>(s: &mut S, buf: &'a mut [u8; N]) -> &'a str {
    let len = s.usize();
    s.assume(len <= N);
    let mut i = 0;
    while i < N {
        let c = s.u8();
        // letters, line break, and the bytes of 'é' (2-byte) — enough to separate bytes,
        // chars and UTF-16 units only when a 4-byte char is added (thorough tier)
        s.assume(c == b'a' || c == b'\n' || c == 0xC3 || c == 0xA9 || (cfg!(verif_n6) && (c == 0xF0 || c == 0x9F || c == 0x98 || c == 0x80)));
        buf[i] = c;
        i += 1;
    }
    match core::str::from_utf8(&buf[..len]) {
        Ok(t) => t,
        Err(_) => { s.assume(false); "" }
    }
}

/// C23.O-4 decoded LSP tokens == pieces of the source token
pub fn tokens_decode_to_source_pieces<S: Src>(s: &mut S) {
    let mut buf = [0u8; N];
    let page = sym_text(s, &mut buf);
    let b = page.as_bytes();
    let lit = s.usize();
    let a = s.usize();
    let e = s.usize();
    s.assume(lit <= page.len() && a < e && lit + e <= page.len());
    s.assume(page.is_char_boundary(lit) && page.is_char_boundary(lit + a) && page.is_char_boundary(lit + e));
    let toks = api_tokens(page, lit as u32, a as u32, e as u32);
    // decode like a client, compare with the pieces of page[lit+a .. lit+e]
    let mut line = 0u32;
    let mut col = 0u32;
    let mut piece_start = lit + a;
    let mut k = 0usize;
    while k < toks.len() {
        let (dl, ds, len) = toks[k];
        if dl > 0 { line += dl; col = ds; } else { col += ds; }
        assert!(piece_start < lit + e);
        // piece = up to and including the next '\n', or the end of the token
        let mut piece_end = piece_start;
        while piece_end < lit + e && b[piece_end] != b'\n' { piece_end += 1; }
        if piece_end < lit + e { piece_end += 1; }
        let (want_line, want_col) = lsp_pos(b, piece_start);
        assert!(line == want_line);
        assert!(col == want_col);
        assert!(len == utf16_len(&b[piece_start..piece_end]));
        piece_start = piece_end;
        k += 1;
    }
    assert!(piece_start == lit + e);
}

pub fn canary_tokens<S: Src>(s: &mut S) {
    let mut buf = [0u8; N];
    let page = sym_text(s, &mut buf);
    let toks = api_tokens(page, 0, 0, page.len() as u32);
    assert!(toks.len() == 0);
}

pub fn dispatch<S: Src>(name: &str, s: &mut S) -> bool {
    match name {
        "tokens_decode_to_source_pieces" => tokens_decode_to_source_pieces(s),
        _ => return false,
    }
    true
}

#[cfg(kani)]
mod proofs {
    use super::*;
    #[kani::proof]
    #[kani::unwind(5)]
    fn tokens_decode_to_source_pieces() { super::tokens_decode_to_source_pieces(&mut KaniSrc) }
    #[kani::proof]
    #[kani::unwind(5)]
    fn canary_tokens() { super::canary_tokens(&mut KaniSrc) }
}
