// unit overload_order_v — Verus. Real body of artifact_content::sort_field_name (extracted
// on every run) against assumed contracts for str::starts_with / str::cmp on the UTF-8
// bytes. Serves C24, UNBOUNDED: the comparator is a consistent strict total order on
// distinct names (so sort_by neither panics nor misplaces a pair) in which a name that has
// another name as a proper prefix sorts FIRST - the first matching overload pattern is then
// the one of the declaration itself.
use vstd::prelude::*;
use vstd::string::*;
use core::cmp::Ordering;
verus! {

// =====================================================================================
// Assumed contracts (trusted base; hand written)
// =====================================================================================
pub open spec fn is_prefix(p: Seq<u8>, s: Seq<u8>) -> bool {
    p.len() <= s.len() && s.subrange(0, p.len() as int) == p
}
/// std `impl Ord for str`: lexicographic comparison of the UTF-8 bytes, a proper prefix is smaller
pub open spec fn lex(a: Seq<u8>, b: Seq<u8>) -> Ordering
    decreases a.len()
{
    if a.len() == 0 { if b.len() == 0 { Ordering::Equal } else { Ordering::Less } }
    else if b.len() == 0 { Ordering::Greater }
    else if a[0] < b[0] { Ordering::Less }
    else if a[0] > b[0] { Ordering::Greater }
    else { lex(a.drop_first(), b.drop_first()) }
}
/// `a.starts_with(b)` for a &str pattern
#[verifier::external_body]
pub fn str_starts_with(a: &str, b: &str) -> (r: bool)
    ensures r == is_prefix(b.spec_bytes(), a.spec_bytes())
{ unimplemented!() }
/// `a.cmp(b)` on &str
#[verifier::external_body]
pub fn str_cmp(a: &str, b: &str) -> (r: Ordering)
    ensures r == lex(a.spec_bytes(), b.spec_bytes())
{ unimplemented!() }
/// R8 stand-in: an interned SelectableName is represented by its text (lookup() is the
/// identity); assumes the interning bijection (C05)
#[derive(Clone, Copy)]
pub struct SelectableName<'a>(pub &'a str);
impl<'a> SelectableName<'a> {
    pub fn lookup(self) -> (r: &'a str) ensures r == self.0 { self.0 }
    pub open spec fn bytes(self) -> Seq<u8> { self.0.spec_bytes() }
}

// =====================================================================================
// The order the property needs: compare byte by byte, the END of a name sorts AFTER every
// byte (so "FooBar" comes before "Foo")
// =====================================================================================
pub open spec fn ord(a: Seq<u8>, b: Seq<u8>) -> Ordering
    decreases a.len()
{
    if a.len() == 0 { if b.len() == 0 { Ordering::Equal } else { Ordering::Greater } }
    else if b.len() == 0 { Ordering::Less }
    else if a[0] < b[0] { Ordering::Less }
    else if a[0] > b[0] { Ordering::Greater }
    else { ord(a.drop_first(), b.drop_first()) }
}
pub open spec fn rev(o: Ordering) -> Ordering {
    match o { Ordering::Less => Ordering::Greater, Ordering::Greater => Ordering::Less, Ordering::Equal => Ordering::Equal }
}
pub proof fn lemma_cons(a: Seq<u8>)
    requires a.len() > 0
    ensures a == seq![a[0]] + a.drop_first(), a.drop_first().len() == a.len() - 1,
{
    assert(a =~= seq![a[0]] + a.drop_first());
}
pub proof fn lemma_prefix_step(p: Seq<u8>, s: Seq<u8>)
    requires p.len() > 0, s.len() > 0
    ensures is_prefix(p, s) <==> (p[0] == s[0] && is_prefix(p.drop_first(), s.drop_first())),
{
    if is_prefix(p, s) {
        assert(s.subrange(0, p.len() as int)[0] == p[0]);
        assert(s.drop_first().subrange(0, p.len() - 1) =~= s.subrange(0, p.len() as int).drop_first());
    }
    if p[0] == s[0] && is_prefix(p.drop_first(), s.drop_first()) {
        let q = s.subrange(0, p.len() as int);
        assert forall|i: int| 0 <= i < p.len() implies q[i] == p[i] by {
            if i > 0 {
                assert(s.drop_first().subrange(0, p.len() - 1)[i - 1] == p.drop_first()[i - 1]);
            }
        }
        assert(q =~= p);
    }
}
/// C24.O-1: equality and antisymmetry of the order
pub proof fn lemma_ord_antisym(a: Seq<u8>, b: Seq<u8>)
    ensures ord(a, b) == rev(ord(b, a)), (ord(a, b) == Ordering::Equal) <==> a == b, //@O C24.O-1a_order_antisymmetric_and_strict_on_distinct_names
    decreases a.len()
{
    if a.len() > 0 && b.len() > 0 {
        lemma_cons(a); lemma_cons(b);
        lemma_ord_antisym(a.drop_first(), b.drop_first());
    } else {
        if a.len() == 0 && b.len() == 0 { assert(a =~= b); }
    }
}
/// C24.O-1: transitivity
pub proof fn lemma_ord_trans(a: Seq<u8>, b: Seq<u8>, c: Seq<u8>)
    requires ord(a, b) == Ordering::Less, ord(b, c) == Ordering::Less
    ensures ord(a, c) == Ordering::Less, //@O C24.O-1b_order_transitive
    decreases a.len()
{
    if a.len() > 0 && b.len() > 0 && c.len() > 0 {
        if a[0] == b[0] && b[0] == c[0] {
            lemma_ord_trans(a.drop_first(), b.drop_first(), c.drop_first());
        }
    }
}
/// the proper-prefix rule is what `ord` says about prefixes
pub proof fn lemma_ord_prefix(a: Seq<u8>, b: Seq<u8>)
    requires is_prefix(b, a), a != b
    ensures ord(a, b) == Ordering::Less
    decreases a.len()
{
    if b.len() == 0 {
        if a.len() == 0 { assert(a =~= b); }
    } else {
        lemma_prefix_step(b, a);
        lemma_cons(a); lemma_cons(b);
        lemma_ord_prefix(a.drop_first(), b.drop_first());
    }
}
/// where neither name is a prefix of the other, `ord` is the plain byte order
pub proof fn lemma_ord_lex(a: Seq<u8>, b: Seq<u8>)
    requires !is_prefix(a, b), !is_prefix(b, a)
    ensures ord(a, b) == lex(a, b)
    decreases a.len()
{
    if a.len() == 0 { assert(b.subrange(0, 0) =~= a); }
    else if b.len() == 0 { assert(a.subrange(0, 0) =~= b); }
    else if a[0] == b[0] {
        lemma_prefix_step(a, b); lemma_prefix_step(b, a);
        lemma_ord_lex(a.drop_first(), b.drop_first());
    }
}

// ---- real code under contract --------------------------------------------------------
//@fn rel=crates/artifact_content/src/iso_overload_file.rs name=sort_field_name vis=pub ret=r serves=C24
//@sub "field_1\.starts_with\(field_2\)" => "str_starts_with(field_1, field_2)" n=1
//@sub "field_2\.starts_with\(field_1\)" => "str_starts_with(field_2, field_1)" n=1
//@sub "field_1\.cmp\(field_2\)" => "str_cmp(field_1, field_2)" n=1
//@contract
    ensures
        // on distinct names the comparator IS the order in which the end of a name sorts after
        // every byte: a strict total order (lemma_ord_antisym, lemma_ord_trans)
        field_1.bytes() != field_2.bytes() ==> r == ord(field_1.bytes(), field_2.bytes()), //@O C24.O-1_comparator_is_the_end_sorts_last_order_on_distinct_names
        // a name that has another name as a proper prefix sorts first
        field_1.bytes() != field_2.bytes() && is_prefix(field_2.bytes(), field_1.bytes()) ==> r == Ordering::Less, //@O C24.O-2_longer_name_sorts_before_its_proper_prefix
        field_1.bytes() != field_2.bytes() && is_prefix(field_1.bytes(), field_2.bytes()) ==> r == Ordering::Greater, //@O C24.O-2_proper_prefix_sorts_after_the_longer_name
//@before "if str_starts_with(field_1, field_2)"
    proof {
        let a = field_1.spec_bytes(); let b = field_2.spec_bytes();
        if is_prefix(a, b) && is_prefix(b, a) { assert(b.subrange(0, a.len() as int) =~= b); }
        if a != b {
            if is_prefix(b, a) { lemma_ord_prefix(a, b); }
            else if is_prefix(a, b) { lemma_ord_prefix(b, a); lemma_ord_antisym(a, b); }
            else { lemma_ord_lex(a, b); }
        }
    }
//@end

// =====================================================================================
// The comparators handed to sort_by in sorted_entrypoints / sorted_user_written_types: by
// parent type first, then by sort_field_name (the `match` expressions are extracted from the
// real closures; the selectable look-ups in front of them are not)
// =====================================================================================
/// the two fields of a client selectable the comparators read (entity names as integers, R8)
pub struct SelectableInfo<'a> { pub parent_entity_name: u64, pub name: SelectableName<'a> }
pub fn entrypoint_order<'a>(client_scalar_selectable_1: &SelectableInfo<'a>, client_scalar_selectable_2: &SelectableInfo<'a>) -> (r: Ordering)
    ensures
        // overloads of ONE parent type come in the order in which a longer name precedes every
        // proper prefix of it (so the overload for Query.FooBar is tried before Query.Foo)
        client_scalar_selectable_1.parent_entity_name == client_scalar_selectable_2.parent_entity_name
            && client_scalar_selectable_1.name.bytes() != client_scalar_selectable_2.name.bytes()
            ==> r == ord(client_scalar_selectable_1.name.bytes(), client_scalar_selectable_2.name.bytes()), //@O C24.O-3_entrypoints_of_one_type_are_in_the_end_sorts_last_order
        client_scalar_selectable_1.parent_entity_name == client_scalar_selectable_2.parent_entity_name
            && client_scalar_selectable_1.name.bytes() != client_scalar_selectable_2.name.bytes()
            && is_prefix(client_scalar_selectable_2.name.bytes(), client_scalar_selectable_1.name.bytes())
            ==> r == Ordering::Less, //@O C24.O-3_longer_entrypoint_name_precedes_its_proper_prefix
        client_scalar_selectable_1.parent_entity_name != client_scalar_selectable_2.parent_entity_name ==> r != Ordering::Equal,
{
//@expr rel=crates/artifact_content/src/iso_overload_file.rs fn=sorted_entrypoints start="match client_scalar_selectable_1 .parent_entity_name" block=entrypoint_order serves=C24
}
pub fn client_type_order<'a>(parent_1: u64, selectable_name_1: SelectableName<'a>, parent_2: u64, selectable_name_2: SelectableName<'a>) -> (r: Ordering)
    ensures
        parent_1 == parent_2 && selectable_name_1.bytes() != selectable_name_2.bytes()
            ==> r == ord(selectable_name_1.bytes(), selectable_name_2.bytes()), //@O C24.O-3_client_fields_of_one_type_are_in_the_end_sorts_last_order
        parent_1 == parent_2 && selectable_name_1.bytes() != selectable_name_2.bytes()
            && is_prefix(selectable_name_2.bytes(), selectable_name_1.bytes())
            ==> r == Ordering::Less, //@O C24.O-3_longer_client_field_name_precedes_its_proper_prefix
        parent_1 != parent_2 ==> r != Ordering::Equal,
{
//@expr rel=crates/artifact_content/src/iso_overload_file.rs fn=sorted_user_written_types start="match parent_1.cmp(&parent_2)" block=client_type_order serves=C24
}

} // verus!
fn main() {}
