//! C12: response keys must be legal GraphQL names, distinct for distinct arguments, and
//! equal to what the runtime (libs/isograph-react/src/core/cache.ts getArgumentValueChunk)
//! computes.  The runtime side is a hand transcription of
//!     case 'String': return 's_' + value.replaceAll(/\W/g, '_')
//! (no `u` flag => the regex runs over UTF-16 code units): a *specification*, listed as
//! trusted.
use super::src_kani::Src;
#[cfg(kani)]
use super::src_kani::KaniSrc;
use super::target::api_alias_char;

fn is_word(c: char) -> bool { matches!(c, 'A'..='Z' | 'a'..='z' | '0'..='9' | '_') }

/// number of '_' / chars the runtime emits for one source character `c`:
/// word chars are kept (1 unit); every other UTF-16 code unit becomes one '_'
fn ts_units(c: char) -> (char, usize) {
    if is_word(c) { (c, 1) } else { ('_', c.len_utf16()) }
}

/// C12.O-1 (complete: full char domain, loop-free) every emitted char is a legal name char
pub fn alias_char_is_legal<S: Src>(s: &mut S) {
    let c = s.char();
    assert!(is_word(api_alias_char(c)));
}

/// C12.O-2a (complete) distinct characters get distinct images unless BOTH are non-word
/// characters (that remaining class is the known finding O-2b)
pub fn alias_char_injective_outside_nonword<S: Src>(s: &mut S) {
    let c1 = s.char();
    let c2 = s.char();
    s.assume(c1 != c2 && (is_word(c1) || is_word(c2)) && c1 != '_' && c2 != '_');
    assert!(api_alias_char(c1) != api_alias_char(c2));
}

/// C12.O-2b distinct non-word characters (and '_') get distinct images — the statement's
/// "same response key exactly when ... the same arguments"
pub fn alias_char_injective_on_nonword<S: Src>(s: &mut S) {
    let c1 = s.char();
    let c2 = s.char();
    s.assume(c1 != c2 && (!is_word(c1) || c1 == '_') && (!is_word(c2) || c2 == '_'));
    assert!(api_alias_char(c1) != api_alias_char(c2));
}

/// C12.O-3a (complete) agreement with the runtime on the Basic Multilingual Plane
pub fn alias_char_agrees_with_runtime_bmp<S: Src>(s: &mut S) {
    let c = s.char();
    s.assume((c as u32) < 0x10000);
    let (tc, n) = ts_units(c);
    assert!(n == 1 && api_alias_char(c) == tc);
}

/// C12.O-3b agreement with the runtime outside the BMP (one Rust char, two UTF-16 units)
pub fn alias_char_agrees_with_runtime_non_bmp<S: Src>(s: &mut S) {
    let c = s.char();
    s.assume((c as u32) >= 0x10000);
    let (tc, n) = ts_units(c);
    assert!(api_alias_char(c) == tc);
    assert!(n == 1); // Rust emits exactly one char per source char
}

pub fn canary_alias<S: Src>(s: &mut S) {
    let c = s.char();
    assert!(api_alias_char(c) == c);
}

pub fn dispatch<S: Src>(name: &str, s: &mut S) -> bool {
    match name {
        "alias_char_is_legal" => alias_char_is_legal(s),
        "alias_char_injective_outside_nonword" => alias_char_injective_outside_nonword(s),
        "alias_char_injective_on_nonword" => alias_char_injective_on_nonword(s),
        "alias_char_agrees_with_runtime_bmp" => alias_char_agrees_with_runtime_bmp(s),
        "alias_char_agrees_with_runtime_non_bmp" => alias_char_agrees_with_runtime_non_bmp(s),
        _ => return false,
    }
    true
}

#[cfg(kani)]
mod proofs {
    use super::*;
    // Unicode-table predicates of `char` are beyond CBMC's budget (a symbolic char through
    // the skip-search tables does not finish in 30 min). If an edit makes the map call them,
    // they are over-approximated by an arbitrary bool: a failure found this way is only
    // reported when the native replay reproduces it on the real code.
    fn any_bool_of_char(_c: char) -> bool { kani::any() }
    #[kani::proof]
    #[kani::stub(char::is_alphanumeric, any_bool_of_char)]
    #[kani::stub(char::is_alphabetic, any_bool_of_char)]
    #[kani::stub(char::is_numeric, any_bool_of_char)]
    fn alias_char_is_legal() { super::alias_char_is_legal(&mut KaniSrc) }
    #[kani::proof]
    #[kani::stub(char::is_alphanumeric, any_bool_of_char)]
    #[kani::stub(char::is_alphabetic, any_bool_of_char)]
    #[kani::stub(char::is_numeric, any_bool_of_char)]
    fn alias_char_injective_outside_nonword() { super::alias_char_injective_outside_nonword(&mut KaniSrc) }
    #[kani::proof]
    #[kani::stub(char::is_alphanumeric, any_bool_of_char)]
    #[kani::stub(char::is_alphabetic, any_bool_of_char)]
    #[kani::stub(char::is_numeric, any_bool_of_char)]
    fn alias_char_injective_on_nonword() { super::alias_char_injective_on_nonword(&mut KaniSrc) }
    #[kani::proof]
    #[kani::stub(char::is_alphanumeric, any_bool_of_char)]
    #[kani::stub(char::is_alphabetic, any_bool_of_char)]
    #[kani::stub(char::is_numeric, any_bool_of_char)]
    fn alias_char_agrees_with_runtime_bmp() { super::alias_char_agrees_with_runtime_bmp(&mut KaniSrc) }
    #[kani::proof]
    #[kani::stub(char::is_alphanumeric, any_bool_of_char)]
    #[kani::stub(char::is_alphabetic, any_bool_of_char)]
    #[kani::stub(char::is_numeric, any_bool_of_char)]
    fn alias_char_agrees_with_runtime_non_bmp() { super::alias_char_agrees_with_runtime_non_bmp(&mut KaniSrc) }
    #[kani::proof]
    #[kani::stub(char::is_alphanumeric, any_bool_of_char)]
    #[kani::stub(char::is_alphabetic, any_bool_of_char)]
    #[kani::stub(char::is_numeric, any_bool_of_char)]
    fn canary_alias() { super::canary_alias(&mut KaniSrc) }
}
