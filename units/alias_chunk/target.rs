// unit alias_chunk — extracted Kani crate. The character map applied to string argument
// values when building a response key: the closure inside
// NonConstantValueInner::to_alias_str_chunk (real text, extracted each run), and the
// Integer / Boolean arms' format expressions.
pub fn alias_char(c: char) -> char {
    let f: fn(char) -> char =
//@expr rel=crates/isograph_lang_types/src/declarations/selection_argument.rs fn=to_alias_str_chunk within="impl<TLocation> NonConstantValueInner<TLocation>" start=".map(|c|" skip=".map(" until=")" serves=C12
    ;
    f(c)
}
/// the character(s) contributed to the Rust-side key by one character of a string argument
pub fn api_alias_char(c: char) -> char { alias_char(c) }
