// unit small_bytes_v — Verus. Real bodies of intern::small_bytes (extracted on every run):
// make_small, SmallBytes::{len, is_empty}, Deref::deref, From<&[u8]> / From<Box<[u8]>> /
// From<Vec<u8>>, PartialEq::eq, against assumed contracts for the slice primitives they use.
// Serves C05 at the representation level, UNBOUNDED in the length of the value: the bytes
// stored for an interned value are exactly the bytes that were interned, in both the inline
// and the boxed representation, and equality of stored values is equality of bytes.
use vstd::prelude::*;
verus! {

// =====================================================================================
// Assumed contracts for slice / box primitives (trusted base; hand written)
// =====================================================================================
/// `dst[0..l].copy_from_slice(src)` on the inline array
#[verifier::external_body]
pub fn copy_prefix(dst: &mut [u8; 22], l: usize, src: &[u8])
    requires l == src@.len(), l <= 22,
    ensures final(dst)@.subrange(0, l as int) == src@,
{ unimplemented!() }
/// `&s[..n]` / `&s[0..n]` on a slice (panics when n is out of range)
#[verifier::external_body]
pub fn slice_prefix<'a>(s: &'a [u8], n: usize) -> (r: &'a [u8])
    requires n <= s@.len(),
    ensures r@ == s@.subrange(0, n as int),
{ unimplemented!() }
/// `&a[0..n]`
#[verifier::external_body]
pub fn array_prefix<'a>(a: &'a [u8; 22], n: usize) -> (r: &'a [u8])
    requires n <= 22,
    ensures r@ == a@.subrange(0, n as int),
{ unimplemented!() }
/// `&*b` / auto-deref of a Box<[u8]>
#[verifier::external_body]
pub fn box_as_slice<'a>(b: &'a Box<[u8]>) -> (r: &'a [u8]) ensures r@ == b@ { unimplemented!() }
/// `<&[u8]>::into()` -> Box<[u8]> (copies)
#[verifier::external_body]
pub fn box_from_slice(u: &[u8]) -> (r: Box<[u8]>) ensures r@ == u@ { unimplemented!() }
/// `Vec<u8>::into()` -> Box<[u8]> (into_boxed_slice)
#[verifier::external_body]
pub fn box_from_vec(u: Vec<u8>) -> (r: Box<[u8]>) ensures r@ == u@ { unimplemented!() }
/// `a == b` on byte slices
#[verifier::external_body]
pub fn slice_eq(a: &[u8], b: &[u8]) -> (r: bool) ensures r == (a@ == b@) { unimplemented!() }

// =====================================================================================
// Extracted type (real text; derive/serde attributes stripped) and its abstract view
// =====================================================================================
/// `3 * size_of::<usize>() - 2` on a 64-bit target (the only one the workspace builds for)
pub const SMALL_MAX_LEN: usize = 22;
//@item rel=relay-crates/intern/src/small_bytes.rs kind=enum name=SmallBytes prefix="pub"
use SmallBytes::{Large, Small};

impl SmallBytes {
    /// the inline length never exceeds the inline capacity (established by every constructor)
    pub open spec fn wf(&self) -> bool {
        match *self { SmallBytes::Small { len, bytes } => len <= 22, SmallBytes::Large(b) => true }
    }
    /// the bytes the value stands for
    pub open spec fn bytes_view(&self) -> Seq<u8> {
        match *self { SmallBytes::Small { len, bytes } => bytes@.subrange(0, len as int), SmallBytes::Large(b) => b@ }
    }
    pub open spec fn is_inline(&self) -> bool { *self is Small }

// ---- real code under contract --------------------------------------------------------
//@fn rel=relay-crates/intern/src/small_bytes.rs name=len within="impl SmallBytes" vis=pub ret=r serves=C05
//@sub "Large\(b\) => b\.len\(\)," => "Large(b) => box_as_slice(b).len()," n=1
//@contract
        requires self.wf(),
        ensures r == self.bytes_view().len(), //@O C05.O-1_len_is_number_of_stored_bytes
//@end
//@fn rel=relay-crates/intern/src/small_bytes.rs name=is_empty within="impl SmallBytes" vis=pub ret=r serves=C05
//@contract
        requires self.wf(),
        ensures r == (self.bytes_view().len() == 0),
//@end
//@fn rel=relay-crates/intern/src/small_bytes.rs name=deref within="impl Deref for SmallBytes" vis=pub ret=r serves=C05
//@sub "&bytes\[0\.\.\*len as usize\]" => "array_prefix(bytes, *len as usize)" n=1
//@sub "Large\(b\) => b," => "Large(b) => box_as_slice(b)," n=1
//@contract
        requires self.wf(),
        ensures r@ == self.bytes_view(), //@O C05.O-1_deref_reads_back_the_stored_bytes
//@end
//@fn rel=relay-crates/intern/src/small_bytes.rs name=eq within="impl PartialEq for SmallBytes" vis=pub ret=r serves=C05
//@sub "&\*\*self == &\*\*other" => "slice_eq(self.deref(), other.deref())" n=1
//@contract
        requires self.wf(), other.wf(),
        ensures r == (self.bytes_view() == other.bytes_view()), //@O C05.O-2_equal_iff_same_bytes_across_representations
//@end
}

//@fn rel=relay-crates/intern/src/small_bytes.rs name=make_small vis=pub ret=r serves=C05
//@sub "&(\w+)\[(?:0)?\.\.(\w+)\]" => "slice_prefix(\1, \2)" n=*
//@sub "bytes\[(?:0)?\.\.(\w+)\]\.copy_from_slice\(([^;]+)\);" => "copy_prefix(&mut bytes, \1, \2);" n=1
//@contract
    ensures
        r is Some ==> r->Some_0.wf() && r->Some_0.bytes_view() == b@, //@O C05.O-1_inline_copy_holds_exactly_the_bytes
//@end

//@fn rel=relay-crates/intern/src/small_bytes.rs name=from within="impl From<&[u8]> for SmallBytes" vis=pub ret=r rename=from_slice serves=C05
//@sub "Large\(u\.into\(\)\)" => "Large(box_from_slice(u))" n=1
//@contract
    ensures
        r.wf() && r.bytes_view() == u@, //@O C05.O-1_from_slice_stores_exactly_the_bytes
//@end

//@fn rel=relay-crates/intern/src/small_bytes.rs name=from within="impl From<Box<[u8]>> for SmallBytes" vis=pub ret=r rename=from_box serves=C05
//@sub "make_small\(&\*u\)" => "make_small(box_as_slice(&u))" n=1
//@contract
    ensures r.wf() && r.bytes_view() == u@, //@O C05.O-1_from_box_stores_exactly_the_bytes
//@end

//@fn rel=relay-crates/intern/src/small_bytes.rs name=from within="impl From<Vec<u8>> for SmallBytes" vis=pub ret=r rename=from_vec serves=C05
//@sub "make_small\(&\*u\)" => "make_small(u.as_slice())" n=1
//@sub "Large\(u\.into\(\)\)" => "Large(box_from_vec(u))" n=1
//@contract
    ensures r.wf() && r.bytes_view() == u@, //@O C05.O-1_from_vec_stores_exactly_the_bytes
//@end

} // verus!
fn main() {}
