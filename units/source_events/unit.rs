// unit source_events — Verus. Real bodies of isograph_compiler::source_files::
// {handle_update_source_file, handle_update_source_folder, create_or_update_iso_literals,
// remove_iso_literals_from_folder, read_iso_literals_from_folder} (extracted on every run)
// against a database stand-in that LOGS the tracked-source operations it is asked to do.
// Serves C20 (watch mode = fresh batch compile), second mechanism: how a watcher event about a
// source file or folder is mapped to updates of the set of tracked source files. (Which keys a
// folder removal drops is the first mechanism: unit folder_prefix.)
use vstd::prelude::*;
verus! {

// =====================================================================================
// Assumed contracts (trusted base; hand written)
// =====================================================================================
#[verifier::external_body]
pub struct Path { p: core::marker::PhantomData<u8> }
pub type PathBuf = Path;
impl Path {
    #[verifier::external_body]
    pub fn to_path_buf(&self) -> (r: PathBuf) ensures r == *self { unimplemented!() }
    // inspectors of std::path::Path / the file system: NO contract (any answer is possible), so
    // a handler whose tracked-source updates depend on them cannot meet its contract
    #[verifier::external_body]
    pub fn extension(&self) -> Option<OsStr> { unimplemented!() }
    #[verifier::external_body]
    pub fn file_name(&self) -> Option<OsStr> { unimplemented!() }
    #[verifier::external_body]
    pub fn is_file(&self) -> bool { unimplemented!() }
    #[verifier::external_body]
    pub fn is_dir(&self) -> bool { unimplemented!() }
    #[verifier::external_body]
    pub fn exists(&self) -> bool { unimplemented!() }
}
/// `s.contains("literal")` on a str / String (R23): NO contract, any answer is possible
#[verifier::external_body]
pub fn str_contains_lit(s: &str, pat: &str) -> bool { unimplemented!() }
#[verifier::external_body]
pub struct OsStr { p: core::marker::PhantomData<u8> }
#[verifier::external_body]
pub struct LocationFreeDiagnostic { p: core::marker::PhantomData<u8> }
pub type LocationFreeDiagnosticResult<T> = Result<T, LocationFreeDiagnostic>;
#[derive(Clone, Copy, PartialEq, Eq, Structural)]
pub struct CurrentWorkingDirectory(pub u32);
/// interned path of a source file relative to the working directory
#[derive(Clone, Copy, PartialEq, Eq, Structural)]
pub struct RelativePathToSourceFile(pub u32);
#[derive(Clone, Copy, PartialEq, Eq, Structural)]
pub struct SourceId(pub u64);

/// relative_path_from_absolute_and_working_directory: an uninterpreted function of its arguments
pub uninterp spec fn rel_file(cwd: CurrentWorkingDirectory, p: Path) -> RelativePathToSourceFile;
#[verifier::external_body]
pub fn relative_path_from_absolute_and_working_directory(cwd: CurrentWorkingDirectory, path: &PathBuf) -> (r: RelativePathToSourceFile)
    ensures r == rel_file(cwd, *path)
{ unimplemented!() }
/// `pathdiff::diff_paths(folder, PathBuf::from(cwd.lookup())).expect(..).to_string_lossy().to_string()`
pub uninterp spec fn rel_folder(cwd: CurrentWorkingDirectory, p: Path) -> Seq<char>;
#[verifier::external_body]
pub fn relative_folder_string(folder: &PathBuf, cwd: CurrentWorkingDirectory) -> (r: String)
    ensures r@ == rel_folder(cwd, *folder)
{ unimplemented!() }

/// the operations on the tracked source files the database was asked to perform, in order
pub enum DbOp {
    /// insert_iso_literal(path, content): (re)place the literals of one file
    InsertFile(RelativePathToSourceFile, Seq<char>),
    /// remove_iso_literal(path)
    RemoveFile(RelativePathToSourceFile),
    /// remove_iso_literals_from_path(folder string): drop every tracked file inside the folder
    RemoveFolder(Seq<char>),
    /// db.set(SchemaSource { relative_path, content, .. }): (re)place a schema (extension) source
    SetSchema(RelativePathToSourceFile, Seq<char>),
    /// db.remove(source id)
    RemoveSource(SourceId),
    /// standard_sources.schema_extension_sources.insert(path, id)
    RecordExtension(RelativePathToSourceFile, SourceId),
    /// db.remove_schema_extension(path): forget the extension and drop its source
    RemoveExtension(RelativePathToSourceFile),
}
pub trait CompilationProfile {}
#[verifier::external_body]
#[verifier::reject_recursive_types(P)]
pub struct IsographDatabase<P> { p: core::marker::PhantomData<P> }
impl<P: CompilationProfile> IsographDatabase<P> {
    pub uninterp spec fn ops(&self) -> Seq<DbOp>;
    pub uninterp spec fn cwd(&self) -> CurrentWorkingDirectory;
    /// was `path` tracked before the i-th logged operation (decides remove_iso_literal's result)
    pub uninterp spec fn tracked(&self, path: RelativePathToSourceFile) -> bool;
    #[verifier::external_body]
    pub fn get_current_working_directory(&self) -> (r: CurrentWorkingDirectory) ensures r == self.cwd() { unimplemented!() }
    #[verifier::external_body]
    pub fn insert_iso_literal(&mut self, relative_path: RelativePathToSourceFile, content: String)
        ensures final(self).ops() == old(self).ops().push(DbOp::InsertFile(relative_path, content@)), final(self).cwd() == old(self).cwd(), final(self).config() == old(self).config(), final(self).schema_id() == old(self).schema_id(),
    { unimplemented!() }
    #[verifier::external_body]
    pub fn remove_iso_literal(&mut self, relative_path: RelativePathToSourceFile) -> (r: Option<SourceId>)
        ensures final(self).ops() == old(self).ops().push(DbOp::RemoveFile(relative_path)), final(self).cwd() == old(self).cwd(), final(self).config() == old(self).config(), final(self).schema_id() == old(self).schema_id(),
            (r is Some) == old(self).tracked(relative_path),
    { unimplemented!() }
    #[verifier::external_body]
    pub fn remove_iso_literals_from_path(&mut self, relative_path: &str)
        ensures final(self).ops() == old(self).ops().push(DbOp::RemoveFolder(relative_path@)), final(self).cwd() == old(self).cwd(), final(self).config() == old(self).config(), final(self).schema_id() == old(self).schema_id(),
    { unimplemented!() }
}
/// read_files::is_source_file: a .ts/.tsx/.js/.jsx file outside __isograph - what a batch
/// compile reads (uninterpreted here; the predicate itself is string matching on the path)
pub uninterp spec fn source_file(p: Path) -> bool;
#[verifier::external_body]
pub fn is_source_file(p: &Path) -> (r: bool) ensures r == source_file(*p) { unimplemented!() }
/// read_files::read_file: (relative path, content) of one source file, or an error
pub uninterp spec fn file_read(p: Path, cwd: CurrentWorkingDirectory) -> Result<(RelativePathToSourceFile, Seq<char>), LocationFreeDiagnostic>;
#[verifier::external_body]
pub fn read_file(path: PathBuf, cwd: CurrentWorkingDirectory) -> (r: LocationFreeDiagnosticResult<(RelativePathToSourceFile, String)>)
    ensures match r {
        Ok(v) => file_read(path, cwd) is Ok && v.0 == file_read(path, cwd)->Ok_0.0 && v.1@ == file_read(path, cwd)->Ok_0.1,
        Err(e) => file_read(path, cwd) is Err,
    }
{ unimplemented!() }
/// read_files::read_files_in_folder: the source files below a folder, or an error
pub uninterp spec fn folder_read(p: Path, cwd: CurrentWorkingDirectory) -> Result<Seq<(RelativePathToSourceFile, Seq<char>)>, LocationFreeDiagnostic>;
pub open spec fn same_files(v: Seq<(RelativePathToSourceFile, String)>, w: Seq<(RelativePathToSourceFile, Seq<char>)>) -> bool {
    v.len() == w.len() && forall|i: int| 0 <= i < v.len() ==> (#[trigger] v[i]).0 == w[i].0 && v[i].1@ == w[i].1
}
#[verifier::external_body]
pub fn read_files_in_folder(folder: &Path, cwd: CurrentWorkingDirectory) -> (r: LocationFreeDiagnosticResult<Vec<(RelativePathToSourceFile, String)>>)
    ensures match r {
        Ok(v) => folder_read(*folder, cwd) is Ok && same_files(v@, folder_read(*folder, cwd)->Ok_0),
        Err(e) => folder_read(*folder, cwd) is Err,
    }
{ unimplemented!() }

//@item rel=crates/isograph_compiler/src/watch.rs kind=enum name=SourceEventKind prefix="pub"

// =====================================================================================
// What each event must do to the tracked source files
// =====================================================================================
/// ops extended by one InsertFile per file, in order
pub open spec fn inserted(ops: Seq<DbOp>, files: Seq<(RelativePathToSourceFile, Seq<char>)>, k: int) -> Seq<DbOp>
    decreases k
{
    if k <= 0 { ops } else { inserted(ops, files, k - 1).push(DbOp::InsertFile(files[k - 1].0, files[k - 1].1)) }
}

// ---- real code under contract --------------------------------------------------------
//@fn rel=crates/isograph_compiler/src/source_files.rs name=read_iso_literals_from_folder vis=pub ret=r serves=C20
//@rw R23
//@hsub "<TCompilationProfile: CompilationProfile>" => "<TCompilationProfile: CompilationProfile>"
//@sub "for \(relative_path, content\) in\s*read_files_in_folder\(folder, db\.get_current_working_directory\(\)\)\?\s*\{" => "let files_read = read_files_in_folder(folder, db.get_current_working_directory())?; let ghost files0 = files_read@; for (relative_path, content) in itf: files_read {" n=1
//@contract
    ensures
        final(db).cwd() == old(db).cwd(), final(db).config() == old(db).config(), final(db).schema_id() == old(db).schema_id(),
        // every source file found below the folder is (re)tracked, in the order read; an
        // unreadable folder is reported and changes nothing
        match folder_read(*folder, old(db).cwd()) {
            Ok(files) => r is Ok && final(db).ops() == inserted(old(db).ops(), files, files.len() as int),
            Err(e) => r is Err && final(db).ops() == old(db).ops(),
        }, //@O C20.O-2_folder_read_tracks_every_file_found
//@loop 1
        invariant
            itf.seq() == files0, same_files(files0, folder_read(*folder, old(db).cwd())->Ok_0),
            folder_read(*folder, old(db).cwd()) is Ok,
            db.cwd() == old(db).cwd(), db.config() == old(db).config(), db.schema_id() == old(db).schema_id(),
            db.ops() == inserted(old(db).ops(), folder_read(*folder, old(db).cwd())->Ok_0, itf.index@ as int),
//@end

//@fn rel=crates/isograph_compiler/src/source_files.rs name=remove_iso_literals_from_folder vis=pub serves=C20
//@rw R23
//@sub "pathdiff::diff_paths\(folder, PathBuf::from\(current_working_directory\.lookup\(\)\)\)\s*\.expect\(\"Expected path to be diffable\"\)\s*\.to_string_lossy\(\)\s*\.to_string\(\)" => "relative_folder_string(folder, current_working_directory)" n=1
//@sub "db\.remove_iso_literals_from_path\(&relative_path\)" => "db.remove_iso_literals_from_path(relative_path.as_str())" n=1
//@contract
    ensures
        final(db).cwd() == old(db).cwd(),
        // a removed folder - whatever its name looks like - is handed to the prefix removal
        final(db).ops() == old(db).ops().push(DbOp::RemoveFolder(rel_folder(old(db).cwd(), *folder))), //@O C20.O-2_removed_folder_drops_the_files_tracked_inside_it
//@end

//@fn rel=crates/isograph_compiler/src/source_files.rs name=create_or_update_iso_literals vis=pub ret=r serves=C20
//@rw R23
//@contract
    ensures
        final(db).cwd() == old(db).cwd(),
        // a file a batch compile would read is read again and (re)tracked; any other file is
        // ignored, whatever it contains (F-C20e)
        if source_file(*path) {
            match file_read(*path, old(db).cwd()) {
                Ok(f) => r is Ok && final(db).ops() == old(db).ops().push(DbOp::InsertFile(f.0, f.1)),
                Err(e) => r is Err && final(db).ops() == old(db).ops(),
            }
        } else { r is Ok && final(db).ops() == old(db).ops() }, //@O C20.O-2_changed_file_is_reread_and_retracked
//@end

//@fn rel=crates/isograph_compiler/src/source_files.rs name=handle_update_source_folder vis=pub ret=r serves=C20
//@rw R23
//@contract
    ensures
        final(db).cwd() == old(db).cwd(),
        match *event_kind {
            // a new or changed folder: everything below it is read
            SourceEventKind::CreateOrModify(folder) => match folder_read(folder, old(db).cwd()) {
                Ok(files) => r is Ok && final(db).ops() == inserted(old(db).ops(), files, files.len() as int),
                Err(e) => r is Err && final(db).ops() == old(db).ops(),
            },
            // a renamed folder: the files tracked under the old name go, the new folder is read
            SourceEventKind::Rename((source_path, target_path)) => {
                let o1 = old(db).ops().push(DbOp::RemoveFolder(rel_folder(old(db).cwd(), source_path)));
                match folder_read(target_path, old(db).cwd()) {
                    Ok(files) => r is Ok && final(db).ops() == inserted(o1, files, files.len() as int),
                    Err(e) => r is Err && final(db).ops() == o1,
                }
            },
            // a removed folder: the files tracked inside it go
            SourceEventKind::Remove(path) => r is Ok
                && final(db).ops() == old(db).ops().push(DbOp::RemoveFolder(rel_folder(old(db).cwd(), path))),
        }, //@O C20.O-2_folder_event_updates_tracked_files
//@end

//@fn rel=crates/isograph_compiler/src/source_files.rs name=handle_update_source_file vis=pub ret=r serves=C20
//@rw R23
//@contract
    ensures
        final(db).cwd() == old(db).cwd(),
        match *event_kind {
            SourceEventKind::CreateOrModify(path) => if source_file(path) {
                match file_read(path, old(db).cwd()) {
                    Ok(f) => r is Ok && final(db).ops() == old(db).ops().push(DbOp::InsertFile(f.0, f.1)),
                    Err(e) => r is Err && final(db).ops() == old(db).ops(),
                }
            } else { r is Ok && final(db).ops() == old(db).ops() },
            // a renamed file: the old name is dropped; if it was tracked the new file is read
            // (if it is a source file)
            SourceEventKind::Rename((source_path, target_path)) => {
                let o1 = old(db).ops().push(DbOp::RemoveFile(rel_file(old(db).cwd(), source_path)));
                if old(db).tracked(rel_file(old(db).cwd(), source_path)) && source_file(target_path) {
                    match file_read(target_path, old(db).cwd()) {
                        Ok(f) => r is Ok && final(db).ops() == o1.push(DbOp::InsertFile(f.0, f.1)),
                        Err(e) => r is Err && final(db).ops() == o1,
                    }
                } else { r is Ok && final(db).ops() == o1 }
            },
            SourceEventKind::Remove(path) => r is Ok
                && final(db).ops() == old(db).ops().push(DbOp::RemoveFile(rel_file(old(db).cwd(), path))),
        }, //@O C20.O-2_file_event_updates_tracked_files
//@end

// =====================================================================================
// Schema events (handle_update_schema, read_schema): third mechanism of C20
// =====================================================================================
impl Path {
    /// `a != b` on paths
    #[verifier::external_body]
    pub fn differs(&self, other: &Path) -> (r: bool) ensures r == (*self != *other) { unimplemented!() }
    #[verifier::external_body]
    pub fn clone(&self) -> (r: Path) ensures r == *self { unimplemented!() }
}
//@item rel=crates/common_lang_types/src/absolute_and_relative_path.rs kind=struct name=AbsolutePathAndRelativePath prefix="pub"
impl AbsolutePathAndRelativePath {
    pub fn clone(&self) -> (r: Self) ensures r == *self { AbsolutePathAndRelativePath { absolute_path: self.absolute_path.clone(), relative_path: self.relative_path } }
}
pub struct CompilerConfig { pub schema: AbsolutePathAndRelativePath, pub schema_extensions: Vec<AbsolutePathAndRelativePath>, pub project_root: PathBuf }
/// `config.schema_extensions.iter().any(|x| x.absolute_path == *path)`
pub open spec fn is_extension_path(c: CompilerConfig, p: Path) -> bool {
    exists|i: int| 0 <= i < c.schema_extensions@.len() && (#[trigger] c.schema_extensions@[i]).absolute_path == p
}
/// `config.schema_extensions.clone()`
#[verifier::external_body]
pub fn clone_extensions(v: &Vec<AbsolutePathAndRelativePath>) -> (r: Vec<AbsolutePathAndRelativePath>) ensures r@ == v@ { unimplemented!() }
#[verifier::external_body]
pub fn any_extension_has_path(c: &CompilerConfig, p: &Path) -> (r: bool) ensures r == is_extension_path(*c, *p) { unimplemented!() }
#[verifier::external_body]
pub struct Span { p: core::marker::PhantomData<u8> }
//@item rel=crates/common_lang_types/src/location.rs kind=struct name=TextSource prefix="pub"
//@item rel=crates/isograph_schema/src/isograph_database.rs kind=struct name=SchemaSource prefix="pub"
/// StandardSources: only the field the schema handler touches (the map of extensions is not
/// modelled in this unit)
pub struct StandardSources { pub schema_source_id: SourceId, pub schema_extension_sources: ExtensionMap }
/// BTreeMap<RelativePathToSourceFile, SourceId<SchemaSource>>: the inserts are what matters here
#[verifier::external_body]
pub struct ExtensionMap { p: core::marker::PhantomData<u8> }
impl ExtensionMap {
    /// `BTreeMap::new()`
    #[verifier::external_body]
    pub fn new() -> (r: ExtensionMap) ensures r.log().len() == 0 { unimplemented!() }
    /// the inserts made through this reference, in order
    pub uninterp spec fn log(&self) -> Seq<(RelativePathToSourceFile, SourceId)>;
    #[verifier::external_body]
    pub fn insert(&mut self, k: RelativePathToSourceFile, v: SourceId) -> (r: Option<SourceId>)
        ensures final(self).log() == old(self).log().push((k, v))
    { unimplemented!() }
}
impl SourceId {
    pub uninterp spec fn default_spec() -> SourceId;
    #[verifier::external_body]
    pub fn default() -> (r: SourceId) ensures r == SourceId::default_spec() { unimplemented!() }
    /// the id pico gives a schema source: a function of its key (the relative path)
    pub uninterp spec fn of_schema(p: RelativePathToSourceFile) -> SourceId;
}
impl<P: CompilationProfile> IsographDatabase<P> {
    pub uninterp spec fn config(&self) -> CompilerConfig;
    /// the schema source id the database currently has on record
    pub uninterp spec fn schema_id(&self) -> SourceId;
    #[verifier::external_body]
    pub fn get_isograph_config(&self) -> (r: &CompilerConfig) ensures *r == self.config() { unimplemented!() }
    /// `db.get_standard_sources().untracked()`
    #[verifier::external_body]
    pub fn standard_sources(&self) -> (r: &StandardSources) ensures r.schema_source_id == self.schema_id() { unimplemented!() }
    /// `db.get_standard_sources_mut().tracked()`: the record may be changed through the reference
    #[verifier::external_body]
    pub fn standard_sources_mut(&mut self) -> (r: &mut StandardSources)
        ensures r.schema_source_id == old(self).schema_id(), final(self).schema_id() == final(r).schema_source_id,
            // inserts into the extension map made through the reference are logged as operations
            r.schema_extension_sources.log().len() == 0,
            final(self).ops() == old(self).ops() + final(r).schema_extension_sources.log().map_values(|kv: (RelativePathToSourceFile, SourceId)| DbOp::RecordExtension(kv.0, kv.1)),
            final(self).cwd() == old(self).cwd(), final(self).config() == old(self).config(),
    { unimplemented!() }
    #[verifier::external_body]
    pub fn remove_schema_extension(&mut self, relative_path: RelativePathToSourceFile) -> (r: Option<SourceId>)
        ensures final(self).ops() == old(self).ops().push(DbOp::RemoveExtension(relative_path)),
            final(self).cwd() == old(self).cwd(), final(self).config() == old(self).config(), final(self).schema_id() == old(self).schema_id(),
    { unimplemented!() }
    #[verifier::external_body]
    pub fn set(&mut self, source: SchemaSource) -> (r: SourceId)
        ensures final(self).ops() == old(self).ops().push(DbOp::SetSchema(source.relative_path, source.content@)),
            r == SourceId::of_schema(source.relative_path),
            final(self).cwd() == old(self).cwd(), final(self).config() == old(self).config(), final(self).schema_id() == old(self).schema_id(),
    { unimplemented!() }
    #[verifier::external_body]
    pub fn remove(&mut self, id: SourceId)
        ensures final(self).ops() == old(self).ops().push(DbOp::RemoveSource(id)),
            final(self).cwd() == old(self).cwd(), final(self).config() == old(self).config(), final(self).schema_id() == old(self).schema_id(),
    { unimplemented!() }
}
/// read_schema_file: the text of the schema file at a path, or an error
pub uninterp spec fn schema_file_read(p: Path) -> Result<Seq<char>, LocationFreeDiagnostic>;
#[verifier::external_body]
pub fn read_schema_file(path: &PathBuf) -> (r: LocationFreeDiagnosticResult<String>)
    ensures match r { Ok(v) => schema_file_read(*path) is Ok && v@ == schema_file_read(*path)->Ok_0, Err(e) => schema_file_read(*path) is Err }
{ unimplemented!() }
#[verifier::external_body]
pub fn schema_not_found_diagnostic() -> LocationFreeDiagnostic { unimplemented!() }

//@fn rel=crates/isograph_compiler/src/source_files.rs name=read_schema vis=pub ret=r serves=C20
//@rw R4
//@hsub "SourceId<SchemaSource>" => "SourceId"
//@contract
    ensures
        final(db).cwd() == old(db).cwd(), final(db).config() == old(db).config(), final(db).schema_id() == old(db).schema_id(),
        match schema_file_read(schema_path.absolute_path) {
            Ok(text) => r is Ok && r->Ok_0 == SourceId::of_schema(schema_path.relative_path)
                && final(db).ops() == old(db).ops().push(DbOp::SetSchema(schema_path.relative_path, text)),
            Err(e) => r is Err && final(db).ops() == old(db).ops(),
        }, //@O C20.O-3_reading_the_schema_replaces_its_source_with_the_file_contents
//@end

//@fn rel=crates/isograph_compiler/src/source_files.rs name=handle_update_schema vis=pub ret=r serves=C20
//@rw R4
//@sub "db\.get_standard_sources_mut\(\)\.tracked\(\)" => "db.standard_sources_mut()" n=*
//@sub "db\.get_standard_sources\(\)\.untracked\(\)" => "db.standard_sources()" n=*
//@sub "schema\.absolute_path != \*target_path" => "schema.absolute_path.differs(target_path)" n=1
//@contract
    ensures
        final(db).cwd() == old(db).cwd(), final(db).config() == old(db).config(),
        match *event_kind {
            // the schema file was written: its contents are read again
            SourceEventKind::CreateOrModify(p) => match schema_file_read(old(db).config().schema.absolute_path) {
                Ok(text) => r is Ok
                    && final(db).ops() == old(db).ops().push(DbOp::SetSchema(old(db).config().schema.relative_path, text))
                    && final(db).schema_id() == SourceId::of_schema(old(db).config().schema.relative_path),
                Err(e) => r is Err && final(db).ops() == old(db).ops() && final(db).schema_id() == old(db).schema_id(),
            },
            // a file was renamed ONTO the schema path (an atomic save): the schema has new
            // contents and must be read again, exactly as for a modification (F-C20b);
            // renamed to somewhere else: the schema is gone
            SourceEventKind::Rename((source_path, target_path)) =>
                if target_path == old(db).config().schema.absolute_path {
                    match schema_file_read(old(db).config().schema.absolute_path) {
                        Ok(text) => r is Ok
                            && final(db).ops() == old(db).ops().push(DbOp::SetSchema(old(db).config().schema.relative_path, text))
                            && final(db).schema_id() == SourceId::of_schema(old(db).config().schema.relative_path),
                        Err(e) => r is Err && final(db).ops() == old(db).ops() && final(db).schema_id() == old(db).schema_id(),
                    }
                } else {
                    r is Err && final(db).ops() == old(db).ops().push(DbOp::RemoveSource(old(db).schema_id()))
                        && final(db).schema_id() == SourceId::default_spec()
                },
            // removed: the source is dropped and the compile is told that there is no schema
            SourceEventKind::Remove(p) => r is Err
                && final(db).ops() == old(db).ops().push(DbOp::RemoveSource(old(db).schema_id()))
                && final(db).schema_id() == SourceId::default_spec(),
        }, //@O C20.O-3_schema_event_rereads_or_drops_the_schema
//@end

//@fn rel=crates/isograph_config/src/compilation_options.rs name=absolute_and_relative_paths vis=pub ret=r serves=C20
//@contract
    ensures r.absolute_path == absolute_path, r.relative_path == rel_file(current_working_directory, absolute_path),
//@end

//@fn rel=crates/isograph_compiler/src/source_files.rs name=create_or_update_schema_extension vis=pub ret=r serves=C20
//@rw R4
//@sub "db\.get_standard_sources_mut\(\)\s*\.tracked\(\)" => "db.standard_sources_mut()" n=*
//@contract
    ensures
        final(db).cwd() == old(db).cwd(), final(db).config() == old(db).config(),
        match schema_file_read(*path) {
            // the extension is read again and recorded under its relative path
            Ok(text) => r is Ok && final(db).ops() == old(db).ops()
                .push(DbOp::SetSchema(rel_file(old(db).cwd(), *path), text))
                .push(DbOp::RecordExtension(rel_file(old(db).cwd(), *path), SourceId::of_schema(rel_file(old(db).cwd(), *path)))),
            Err(e) => r is Err && final(db).ops() == old(db).ops(),
        }, //@O C20.O-3_changed_schema_extension_is_reread_and_recorded
//@end

//@fn rel=crates/isograph_compiler/src/source_files.rs name=handle_update_schema_extensions vis=pub ret=r serves=C20
//@rw R4
//@sub "db\s*\.get_isograph_config\(\)\s*\.schema_extensions\s*\.iter\(\)\s*\.any\(\|x\| x\.absolute_path == \*target_path\)" => "any_extension_has_path(db.get_isograph_config(), target_path)" n=1
//@contract
    ensures
        final(db).cwd() == old(db).cwd(), final(db).config() == old(db).config(),
        match *event_kind {
            SourceEventKind::CreateOrModify(path) => match schema_file_read(path) {
                Ok(text) => r is Ok && final(db).ops() == old(db).ops()
                    .push(DbOp::SetSchema(rel_file(old(db).cwd(), path), text))
                    .push(DbOp::RecordExtension(rel_file(old(db).cwd(), path), SourceId::of_schema(rel_file(old(db).cwd(), path)))),
                Err(e) => r is Err && final(db).ops() == old(db).ops(),
            },
            // renamed onto a configured extension path: that extension is read again;
            // renamed to anything else: the extension recorded under the old path is dropped
            SourceEventKind::Rename((source_path, target_path)) =>
                if is_extension_path(old(db).config(), target_path) {
                    match schema_file_read(target_path) {
                        Ok(text) => r is Ok && final(db).ops() == old(db).ops()
                            .push(DbOp::SetSchema(rel_file(old(db).cwd(), target_path), text))
                            .push(DbOp::RecordExtension(rel_file(old(db).cwd(), target_path), SourceId::of_schema(rel_file(old(db).cwd(), target_path)))),
                        Err(e) => r is Err && final(db).ops() == old(db).ops(),
                    }
                } else {
                    r is Ok && final(db).ops() == old(db).ops().push(DbOp::RemoveExtension(rel_file(old(db).cwd(), source_path)))
                },
            SourceEventKind::Remove(path) => r is Ok
                && final(db).ops() == old(db).ops().push(DbOp::RemoveExtension(rel_file(old(db).cwd(), path))),
        }, //@O C20.O-3_schema_extension_event_rereads_or_drops_the_extension
//@end

// =====================================================================================
// The fresh start (initialize_sources): what a batch compile reads, in the same vocabulary
// =====================================================================================
/// every configured extension read so far succeeded
pub open spec fn exts_readable(exts: Seq<AbsolutePathAndRelativePath>, k: int) -> bool {
    forall|i: int| 0 <= i < k ==> schema_file_read((#[trigger] exts[i]).absolute_path) is Ok
}
/// ops extended by one SetSchema per extension, in configuration order
pub open spec fn exts_set(ops: Seq<DbOp>, exts: Seq<AbsolutePathAndRelativePath>, k: int) -> Seq<DbOp>
    decreases k
{
    if k <= 0 { ops } else { exts_set(ops, exts, k - 1).push(DbOp::SetSchema(exts[k - 1].relative_path, schema_file_read(exts[k - 1].absolute_path)->Ok_0)) }
}
/// the (path, id) pairs recorded for the extensions
pub open spec fn exts_recorded(exts: Seq<AbsolutePathAndRelativePath>, k: int) -> Seq<(RelativePathToSourceFile, SourceId)>
    decreases k
{
    if k <= 0 { Seq::empty() } else { exts_recorded(exts, k - 1).push((exts[k - 1].relative_path, SourceId::of_schema(exts[k - 1].relative_path))) }
}

//@fn rel=crates/isograph_compiler/src/source_files.rs name=read_schema_extensions vis=pub ret=r serves=C20
//@rw R4
//@hsub "BTreeMap<RelativePathToSourceFile, SourceId<SchemaSource>>" => "ExtensionMap"
//@sub "db\.get_isograph_config\(\)\.schema_extensions\.clone\(\)" => "clone_extensions(&db.get_isograph_config().schema_extensions)" n=1
//@sub "BTreeMap::new\(\)" => "ExtensionMap::new()" n=1
//@sub "for schema_extension_path in config_schema_extensions\.iter\(\) \{" => "for schema_extension_path in ite: config_schema_extensions.iter() {" n=1
//@contract
    ensures
        final(db).cwd() == old(db).cwd(), final(db).config() == old(db).config(), final(db).schema_id() == old(db).schema_id(),
        // every configured extension is read, in order, and recorded under its relative path
        exts_readable(old(db).config().schema_extensions@, old(db).config().schema_extensions@.len() as int) ==>
            r is Ok
            && final(db).ops() == exts_set(old(db).ops(), old(db).config().schema_extensions@, old(db).config().schema_extensions@.len() as int)
            && r->Ok_0.log() == exts_recorded(old(db).config().schema_extensions@, old(db).config().schema_extensions@.len() as int), //@O C20.O-4_a_fresh_start_reads_every_configured_schema_extension
        !exts_readable(old(db).config().schema_extensions@, old(db).config().schema_extensions@.len() as int) ==> r is Err,
//@loop 1
        invariant
            db.cwd() == old(db).cwd(), db.config() == old(db).config(), db.schema_id() == old(db).schema_id(),
            ite.seq().len() == config_schema_extensions@.len(),
            forall|k: int| 0 <= k < ite.seq().len() ==> *(#[trigger] ite.seq()[k]) == config_schema_extensions@[k],
            config_schema_extensions@ == old(db).config().schema_extensions@,
            exts_readable(config_schema_extensions@, ite.index@ as int),
            db.ops() == exts_set(old(db).ops(), config_schema_extensions@, ite.index@ as int),
            schema_extensions.log() == exts_recorded(config_schema_extensions@, ite.index@ as int),
//@end

//@fn rel=crates/isograph_compiler/src/source_files.rs name=read_iso_literals_from_project_root vis=pub ret=r serves=C20
//@rw R23
//@sub "db\.get_isograph_config\(\)\.project_root\.clone\(\)" => "db.get_isograph_config().project_root.clone()" n=1
//@contract
    ensures
        final(db).cwd() == old(db).cwd(), final(db).config() == old(db).config(), final(db).schema_id() == old(db).schema_id(),
        match folder_read(old(db).config().project_root, old(db).cwd()) {
            Ok(files) => r is Ok && final(db).ops() == inserted(old(db).ops(), files, files.len() as int),
            Err(e) => r is Err && final(db).ops() == old(db).ops(),
        }, //@O C20.O-4_a_fresh_start_reads_every_source_file_below_the_project_root
//@end

//@fn rel=crates/isograph_compiler/src/source_files.rs name=initialize_sources vis=pub ret=r serves=C20
//@rw R4
//@sub "\*db\.get_standard_sources_mut\(\)\.tracked\(\) =" => "*db.standard_sources_mut() =" n=1
//@contract
    ensures
        final(db).cwd() == old(db).cwd(), final(db).config() == old(db).config(),
        // the reference for C20: a fresh start reads the schema, every configured extension (and
        // records it), then every source file below the project root - exactly what the event
        // handlers above reproduce piecewise
        ({
            let c = old(db).config();
            let n = c.schema_extensions@.len() as int;
            schema_file_read(c.schema.absolute_path) is Ok && exts_readable(c.schema_extensions@, n)
                && folder_read(c.project_root, old(db).cwd()) is Ok
            ==> {
                let o1 = old(db).ops().push(DbOp::SetSchema(c.schema.relative_path, schema_file_read(c.schema.absolute_path)->Ok_0));
                let o2 = exts_set(o1, c.schema_extensions@, n);
                let o3 = o2 + exts_recorded(c.schema_extensions@, n).map_values(|kv: (RelativePathToSourceFile, SourceId)| DbOp::RecordExtension(kv.0, kv.1));
                let files = folder_read(c.project_root, old(db).cwd())->Ok_0;
                r is Ok && final(db).ops() == inserted(o3, files, files.len() as int)
                    && final(db).schema_id() == SourceId::of_schema(c.schema.relative_path)
            }
        }), //@O C20.O-4_a_fresh_start_reads_schema_extensions_and_sources_in_this_order
//@end

} // verus!
fn main() {}
