//! In-place Kani unit for the real intern::small_bytes (path dependency on /repo; the hook
//! re-exports the private type, nothing else).
#![allow(unused)]
#[path = "../../../common/src_kani.rs"]
pub mod src_kani;
pub mod target {
    pub use intern::verif_hooks::SmallBytes;
}
#[path = "../../harness.rs"]
pub mod harness;
