//! C05 at the representation level: the bytes stored for an interned value are exactly
//! the bytes that were interned ("looking up an id returns a value equal to the one
//! interned"), and equality of stored values is equality of bytes across the inline
//! (<= 22 bytes) and boxed representations. Lengths 0..=24 span both representations.
use super::src_kani::Src;
#[cfg(kani)]
use super::src_kani::KaniSrc;
use super::target::SmallBytes;

#[cfg(verif_deep)]
pub const N: usize = 32;
#[cfg(not(verif_deep))]
pub const N: usize = 24;

fn sym_bytes<S: Src>(s: &mut S, buf: &mut [u8; N]) -> usize {
    let len = s.usize();
    s.assume(len <= N);
    let mut i = 0;
    while i < N {
        buf[i] = s.u8();
        i += 1;
    }
    len
}

/// C05.O-1  &*SmallBytes::from(b) == b, len() == b.len() (which representation is chosen is not
/// part of the property and is not asserted)
pub fn from_slice_reads_back<S: Src>(s: &mut S) {
    let mut buf = [0u8; N];
    let len = sym_bytes(s, &mut buf);
    s.cover(len == 22);
    s.cover(len == 23);
    let sb = SmallBytes::from(&buf[..len]);
    assert!(sb.len() == len);
    assert!(sb.is_empty() == (len == 0));
    assert!(&*sb == &buf[..len]);
}

/// C05.O-1 for the owning constructors (Vec<u8>, Box<[u8]>)
pub fn from_vec_reads_back<S: Src>(s: &mut S) {
    let mut buf = [0u8; N];
    let len = sym_bytes(s, &mut buf);
    let v: Vec<u8> = buf[..len].to_vec();
    let sb = SmallBytes::from(v);
    assert!(&*sb == &buf[..len]);
    let b: Box<[u8]> = buf[..len].into();
    let sb2 = SmallBytes::from(b);
    assert!(&*sb2 == &buf[..len]);
    assert!(sb == sb2);
}

/// C05.O-2  a == b  <=>  same bytes (both representations, both orders)
pub fn eq_iff_same_bytes<S: Src>(s: &mut S) {
    let mut b1 = [0u8; N];
    let mut b2 = [0u8; N];
    let l1 = sym_bytes(s, &mut b1);
    let l2 = sym_bytes(s, &mut b2);
    let x = SmallBytes::from(&b1[..l1]);
    let y = SmallBytes::from(&b2[..l2]);
    let same = b1[..l1] == b2[..l2];
    assert!((x == y) == same);
    assert!((y == x) == same);
}

pub fn canary_small_bytes<S: Src>(s: &mut S) {
    let mut buf = [0u8; N];
    let len = sym_bytes(s, &mut buf);
    let sb = SmallBytes::from(&buf[..len]);
    assert!(sb.len() < 23);
}

pub fn dispatch<S: Src>(name: &str, s: &mut S) -> bool {
    match name {
        "from_slice_reads_back" => from_slice_reads_back(s),
        "from_vec_reads_back" => from_vec_reads_back(s),
        "eq_iff_same_bytes" => eq_iff_same_bytes(s),
        _ => return false,
    }
    true
}

#[cfg(kani)]
mod proofs {
    use super::*;
    #[kani::proof]
    #[kani::unwind(34)]
    fn from_slice_reads_back() { super::from_slice_reads_back(&mut KaniSrc) }
    #[kani::proof]
    #[kani::unwind(34)]
    fn from_vec_reads_back() { super::from_vec_reads_back(&mut KaniSrc) }
    #[kani::proof]
    #[kani::unwind(34)]
    fn eq_iff_same_bytes() { super::eq_iff_same_bytes(&mut KaniSrc) }
    #[kani::proof]
    #[kani::unwind(34)]
    fn canary_small_bytes() { super::canary_small_bytes(&mut KaniSrc) }
}
