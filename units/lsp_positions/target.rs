// unit lsp_positions — extracted Kani crate. Real function text from crates/isograph_lsp
// (pulled on every run); lsp_types / isograph_schema types replaced by field-compatible
// stand-ins (only the fields these functions touch).
pub struct Position { pub line: u32, pub character: u32 }
pub struct Range { pub start: Position, pub end: Position }
pub struct IsoLiteralExtraction { pub iso_literal_text: String, pub iso_literal_start_index: usize }

//@fn rel=crates/isograph_lsp/src/semantic_tokens.rs name=delta_line_delta_start vis=pub serves=C23
//@end

//@fn rel=crates/isograph_lsp/src/format.rs name=char_index_to_position vis=pub serves=C22,C23
//@end

//@fn rel=crates/isograph_lsp/src/format.rs name=get_range_of_extraction vis=pub serves=C22
//@end

// ---- adapters with the same signatures as isograph_lsp::verif_hooks (real code) ----
pub fn api_delta(text: &str) -> (u32, u32) { delta_line_delta_start(text) }
pub fn api_position(content: &str, index: usize) -> (u32, u32) {
    let p = char_index_to_position(content, index);
    (p.line, p.character)
}
pub fn api_range(content: &str, start: usize, len: usize) -> ((u32, u32), (u32, u32)) {
    let extraction = IsoLiteralExtraction {
        iso_literal_text: content[start..start + len].to_string(),
        iso_literal_start_index: start,
    };
    let r = get_range_of_extraction(&extraction, content);
    ((r.start.line, r.start.character), (r.end.line, r.end.character))
}
