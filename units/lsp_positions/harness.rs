//! Contracts for the LSP position kernels. Oracle = LSP 3.17 position semantics written
//! directly from the protocol text: `line` = number of '\n' before the offset,
//! `character` = UTF-16 code units between the last '\n' (or start) and the offset.
use super::src_kani::Src;
#[cfg(kani)]
use super::src_kani::KaniSrc;
use super::target::{api_delta, api_position, api_range};

#[cfg(verif_n6)]
pub const N: usize = 6;
#[cfg(not(verif_n6))]
pub const N: usize = 4;

/// LSP position of byte offset `off` (a char boundary) in `text`.
pub fn lsp_pos(text: &str, off: usize) -> (u32, u32) {
    let b = text.as_bytes();
    let mut line = 0u32;
    let mut col = 0u32;
    let mut i = 0usize;
    while i < off {
        let c = b[i];
        if c == b'\n' {
            line += 1;
            col = 0;
            i += 1;
        } else if c < 0x80 {
            col += 1;
            i += 1;
        } else if c < 0xE0 {
            col += 1; // 2-byte sequence: one UTF-16 unit
            i += 2;
        } else if c < 0xF0 {
            col += 1; // 3-byte sequence: one UTF-16 unit
            i += 3;
        } else {
            col += 2; // 4-byte sequence: surrogate pair
            i += 4;
        }
    }
    (line, col)
}

/// symbolic valid UTF-8 text of at most N bytes
fn sym_text<'a, S: Src>(s: &mut S, buf: &'a mut [u8; N], ascii_only: bool) -> &'a str {
    let len = s.usize();
    s.assume(len <= N);
    let mut i = 0;
    while i < N {
        buf[i] = s.u8();
        if ascii_only {
            s.assume(buf[i] < 0x80);
        }
        i += 1;
    }
    match core::str::from_utf8(&buf[..len]) {
        Ok(t) => t,
        Err(_) => {
            s.assume(false);
            ""
        }
    }
}

/// C23.O-1  delta_line_delta_start(text) == (number of line breaks, UTF-16 units after the last one)
pub fn delta_utf8<S: Src>(s: &mut S) {
    let mut buf = [0u8; N];
    let t = sym_text(s, &mut buf, false);
    s.cover(t.len() == N);
    let got = api_delta(t);
    assert!(got == lsp_pos(t, t.len()));
}
pub fn delta_ascii<S: Src>(s: &mut S) {
    let mut buf = [0u8; N];
    let t = sym_text(s, &mut buf, true);
    let got = api_delta(t);
    assert!(got == lsp_pos(t, t.len()));
}

/// C23.O-2  char_index_to_position(content, i) is the LSP position of byte offset i, for
/// every char-boundary offset i (precondition taken from the call sites: literal start/end)
pub fn position_utf8<S: Src>(s: &mut S) {
    let mut buf = [0u8; N];
    let t = sym_text(s, &mut buf, false);
    let i = s.usize();
    s.assume(i <= t.len() && t.is_char_boundary(i));
    let got = api_position(t, i);
    assert!(got == lsp_pos(t, i));
}
pub fn position_ascii<S: Src>(s: &mut S) {
    let mut buf = [0u8; N];
    let t = sym_text(s, &mut buf, true);
    let i = s.usize();
    s.assume(i <= t.len());
    let got = api_position(t, i);
    assert!(got == lsp_pos(t, i));
}

/// C22.O-1  the edit range of a literal is exactly [pos(start), pos(start + len))
pub fn range_utf8<S: Src>(s: &mut S) {
    let mut buf = [0u8; N];
    let t = sym_text(s, &mut buf, false);
    let start = s.usize();
    let len = s.usize();
    s.assume(start <= t.len() && len <= t.len() - start);
    s.assume(t.is_char_boundary(start) && t.is_char_boundary(start + len));
    let (a, b) = api_range(t, start, len);
    assert!(a == lsp_pos(t, start));
    assert!(b == lsp_pos(t, start + len));
}

/// canary: must FAIL
pub fn canary_delta<S: Src>(s: &mut S) {
    let mut buf = [0u8; N];
    let t = sym_text(s, &mut buf, true);
    let got = api_delta(t);
    assert!(got.0 == 0);
}

pub fn dispatch<S: Src>(name: &str, s: &mut S) -> bool {
    match name {
        "delta_utf8" => delta_utf8(s),
        "delta_ascii" => delta_ascii(s),
        "position_utf8" => position_utf8(s),
        "position_ascii" => position_ascii(s),
        "range_utf8" => range_utf8(s),
        _ => return false,
    }
    true
}

#[cfg(kani)]
mod proofs {
    use super::*;
    #[kani::proof]
    #[kani::unwind(9)]
    fn delta_utf8() { super::delta_utf8(&mut KaniSrc) }
    #[kani::proof]
    #[kani::unwind(9)]
    fn delta_ascii() { super::delta_ascii(&mut KaniSrc) }
    #[kani::proof]
    #[kani::unwind(9)]
    fn position_utf8() { super::position_utf8(&mut KaniSrc) }
    #[kani::proof]
    #[kani::unwind(9)]
    fn position_ascii() { super::position_ascii(&mut KaniSrc) }
    #[kani::proof]
    #[kani::unwind(9)]
    fn range_utf8() { super::range_utf8(&mut KaniSrc) }
    #[kani::proof]
    #[kani::unwind(9)]
    fn canary_delta() { super::canary_delta(&mut KaniSrc) }
}
