// unit pico_source — Verus. Real function bodies from crates/pico (extracted on every run)
// verified against assumed library contracts for dashmap / boxcar / NonZeroUsize.
// Serves C01 (clock discipline on the source side) and C02 (equal-value writes are inert).
use vstd::prelude::*;
use vstd::std_specs::cmp::*;
verus! {

// =====================================================================================
// Assumed library contracts (trusted base; hand written)
// =====================================================================================

// core::num::NonZeroUsize
#[derive(Clone, Copy, PartialEq, Eq, Structural)]
pub struct NonZeroUsize(pub usize);
impl NonZeroUsize {
    pub fn new(v: usize) -> (r: Option<Self>)
        ensures v == 0 ==> r is None, v != 0 ==> r == Some(NonZeroUsize(v)),
    { if v == 0 { None } else { Some(NonZeroUsize(v)) } }
    pub fn get(self) -> (r: usize) ensures r == self.0 { self.0 }
}

// dashmap::DashMap — modelled with `&mut self` (sound only for the `&mut self` callers
// verified here: no concurrent access while a `&mut InternalStorage` exists)
#[verifier::external_body]
#[verifier::reject_recursive_types(K)]
#[verifier::reject_recursive_types(V)]
pub struct DashMap<K, V> { k: core::marker::PhantomData<(K, V)> }
impl<K, V> View for DashMap<K, V> { type V = Map<K, V>; uninterp spec fn view(&self) -> Map<K, V>; }

impl<K, V> DashMap<K, V> {
    #[verifier::external_body]
    pub fn insert_mut(&mut self, key: K, value: V)
        ensures final(self)@ == old(self)@.insert(key, value)
    { unimplemented!() }
    #[verifier::external_body]
    pub fn get(&self, key: &K) -> (r: Option<&V>)
        ensures match r { Some(v) => self@.contains_key(*key) && self@[*key] == *v, None => !self@.contains_key(*key) }
    { unimplemented!() }
    /// `get_mut(&k)`: a guard through which the value under `k` may be changed; nothing else changes
    #[verifier::external_body]
    pub fn get_mut(&mut self, key: &K) -> (r: Option<&mut V>)
        ensures
            old(self)@.contains_key(*key) ==> r is Some && *r->Some_0 == old(self)@[*key]
                && final(self)@ == old(self)@.insert(*key, *final(r->Some_0)),
            !old(self)@.contains_key(*key) ==> r is None && final(self)@ == old(self)@,
    { unimplemented!() }
    #[verifier::external_body]
    pub fn remove(&mut self, key: &K) -> (r: Option<(K, V)>)
        ensures
            match r {
                Some(kv) => old(self)@.contains_key(*key) && kv.0 == *key && kv.1 == old(self)@[*key],
                None => !old(self)@.contains_key(*key),
            },
            final(self)@ == old(self)@.remove(*key),
    { unimplemented!() }
    #[verifier::external_body]
    pub fn entry<'a>(&'a mut self, key: K) -> (e: Entry<'a, K, V>)
        ensures e.key() == key, e.map_cur() == old(self)@, e.map_fin() == final(self)@,
            (e is Occupied) == old(self)@.contains_key(key),
    { unimplemented!() }
}
#[verifier::reject_recursive_types(K)]
#[verifier::reject_recursive_types(V)]
pub struct OccupiedEntry<'a, K, V> { pub map: &'a mut DashMap<K, V>, pub key: K }
#[verifier::reject_recursive_types(K)]
#[verifier::reject_recursive_types(V)]
pub struct VacantEntry<'a, K, V> { pub map: &'a mut DashMap<K, V>, pub key: K }
#[verifier::reject_recursive_types(K)]
#[verifier::reject_recursive_types(V)]
pub enum Entry<'a, K, V> { Occupied(OccupiedEntry<'a, K, V>), Vacant(VacantEntry<'a, K, V>) }
impl<'a, K, V> Entry<'a, K, V> {
    pub open spec fn key(&self) -> K { match self { Entry::Occupied(o) => o.key, Entry::Vacant(v) => v.key } }
    pub open spec fn map_cur(&self) -> Map<K, V> { match self { Entry::Occupied(o) => o.map@, Entry::Vacant(v) => v.map@ } }
    #[verifier::prophetic]
    pub open spec fn map_fin(&self) -> Map<K, V> { match self { Entry::Occupied(o) => final(o.map)@, Entry::Vacant(v) => final(v.map)@ } }
}
impl<'a, K, V> VacantEntry<'a, K, V> {
    #[verifier::external_body]
    pub fn insert(self, value: V) ensures final(self.map)@ == old(self.map)@.insert(self.key, value)
    { unimplemented!() }
}
impl<'a, K, V> OccupiedEntry<'a, K, V> {
    pub open spec fn m(&self) -> Map<K, V> { self.map@ }
    /// what the map will hold when the entry is dropped
    #[verifier::prophetic]
    pub open spec fn fin(&self) -> Map<K, V> { final(self.map)@ }
    #[verifier::external_body]
    pub fn get(&self) -> (r: &V) requires self.m().contains_key(self.key) ensures *r == self.m()[self.key]
    { unimplemented!() }
    /// the value under the key may be changed through the reference; nothing else changes
    #[verifier::external_body]
    pub fn get_mut(&mut self) -> (r: &mut V)
        requires old(self).m().contains_key(old(self).key)
        ensures *r == old(self).m()[old(self).key], final(self).key == old(self).key,
            final(self).m() == old(self).m().insert(old(self).key, *final(r)),
            final(self).fin() == old(self).fin(),
    { unimplemented!() }
}

// boxcar::Vec — append-only; `push` returns the index of the new element. Modelled with
// `&mut self` (same remark as DashMap).
#[verifier::external_body]
#[verifier::reject_recursive_types(T)]
pub struct BoxcarVec<T> { k: core::marker::PhantomData<T> }
impl<T> View for BoxcarVec<T> { type V = Seq<T>; uninterp spec fn view(&self) -> Seq<T>; }
impl<T> BoxcarVec<T> {
    #[verifier::external_body]
    pub fn push(&mut self, t: T) -> (i: usize)
        ensures final(self)@ == old(self)@.push(t), i == old(self)@.len()
    { unimplemented!() }
    #[verifier::external_body]
    pub fn get(&self, i: usize) -> (r: Option<&T>)
        ensures i < self@.len() ==> r is Some && *r->Some_0 == self@[i as int],
                i >= self@.len() ==> r is None,
    { unimplemented!() }
    #[verifier::external_body]
    pub fn get_mut(&mut self, i: usize) -> (r: Option<&mut T>)
        ensures
            i < old(self)@.len() ==> r is Some && *r->Some_0 == old(self)@[i as int]
                && final(self)@ == old(self)@.update(i as int, *final(r->Some_0)),
            i >= old(self)@.len() ==> r is None && final(self)@ == old(self)@,
    { unimplemented!() }
}

// R5: opaque stand-in for Box<dyn DynEq>; `val()` is the equality oracle: two values are
// dyn_eq iff their val() agree (assumes PartialEq on sources is an equivalence that
// `val` represents).
#[verifier::external_body]
pub struct DynBox { p: core::marker::PhantomData<u8> }
impl DynBox {
    pub uninterp spec fn val(&self) -> int;
    #[verifier::external_body]
    pub fn new<T: DynEq>(t: T) -> (r: DynBox) ensures r.val() == t.val() { unimplemented!() }
    #[verifier::external_body]
    pub fn dyn_eq<T: DynEq>(&self, other: &T) -> (r: bool) ensures r == (self.val() == other.val()) { unimplemented!() }
    /// `*a != *b` on two boxed values (PartialEq for dyn DynEq)
    #[verifier::external_body]
    pub fn ne_box(&self, other: &DynBox) -> (r: bool) ensures r == (self.val() != other.val()) { unimplemented!() }
}
pub trait DynEq { spec fn val(&self) -> int; }
#[verifier::external_body]
pub struct AnyBox { p: core::marker::PhantomData<u8> }

pub trait Database: Sized {
    spec fn storage_spec(&self) -> &Storage<Self>;
    fn get_storage(&self) -> (r: &Storage<Self>) ensures r == self.storage_spec();
}
use core::marker::PhantomData;

// R8: interned ids as integer newtypes
#[derive(Clone, Copy, PartialEq, Eq, Structural)]
pub struct HashId(pub u64);
#[derive(Clone, Copy, PartialEq, Eq, Structural)]
pub struct Key(pub HashId);
#[derive(Clone, Copy, PartialEq, Eq, Structural)]
pub struct ParamId(pub HashId);
#[derive(Clone, Copy, PartialEq, Eq, Structural)]
pub struct DerivedNodeId(pub u32);

// =====================================================================================
// Extracted types (real text; derive lists reduced, R9)
// =====================================================================================
//@item rel=crates/pico/src/epoch.rs kind=const name=INIT
//@item rel=crates/pico/src/epoch.rs kind=struct name=Epoch prefix="#[derive(Clone, Copy, PartialEq, Eq, Structural)] pub"

// derive(PartialOrd, Ord) on Epoch(NonZeroUsize): assumed to be the numeric order of the
// field (semantics of the derive + of NonZeroUsize's Ord)
impl PartialOrdSpecImpl for Epoch {
    open spec fn obeys_partial_cmp_spec() -> bool { true }
    open spec fn partial_cmp_spec(&self, other: &Epoch) -> Option<core::cmp::Ordering> {
        if self.0.0 < other.0.0 { Some(core::cmp::Ordering::Less) }
        else if self.0.0 == other.0.0 { Some(core::cmp::Ordering::Equal) }
        else { Some(core::cmp::Ordering::Greater) }
    }
}
impl PartialOrd for Epoch {
    #[verifier::external_body]
    fn partial_cmp(&self, other: &Epoch) -> (r: Option<core::cmp::Ordering>) { unimplemented!() }
}
// std::cmp::max on Epoch (assumed contract of core::cmp::max under the order above)
#[verifier::external_body]
pub fn epoch_max(a: Epoch, b: Epoch) -> (r: Epoch)
    ensures r == (if a.t() >= b.t() { a } else { b })
{ unimplemented!() }

impl Epoch {
    pub open spec fn t(&self) -> nat { self.0.0 as nat }

//@fn rel=crates/pico/src/epoch.rs name=new within="impl Epoch" vis=pub ret=r serves=C01,C02
//@contract
        ensures r.t() == 1, //@O C01+C02.epoch_new
//@end

//@fn rel=crates/pico/src/epoch.rs name=from within="impl Epoch" vis=pub ret=r serves=C01,C02
//@rw R2
//@contract
        requires value != 0,
        ensures r.t() == value, //@O C01+C02.epoch_from
//@end

//@fn rel=crates/pico/src/epoch.rs name=increment within="impl Epoch" vis=pub ret=r serves=C01,C02
//@contract
        requires old(self).t() < usize::MAX,
        ensures
            final(self).t() == old(self).t() + 1, //@O C01.epoch_increment_strict
            r == *final(self), //@O C01.epoch_increment_returns_new
//@end
}

//@item rel=crates/pico/src/index.rs kind=struct name=Index prefix="#[derive(Clone, Copy)] pub"
impl<T> Index<T> {
//@fn rel=crates/pico/src/index.rs name=new within="impl<T> Index<T>" vis=pub ret=r
//@contract
        ensures r.idx == idx,
//@end
}

//@item rel=crates/pico/src/source.rs kind=struct name=SourceNode prefix="pub" sub="Box<dyn DynEq>=>DynBox"
//@item rel=crates/pico/src/source.rs kind=struct name=SourceId prefix="pub"
impl<T> Clone for SourceId<T> { fn clone(&self) -> (r: Self) ensures r == *self { SourceId { key: self.key, phantom: PhantomData } } }
impl<T> Copy for SourceId<T> {}

pub trait Source { spec fn key_spec(&self) -> Key; fn get_key(&self) -> (r: Key) ensures r == self.key_spec(); }
pub trait Singleton: Source { spec fn singleton_key_spec() -> Key; fn get_singleton_key() -> (r: Key) ensures r == Self::singleton_key_spec(); }

impl<T> SourceId<T> {
//@fn rel=crates/pico/src/source.rs name=new within="impl<T> SourceId<T>" vis=pub ret=r
//@hsub "source: &impl Source" => "source: &S"
//@hsub "fn new" => "fn new<S: Source>"
//@contract
        ensures r.key == source.key_spec(),
//@end
    // `impl<T> From<Key> for SourceId<T>` (used via `.into()` in remove_singleton)
    pub fn from_key(key: Key) -> (r: Self) ensures r.key == key { SourceId { key, phantom: PhantomData } }
}

//@item rel=crates/pico/src/dependency.rs kind=struct name=Dependency prefix="#[derive(Clone, Copy)] pub"
//@item rel=crates/pico/src/dependency.rs kind=enum name=NodeKind prefix="#[derive(Clone, Copy, PartialEq, Eq, Structural)] pub"
//@item rel=crates/pico/src/dependency.rs kind=struct name=TrackedDependencies prefix="pub"

impl TrackedDependencies {
//@fn rel=crates/pico/src/dependency.rs name=new within="impl TrackedDependencies" vis=pub ret=r rename=td_new serves=C01,C02
//@sub "vec!\[\]" => "Vec::new()" n=1
//@contract
        ensures
            r.dependencies@.len() == 0 && r.max_time_updated.t() == 1 && r.derived_node_id == derived_node_id, //@O C01+C02.O-6_tracked_new_empty
//@end

//@fn rel=crates/pico/src/dependency.rs name=push within="impl TrackedDependencies" vis=pub rename=td_push serves=C01,C02
//@rw R3
//@sub "std::cmp::max\(" => "epoch_max(" n=*
//@contract
        ensures
            // max, not overwrite: the parent's time_updated can only grow
            final(self).max_time_updated.t() == (if time_updated.t() >= old(self).max_time_updated.t() { time_updated.t() } else { old(self).max_time_updated.t() }), //@O C01+C02.O-6_push_max_time_updated_is_max
            // the dependency is recorded, last, with the newest verification time
            final(self).dependencies@.len() > 0
                && final(self).dependencies@.last().node_to == dependency.node_to
                && final(self).dependencies@.last().time_verified_or_updated == dependency.time_verified_or_updated, //@O C01.O-6_push_records_dependency
            // earlier entries are untouched (only a same-node LAST entry may be coalesced)
            (final(self).dependencies@.len() == old(self).dependencies@.len() + 1
                && final(self).dependencies@.drop_last() == old(self).dependencies@)
            || (old(self).dependencies@.len() > 0
                && old(self).dependencies@.last().node_to == dependency.node_to
                && final(self).dependencies@.len() == old(self).dependencies@.len()
                && final(self).dependencies@.drop_last() == old(self).dependencies@.drop_last()), //@O C01+C02.O-6_push_frame_earlier_dependencies
            final(self).derived_node_id == old(self).derived_node_id,
//@end
}
#[derive(Clone, Copy)]
pub struct DerivedNodeRevision {
    pub time_updated: Epoch,
    pub time_verified: Epoch,
    pub node_index: Index<DerivedNodeId>,
    pub dependency_index: Index<Dependency>,
}
// InnerFn<Db>(pub fn(&Db, DerivedNodeId) -> Option<Box<dyn DynEq>>): the function pointer as a token
#[verifier::reject_recursive_types(Db)]
pub struct InnerFn<Db>(pub u64, pub core::marker::PhantomData<Db>);
impl<Db> Clone for InnerFn<Db> { fn clone(&self) -> (r: Self) ensures r == *self { InnerFn(self.0, core::marker::PhantomData) } }
impl<Db> Copy for InnerFn<Db> {}
// DerivedNode<Db> { inner_fn, value: Box<dyn DynEq> } (R5: the boxed value is opaque)
#[verifier::reject_recursive_types(Db)]
pub struct DerivedNode<Db> { pub inner_fn: InnerFn<Db>, pub value: DynBox }

//@item rel=crates/pico/src/database.rs kind=struct name=InternalStorage prefix="#[verifier::reject_recursive_types(Db)] pub" sub="Box<dyn Any>=>AnyBox" sub2="<Db: Database>=><Db>"

// =====================================================================================
// Abstract view and representation invariant
// =====================================================================================
impl<Db: Database> InternalStorage<Db> {
    #[verifier::inline]
    pub open spec fn has(&self, k: Key) -> bool { self.source_node_key_to_index@.contains_key(k) }
    pub open spec fn node(&self, k: Key) -> SourceNode {
        self.source_nodes@[self.source_node_key_to_index@[k].idx as int]->Some_0
    }
    /// value token of the source stored under k
    pub open spec fn val(&self, k: Key) -> int { self.node(k).value.val() }
    /// logical time at which the value under k last changed
    pub open spec fn stamp(&self, k: Key) -> nat { self.node(k).time_updated.t() }
    pub open spec fn now(&self) -> nat { self.current_epoch.t() }

    /// representation invariant: every index points at a live slot, distinct keys use
    /// distinct slots, and no source is stamped in the future
    pub open spec fn wf(&self) -> bool {
        &&& forall|k: Key| #[trigger] self.has(k) ==>
                self.source_node_key_to_index@[k].idx < self.source_nodes@.len()
                && self.source_nodes@[self.source_node_key_to_index@[k].idx as int] is Some
                && self.stamp(k) <= self.now()
        &&& forall|k1: Key, k2: Key| #[trigger] self.has(k1) && #[trigger] self.has(k2) && k1 != k2 ==>
                self.source_node_key_to_index@[k1].idx != self.source_node_key_to_index@[k2].idx
        &&& self.now() >= 1
    }
    /// everything a memoized function can observe about sources other than k is unchanged
    pub open spec fn others_unchanged(&self, old_: &Self, k: Key) -> bool {
        forall|k2: Key| k2 != k ==> (#[trigger] self.has(k2) == old_.has(k2))
            && (old_.has(k2) ==> self.val(k2) == old_.val(k2) && self.stamp(k2) == old_.stamp(k2))
    }
    /// the derived-node side of the storage is untouched
    pub open spec fn derived_side_unchanged(&self, old_: &Self) -> bool {
        &&& self.param_id_to_index@ == old_.param_id_to_index@
        &&& self.derived_node_id_to_revision@ == old_.derived_node_id_to_revision@
        &&& self.derived_nodes@ == old_.derived_nodes@
        &&& self.derived_node_dependencies@ == old_.derived_node_dependencies@
        &&& self.params@ == old_.params@
    }

// ---- real code under contract ------------------------------------------------------

//@fn rel=crates/pico/src/database.rs name=get_source_node within="impl<Db: Database> InternalStorage<Db>" vis=pub ret=r serves=C01,C02
//@rw R2
//@contract
        requires self.wf(),
        ensures
            self.has(key) ==> r is Some && r->Some_0.value.val() == self.val(key) && r->Some_0.time_updated.t() == self.stamp(key), //@O C01.get_source_node_present
            !self.has(key) ==> r is None, //@O C01.get_source_node_absent
//@end

//@fn rel=crates/pico/src/database.rs name=insert_source_node within="impl<Db: Database> InternalStorage<Db>" vis=pub ret=r
//@hsub "&self" => "&mut self"
//@contract
        ensures
            final(self).source_nodes@ == old(self).source_nodes@.push(Some(source_node)),
            r.idx == old(self).source_nodes@.len(),
            final(self).source_node_key_to_index@ == old(self).source_node_key_to_index@,
            final(self).current_epoch == old(self).current_epoch,
            final(self).derived_side_unchanged(old(self)),
//@end

//@fn rel=crates/pico/src/database.rs name=set_source within="impl<Db: Database> InternalStorage<Db>" vis=pub serves=C01,C02
//@rw R2 R5
//@inline rel=crates/pico/src/database.rs name=insert_source_node within="impl<Db: Database> InternalStorage<Db>"
//@contract
        requires old(self).wf(), old(self).now() < usize::MAX,
        ensures
            final(self).wf(), //@O C01+C02.set_source_wf
            // O-1 whole-view postcondition + frame
            final(self).has(source_id.key) && final(self).val(source_id.key) == source.val(), //@O C01.O-1_set_source_stores_value
            final(self).others_unchanged(old(self), source_id.key), //@O C01+C02.O-1_set_source_frame_other_sources
            final(self).derived_side_unchanged(old(self)), //@O C01+C02.O-1_set_source_frame_derived_side
            final(self).stamp(source_id.key) <= final(self).now(), //@O C01.set_source_stamp_not_in_future
            final(self).now() >= old(self).now(), //@O C01.set_source_clock_monotone
            // O-2a (C01): a changed value advances the clock and stamps the source with the new time
            old(self).has(source_id.key) && old(self).val(source_id.key) != source.val() ==>
                final(self).now() > old(self).now() && final(self).stamp(source_id.key) == final(self).now(), //@O C01.O-2a_changed_value_advances_clock
            // O-2b (C01): a source that was absent and is now present is an observable change
            !old(self).has(source_id.key) ==>
                final(self).now() > old(self).now(), //@O C01.O-2b_first_write_advances_clock
            !old(self).has(source_id.key) ==>
                final(self).stamp(source_id.key) == final(self).now(), //@O C01.O-2b_first_write_stamped_now
            // O-7 (C02): an equal-value write is inert: clock and stamp untouched
            old(self).has(source_id.key) && old(self).val(source_id.key) == source.val() ==>
                final(self).now() == old(self).now(), //@O C02.O-7a_equal_write_keeps_clock
            old(self).has(source_id.key) && old(self).val(source_id.key) == source.val() ==>
                final(self).stamp(source_id.key) == old(self).stamp(source_id.key), //@O C02.O-7b_equal_write_keeps_stamp
//@end

//@fn rel=crates/pico/src/database.rs name=remove_source within="impl<Db: Database> InternalStorage<Db>" vis=pub serves=C01,C02
//@rw R2
//@contract
        requires old(self).wf(), old(self).now() < usize::MAX,
        ensures
            final(self).wf(), //@O C01+C02.remove_source_wf
            !final(self).has(id.key), //@O C01.O-3_remove_source_removes
            final(self).others_unchanged(old(self), id.key), //@O C01+C02.O-3_remove_source_frame_other_sources
            final(self).derived_side_unchanged(old(self)), //@O C01+C02.O-3_remove_source_frame_derived_side
            old(self).has(id.key) ==> final(self).now() > old(self).now(), //@O C01.O-3_remove_source_advances_clock
            !old(self).has(id.key) ==> final(self).now() == old(self).now(), //@O C02.O-3_remove_absent_is_inert
//@end
}

// ---- Storage: the public entry points forward to the above ---------------------------
// DependencyStack(RefCell<Vec<TrackedDependencies>>): the RefCell is represented by unique
// access (`&self` -> `&mut self`, `self.0.borrow_mut()` / `self.0.borrow()` -> `self.0`): exact for
// one thread; a re-entrant borrow (which would panic) cannot happen in the functions below, none
// of which calls out while it holds the borrow
//@item rel=crates/pico/src/dependency.rs kind=struct name=DependencyStack prefix="pub" sub="RefCell<Vec<TrackedDependencies>>=>Vec<TrackedDependencies>"
pub open spec fn recorded(top: TrackedDependencies, old_top: TrackedDependencies, dependency: Dependency, time_updated: Epoch) -> bool {
    &&& top.max_time_updated.t() == (if time_updated.t() >= old_top.max_time_updated.t() { time_updated.t() } else { old_top.max_time_updated.t() })
    &&& top.dependencies@.len() > 0 && top.dependencies@.last().node_to == dependency.node_to
        && top.dependencies@.last().time_verified_or_updated == dependency.time_verified_or_updated
    &&& top.derived_node_id == old_top.derived_node_id
}
impl DependencyStack {
//@fn rel=crates/pico/src/dependency.rs name=push_if_not_empty within="impl DependencyStack" vis=pub serves=C01,C02
//@hsub "&self," => "&mut self,"
//@sub "self\.0\.borrow_mut\(\)\.last_mut\(\)" => "self.0.last_mut()" n=1
//@sub "entry\.push\(dependency, time_updated\)" => "entry.td_push(dependency, time_updated)" n=1
//@contract
        ensures
            final(self).0@.len() == old(self).0@.len(),
            // the innermost running memoized function records the dependency; outer ones and
            // an empty stack (a top-level call) are untouched
            old(self).0@.len() > 0 ==> recorded(final(self).0@.last(), old(self).0@.last(), dependency, time_updated)
                && final(self).0@.drop_last() == old(self).0@.drop_last(), //@O C01.O-7_read_is_recorded_in_the_innermost_running_function
            old(self).0@.len() == 0 ==> final(self).0@ == old(self).0@,
//@end
//@fn rel=crates/pico/src/dependency.rs name=is_empty within="impl DependencyStack" vis=pub ret=r serves=C01
//@sub "self\.0\.borrow\(\)\.is_empty\(\)" => "self.0.is_empty()" n=1
//@contract
        ensures r == (self.0@.len() == 0),
//@end
//@fn rel=crates/pico/src/dependency.rs name=leave within="impl DependencyStack" vis=pub ret=r serves=C01
//@rw R2
//@hsub "&self" => "&mut self"
//@sub "self\.0\s*\.borrow_mut\(\)\s*\.pop\(\)" => "self.0.pop()" n=1
//@contract
        // "Leave must be called after enter"
        requires old(self).0@.len() > 0,
        ensures r == old(self).0@.last(), final(self).0@ == old(self).0@.drop_last(), //@O C01.O-7_leave_hands_back_what_was_recorded
//@end
}
#[verifier::reject_recursive_types(Db)]
pub struct Storage<Db: Database> {
    pub dependency_stack: DependencyStack,
    pub internal: InternalStorage<Db>,
    pub top_level_calls: BoxcarVec<DerivedNodeId>,
}
/// `source_node.value.as_ref().as_any().downcast_ref::<T>().expect(..)`: the stored value at its type
#[verifier::external_body]
pub fn downcast_value<'a, T>(node: &'a SourceNode) -> &'a T { unimplemented!() }
impl<Db: Database> Storage<Db> {
//@fn rel=crates/pico/src/database.rs name=register_dependency_in_parent_memoized_fn within="impl<Db: Database> Storage<Db>" vis=pub serves=C01,C02
//@hsub "&self," => "&mut self,"
//@contract
        ensures
            final(self).internal == old(self).internal, final(self).top_level_calls == old(self).top_level_calls,
            final(self).dependency_stack.0@.len() == old(self).dependency_stack.0@.len(),
            // the dependency is recorded as verified NOW, with the time the node was last updated
            old(self).dependency_stack.0@.len() > 0 ==> recorded(final(self).dependency_stack.0@.last(), old(self).dependency_stack.0@.last(),
                    Dependency { node_to: node, time_verified_or_updated: old(self).internal.current_epoch }, time_updated)
                && final(self).dependency_stack.0@.drop_last() == old(self).dependency_stack.0@.drop_last(), //@O C01.O-7_dependency_recorded_as_verified_now
//@end
//@fn rel=crates/pico/src/database.rs name=get_impl within="impl<Db: Database> Storage<Db>" vis=pub ret=r serves=C01
//@rw R2
//@inline rel=crates/pico/src/database.rs name=register_dependency_in_parent_memoized_fn within="impl<Db: Database> Storage<Db>"
//@hsub "&self," => "&mut self,"
//@hsub "-> Option<&T>" => "-> Option<&T>"
//@sub "source_node\s*\.value\s*\.as_ref\(\)\s*\.as_any\(\)\s*\.downcast_ref::<T>\(\)\s*\.unwrap\(\)" => "downcast_value::<T>(source_node)" n=1
//@contract
        requires old(self).internal.wf(),
        ensures
            final(self).internal == old(self).internal,
            (r is Some) == old(self).internal.has(key),
            // C01: EVERY read of a source by a running memoized function is recorded as a
            // dependency of that function, with the source's time of last change
            old(self).internal.has(key) && old(self).dependency_stack.0@.len() > 0 ==>
                recorded(final(self).dependency_stack.0@.last(), old(self).dependency_stack.0@.last(),
                    Dependency { node_to: NodeKind::Source(key), time_verified_or_updated: old(self).internal.current_epoch },
                    old(self).internal.node(key).time_updated), //@O C01.O-7_read_of_a_present_source_is_recorded
            // ... including the read of a source that is ABSENT (its later first write must
            // invalidate the reader)
            !old(self).internal.has(key) && old(self).dependency_stack.0@.len() > 0 ==>
                final(self).dependency_stack.0@.last().dependencies@.len() > 0
                && final(self).dependency_stack.0@.last().dependencies@.last().node_to == NodeKind::Source(key), //@O C01.O-7b_read_of_an_absent_source_is_recorded
//@end
// The two PUBLIC readers (what every memoized function calls): thin wrappers over get_impl; their
// contracts carry get_impl's "every read is recorded" to the API a user of pico actually sees.
//@fn rel=crates/pico/src/database.rs name=get within="impl<Db: Database> Storage<Db>" vis=pub ret=r serves=C01
//@hsub "&self," => "&mut self,"
//@contract
        requires old(self).internal.wf(),
            // "SourceId should not be used after the corresponding source node is removed."
            old(self).internal.has(id.key),
        ensures
            final(self).internal == old(self).internal,
            old(self).dependency_stack.0@.len() > 0 ==>
                recorded(final(self).dependency_stack.0@.last(), old(self).dependency_stack.0@.last(),
                    Dependency { node_to: NodeKind::Source(id.key), time_verified_or_updated: old(self).internal.current_epoch },
                    old(self).internal.node(id.key).time_updated), //@O C01.O-7_public_get_records_the_read
//@end
//@fn rel=crates/pico/src/database.rs name=get_singleton within="impl<Db: Database> Storage<Db>" vis=pub ret=r serves=C01
//@hsub "&self" => "&mut self"
//@contract
        requires old(self).internal.wf(),
        ensures
            final(self).internal == old(self).internal,
            (r is Some) == old(self).internal.has(T::singleton_key_spec()),
            old(self).internal.has(T::singleton_key_spec()) && old(self).dependency_stack.0@.len() > 0 ==>
                recorded(final(self).dependency_stack.0@.last(), old(self).dependency_stack.0@.last(),
                    Dependency { node_to: NodeKind::Source(T::singleton_key_spec()), time_verified_or_updated: old(self).internal.current_epoch },
                    old(self).internal.node(T::singleton_key_spec()).time_updated), //@O C01.O-7_public_get_singleton_records_the_read
            // (the ABSENT read is deliberately not restated here: at this call site it would follow
            // from get_impl's clause C01.O-7b, which FAILS on get_impl's own body - known finding
            // F-C01a - and a clause discharged from a failed callee contract proves nothing)
//@end
    // assumed: panics when a memoized function is running, no effect otherwise
    #[verifier::external_body]
    fn assert_empty_dependency_stack(&self) { unimplemented!() }

//@fn rel=crates/pico/src/database.rs name=set within="impl<Db: Database> Storage<Db>" vis=pub ret=r serves=C01,C02
//@contract
        requires old(self).internal.wf(), old(self).internal.now() < usize::MAX,
        ensures
            r.key == source.key_spec(),
            final(self).internal.wf(),
            final(self).internal.has(r.key) && final(self).internal.val(r.key) == source.val(), //@O C01.Storage_set_stores_value
            final(self).internal.others_unchanged(&old(self).internal, r.key), //@O C01+C02.Storage_set_frame
            old(self).internal.has(r.key) && old(self).internal.val(r.key) != source.val() ==>
                final(self).internal.now() > old(self).internal.now()
                && final(self).internal.stamp(r.key) == final(self).internal.now(), //@O C01.Storage_set_changed_value_advances_clock
//@end

//@fn rel=crates/pico/src/database.rs name=remove within="impl<Db: Database> Storage<Db>" vis=pub serves=C01
//@contract
        requires old(self).internal.wf(), old(self).internal.now() < usize::MAX,
        ensures
            final(self).internal.wf(),
            !final(self).internal.has(id.key), //@O C01.Storage_remove_removes
            final(self).internal.others_unchanged(&old(self).internal, id.key), //@O C01+C02.Storage_remove_frame
            old(self).internal.has(id.key) ==> final(self).internal.now() > old(self).internal.now(), //@O C01.Storage_remove_advances_clock
//@end

//@fn rel=crates/pico/src/database.rs name=remove_singleton within="impl<Db: Database> Storage<Db>" vis=pub serves=C01
//@sub "T::get_singleton_key\(\)\.into\(\)" => "SourceId::from_key(T::get_singleton_key())" n=1
//@contract
        requires old(self).internal.wf(), old(self).internal.now() < usize::MAX,
        ensures
            final(self).internal.wf(),
            !final(self).internal.has(T::singleton_key_spec()), //@O C01.Storage_remove_singleton_removes
            final(self).internal.others_unchanged(&old(self).internal, T::singleton_key_spec()), //@O C01+C02.Storage_remove_singleton_frame
            old(self).internal.has(T::singleton_key_spec()) ==> final(self).internal.now() > old(self).internal.now(), //@O C01.Storage_remove_singleton_advances_clock
//@end
}

//@fn rel=crates/pico/src/execute_memoized_function.rs name=source_node_changed_since vis=pub ret=r serves=C01,C02
//@contract
    requires db.storage_spec().internal.wf(),
    ensures
        // O-4: a recorded source dependency is stale iff the source is gone or was
        // stamped strictly after the recorded time
        r == (!db.storage_spec().internal.has(key) || db.storage_spec().internal.stamp(key) > since.t()), //@O C01+C02.O-4_source_changed_iff_absent_or_newer
//@end

// =====================================================================================
// Derived-node side, READ-ONLY part: when is a recorded derived dependency reported as
// changed (execute_memoized_function.rs: derived_node_changed_since)
// =====================================================================================
// The derived-node half of pico mutates the storage through `&Db` (interior mutability),
// which no contract here can describe. What CAN be stated are facts about the state at
// ENTRY of derived_node_changed_since: every read of the revision map in that function
// precedes the one call that may mutate (the recursive execute_memoized_function), so the
// spec state below is the state at entry. Sources and the clock do not change while memoized
// functions run (assert_empty_dependency_stack guards set / remove).
impl<Db: Database> InternalStorage<Db> {
    pub open spec fn dhas(&self, id: DerivedNodeId) -> bool { self.derived_node_id_to_revision@.contains_key(id) }
    pub open spec fn drev(&self, id: DerivedNodeId) -> DerivedNodeRevision { self.derived_node_id_to_revision@[id] }
    pub open spec fn ddeps(&self, id: DerivedNodeId) -> Seq<Dependency> { self.derived_node_dependencies@[self.drev(id).dependency_index.idx as int]@ }
    /// every revision points at a stored node and a stored dependency list ("indexes should
    /// always be valid": the expects below)
    pub open spec fn dwf(&self) -> bool {
        forall|id: DerivedNodeId| #[trigger] self.dhas(id) ==>
            self.drev(id).node_index.idx < self.derived_nodes@.len()
            && self.drev(id).dependency_index.idx < self.derived_node_dependencies@.len()
    }

//@fn rel=crates/pico/src/database.rs name=get_derived_node_from_derived_node_revision within="impl<Db: Database> InternalStorage<Db>" vis=pub ret=r serves=C01
//@rw R2
//@contract
        requires revision.node_index.idx < self.derived_nodes@.len(),
        ensures *r == self.derived_nodes@[revision.node_index.idx as int],
//@end
//@fn rel=crates/pico/src/database.rs name=get_derived_node_and_revision within="impl<Db: Database> InternalStorage<Db>" vis=pub ret=r serves=C01
//@rw R4
//@contract
        requires self.dwf(),
        ensures
            (r is Some) == self.dhas(derived_node_id),
            r is Some ==> r->Some_0.1 == self.drev(derived_node_id)
                && *r->Some_0.0 == self.derived_nodes@[self.drev(derived_node_id).node_index.idx as int],
//@before "let node ="
        proof { assert(self.dhas(derived_node_id)); }
//@end
//@fn rel=crates/pico/src/database.rs name=get_derived_node within="impl<Db: Database> InternalStorage<Db>" vis=pub ret=r serves=C01
//@sub "\.map\(\|\(node, _\)\| node\)" => ".map(|p: (&DerivedNode<Db>, DerivedNodeRevision)| -> (n: &DerivedNode<Db>) ensures n == p.0 { p.0 })" n=1
//@contract
        requires self.dwf(),
        ensures (r is Some) == self.dhas(derived_node_id),
            r is Some ==> *r->Some_0 == self.derived_nodes@[self.drev(derived_node_id).node_index.idx as int],
//@end
//@fn rel=crates/pico/src/database.rs name=get_dependencies within="impl<Db: Database> InternalStorage<Db>" vis=pub ret=r serves=C01
//@contract
        requires self.dwf(),
        ensures (r is Some) == self.dhas(derived_node_id),
            r is Some ==> r->Some_0@ == self.ddeps(derived_node_id),
//@end
//@fn rel=crates/pico/src/database.rs name=get_derived_node_revision within="impl<Db: Database> InternalStorage<Db>" vis=pub ret=r serves=C01
//@contract
        ensures (r is Some) == self.dhas(derived_node_id), r is Some ==> r->Some_0 == self.drev(derived_node_id),
//@closure 1 params="rev: &DerivedNodeRevision" ret="v: DerivedNodeRevision"
            ensures v == *rev,
//@end
}

//@item rel=crates/pico/src/execute_memoized_function.rs kind=enum name=DidRecalculate prefix="pub"
/// execute_memoized_function: NO contract (it re-executes functions and mutates the storage
/// behind `&Db`); whatever it returns is possible here
/// what re-verifying the node answers (uninterpreted: any answer is possible)
pub uninterp spec fn reverify_result<Db: Database>(db: &Db, derived_node_id: DerivedNodeId) -> DidRecalculate;
#[verifier::external_body]
pub fn execute_memoized_function<Db: Database>(db: &Db, derived_node_id: DerivedNodeId, inner_fn: InnerFn<Db>) -> (r: DidRecalculate)
    ensures r == reverify_result(db, derived_node_id)
{ unimplemented!() }

//@fn rel=crates/pico/src/execute_memoized_function.rs name=derived_node_changed_since vis=pub ret=r serves=C01,C02
//@rw R2 R6
//@contract
    requires db.storage_spec().internal.dwf(),
    ensures
        // a dependency whose result was discarded by garbage collection counts as changed
        !db.storage_spec().internal.dhas(derived_node_id) ==> r, //@O C01.O-5_collected_dependency_counts_as_changed
        // C01: a dependency whose value was updated AFTER the parent recorded it is reported
        // as changed, whatever else is known about it (e.g. that it was verified this epoch)
        db.storage_spec().internal.dhas(derived_node_id)
            && db.storage_spec().internal.drev(derived_node_id).time_updated.t() > since.t() ==> r, //@O C01.O-5_dependency_updated_after_it_was_recorded_is_reported_changed
        // C02: an interned value (no dependencies) that was not updated is never re-run
        db.storage_spec().internal.dhas(derived_node_id)
            && db.storage_spec().internal.drev(derived_node_id).time_updated.t() <= since.t()
            && db.storage_spec().internal.ddeps(derived_node_id).len() == 0 ==> !r, //@O C02.O-5_unchanged_interned_value_is_not_reexecuted
        // C01: a dependency that has to be re-verified counts as changed EXACTLY when the
        // re-verification recomputed it to a different value (or failed) - whatever its time
        // stamps say (a value can change without any stamp moving, e.g. after a removal)
        db.storage_spec().internal.dhas(derived_node_id)
            && db.storage_spec().internal.drev(derived_node_id).time_updated.t() <= since.t()
            && db.storage_spec().internal.ddeps(derived_node_id).len() > 0 ==>
            r == (reverify_result(db, derived_node_id) is Recalculated || reverify_result(db, derived_node_id) is Error), //@O C01.O-5_reverified_dependency_counts_as_changed_iff_it_was_recomputed
//@end

/// a source dependency recorded at time t is stale: the source is gone or was stamped after t
pub open spec fn stale_source_dep<Db: Database>(s: &InternalStorage<Db>, dep: Dependency) -> bool {
    dep.node_to is Source && (!s.has(dep.node_to->Source_0) || s.stamp(dep.node_to->Source_0) > dep.time_verified_or_updated.t())
}
//@fn rel=crates/pico/src/execute_memoized_function.rs name=any_dependency_changed vis=pub ret=r serves=C01,C02
//@rw R2 R20
//@contract
    requires
        db.storage_spec().internal.wf(), db.storage_spec().internal.dwf(),
        // the caller has just looked the node up (expect("Expected dependencies to be present"))
        db.storage_spec().internal.dhas(derived_node_id),
    ensures
        // C01: a dependency on a source that changed since it was recorded (and was not
        // re-recorded in this epoch) forces re-execution
        forall|j: int| 0 <= j < db.storage_spec().internal.ddeps(derived_node_id).len()
            && (#[trigger] db.storage_spec().internal.ddeps(derived_node_id)[j]).time_verified_or_updated != db.storage_spec().internal.current_epoch
            && stale_source_dep(&db.storage_spec().internal, db.storage_spec().internal.ddeps(derived_node_id)[j]) ==> r, //@O C01.O-5_changed_source_dependency_forces_reexecution
        // C02: if every dependency was recorded in the current epoch nothing is re-examined
        (forall|j: int| 0 <= j < db.storage_spec().internal.ddeps(derived_node_id).len() ==>
            (#[trigger] db.storage_spec().internal.ddeps(derived_node_id)[j]).time_verified_or_updated == db.storage_spec().internal.current_epoch) ==> !r, //@O C02.O-5_dependencies_recorded_this_epoch_are_not_reexamined
//@loop 1
        invariant
            db.storage_spec().internal.wf(), db.storage_spec().internal.dwf(),
            any_it.seq().len() == dependencies@.len(),
            forall|k: int| 0 <= k < any_it.seq().len() ==> *(#[trigger] any_it.seq()[k]) == dependencies@[k],
            dependencies@ == db.storage_spec().internal.ddeps(derived_node_id),
            forall|j: int| 0 <= j < any_it.index@
                && (#[trigger] dependencies@[j]).time_verified_or_updated != db.storage_spec().internal.current_epoch
                && stale_source_dep(&db.storage_spec().internal, dependencies@[j]) ==> any_found,
            any_found ==> exists|j: int| 0 <= j < any_it.index@ && (#[trigger] dependencies@[j]).time_verified_or_updated != db.storage_spec().internal.current_epoch,
//@end

// =====================================================================================
// Derived-node side, MUTATING part: what re-executing or creating a node does to the storage
// (execute_memoized_function.rs: update_derived_node, create_derived_node)
// =====================================================================================
// These functions mutate the storage behind `&Db` (dashmap / boxcar interior mutability).
// They are verified with the database REPRESENTED BY ITS STORAGE, passed by `&mut`
// (`db.get_storage()` is the identity): a model that is exact for one thread, which is the
// only way pico is used (Storage is not Sync; the locks inside dashmap/boxcar are never
// contended). insert_dependencies / insert_derived_node are inlined (R11) so that the borrow
// checker sees the same disjoint-field accesses the interior-mutability code performs.
/// running the user function with dependency tracking: may create / update OTHER nodes
/// (nested memoized calls), never the node being computed (cycles panic), never removes
/// anything, and the node and dependency stores only grow
#[verifier::external_body]
pub fn invoke_with_dependency_tracking<Db: Database>(db: &mut Storage<Db>, derived_node_id: DerivedNodeId, inner_fn: InnerFn<Db>)
    -> (r: Option<(DynBox, TrackedDependencies)>)
    requires old(db).internal.dwf(),
    ensures
        final(db).internal.dwf(),
        final(db).internal.dhas(derived_node_id) == old(db).internal.dhas(derived_node_id),
        old(db).internal.dhas(derived_node_id) ==> final(db).internal.drev(derived_node_id) == old(db).internal.drev(derived_node_id),
        forall|i: int| 0 <= i < old(db).internal.derived_nodes@.len() ==> #[trigger] final(db).internal.derived_nodes@[i] == old(db).internal.derived_nodes@[i],
        final(db).internal.derived_nodes@.len() >= old(db).internal.derived_nodes@.len(),
        final(db).internal.derived_node_dependencies@.len() >= old(db).internal.derived_node_dependencies@.len(),
        final(db).internal.current_epoch == old(db).internal.current_epoch,
        // enter / release are balanced: the stack of running functions is what it was; calls made
        // while a function runs are not top-level calls
        final(db).dependency_stack == old(db).dependency_stack,
        final(db).top_level_calls == old(db).top_level_calls,
{ unimplemented!() }

impl<Db: Database> InternalStorage<Db> {
    /// value token of the node a revision points at
    pub open spec fn dval(&self, id: DerivedNodeId) -> int { self.derived_nodes@[self.drev(id).node_index.idx as int].value.val() }
}

//@fn rel=crates/pico/src/execute_memoized_function.rs name=update_derived_node vis=pub ret=r serves=C02,C03
//@rw R1 R2
//@hsub "db: &Db," => "db: &mut Storage<Db>,"
//@hsub "prev_value: &dyn DynEq," => "prev_value: &DynBox,"
//@sub "db\s*\.get_storage\(\)" => "db" n=*
//@sub "\*prev_value != \*value" => "prev_value.ne_box(&value)" n=1
//@inline rel=crates/pico/src/database.rs name=insert_dependencies within="impl<Db: Database> InternalStorage<Db>" recv="db.internal"
//@inline rel=crates/pico/src/database.rs name=insert_derived_node within="impl<Db: Database> InternalStorage<Db>" recv="db.internal"
//@contract
    requires
        old(db).internal.dwf(), old(db).internal.dhas(derived_node_id),
    ensures
        final(db).internal.dhas(derived_node_id),
        // C02 backdating / C03 stability: a re-execution that produces an EQUAL value leaves
        // the node where it is (references into it stay valid) and keeps its time_updated, so
        // that dependents are not re-executed; only the dependency list is replaced
        r.0 is ReusedMemoizedValue ==> final(db).internal.drev(derived_node_id).node_index == old(db).internal.drev(derived_node_id).node_index
            && final(db).internal.drev(derived_node_id).time_updated == old(db).internal.drev(derived_node_id).time_updated, //@O C02+C03.O-6_equal_value_keeps_node_and_time_updated
        // a changed value is stored in a NEW node (the old one is not overwritten)
        r.0 is Recalculated ==> final(db).internal.drev(derived_node_id).node_index.idx >= old(db).internal.derived_nodes@.len(), //@O C01+C03.O-6_changed_value_goes_to_a_new_node
        // the dependencies recorded during THIS run replace the old list, whether or not the
        // value changed (stale stamps would make the node look out of date again and again)
        !(r.0 is Error) ==> final(db).internal.drev(derived_node_id).dependency_index.idx >= old(db).internal.derived_node_dependencies@.len(), //@O C02.O-6_rerun_replaces_the_dependency_list
        // time_verified is not touched here
        final(db).internal.drev(derived_node_id).time_verified == old(db).internal.drev(derived_node_id).time_verified,
        final(db).internal.dwf(),
        final(db).internal.current_epoch == old(db).internal.current_epoch,
        final(db).dependency_stack == old(db).dependency_stack,
        final(db).top_level_calls == old(db).top_level_calls,
        forall|i: int| 0 <= i < old(db).internal.derived_nodes@.len() ==> #[trigger] final(db).internal.derived_nodes@[i] == old(db).internal.derived_nodes@[i], //@O C03.O-6_reexecution_never_overwrites_a_node
//@before "let mut occupied ="
            let ghost s1 = db.internal;
//@before "(did_recalculate, tracked_dependencies.max_time_updated)"
            proof {
                // `occupied` is not used any more: the map is the old one with this node's revision replaced
                assert(db.internal.derived_node_dependencies@.len() > dependency_index.idx);
                assert forall|id2: DerivedNodeId| #[trigger] occupied.m().contains_key(id2) implies
                    occupied.m()[id2].node_index.idx < db.internal.derived_nodes@.len()
                    && occupied.m()[id2].dependency_index.idx < db.internal.derived_node_dependencies@.len() by {
                    if id2 != derived_node_id { assert(s1.dhas(id2)); }
                }
            }
//@end

/// `invoke_with_dependency_tracking(..).expect("InnerFn call cannot fail for a new derived node")`:
/// the generated wrapper returns None only when a parameter is missing from the storage,
/// which cannot be the case for a call that is being made right now (pico invariant, assumed)
pub uninterp spec fn inner_fn_succeeds<Db: Database>(db: &Storage<Db>, id: DerivedNodeId) -> bool;
#[verifier::external_body]
pub fn invoke_for_new_node<Db: Database>(db: &mut Storage<Db>, derived_node_id: DerivedNodeId, inner_fn: InnerFn<Db>)
    -> (r: Option<(DynBox, TrackedDependencies)>)
    requires old(db).internal.dwf(),
    ensures
        inner_fn_succeeds(old(db), derived_node_id) ==> r is Some,
        forall|i: int| 0 <= i < old(db).internal.derived_nodes@.len() ==> #[trigger] final(db).internal.derived_nodes@[i] == old(db).internal.derived_nodes@[i],
        final(db).internal.dwf(),
        final(db).internal.dhas(derived_node_id) == old(db).internal.dhas(derived_node_id),
        final(db).internal.derived_nodes@.len() >= old(db).internal.derived_nodes@.len(),
        final(db).internal.current_epoch == old(db).internal.current_epoch,
        final(db).dependency_stack == old(db).dependency_stack,
        final(db).top_level_calls == old(db).top_level_calls,
{ unimplemented!() }

//@fn rel=crates/pico/src/execute_memoized_function.rs name=create_derived_node vis=pub ret=r serves=C01,C02
//@rw R1 R2
//@hsub "db: &Db," => "db: &mut Storage<Db>,"
//@sub "db\s*\.get_storage\(\)" => "db" n=*
//@sub "invoke_with_dependency_tracking\(db, derived_node_id, inner_fn\)" => "invoke_for_new_node(db, derived_node_id, inner_fn)" n=1
//@inline rel=crates/pico/src/database.rs name=insert_derived_node within="impl<Db: Database> InternalStorage<Db>" recv="db.internal"
//@inline rel=crates/pico/src/database.rs name=insert_dependencies within="impl<Db: Database> InternalStorage<Db>" recv="db.internal"
//@inline rel=crates/pico/src/database.rs name=insert_derived_node_revision within="impl<Db: Database> InternalStorage<Db>" recv="db.internal"
//@sub "db\.internal\.derived_node_id_to_revision\.insert\(" => "db.internal.derived_node_id_to_revision.insert_mut(" n=1
//@contract
    requires
        old(db).internal.dwf(), inner_fn_succeeds(old(db), derived_node_id),
    ensures
        // a freshly computed node: recorded as computed, with the newest time any of its
        // dependencies was updated, verified now, pointing at a node of its own
        r.0 is Recalculated,
        final(db).internal.dhas(derived_node_id)
            && final(db).internal.drev(derived_node_id).time_updated == r.1
            && final(db).internal.drev(derived_node_id).time_verified == final(db).internal.current_epoch, //@O C01+C02.O-6_new_node_is_stamped_with_its_dependencies_and_verified_now
        final(db).internal.current_epoch == old(db).internal.current_epoch,
        final(db).internal.dwf(),
        final(db).dependency_stack == old(db).dependency_stack,
        final(db).top_level_calls == old(db).top_level_calls,
        forall|i: int| 0 <= i < old(db).internal.derived_nodes@.len() ==> #[trigger] final(db).internal.derived_nodes@[i] == old(db).internal.derived_nodes@[i], //@O C03.O-6_creation_never_overwrites_a_node
//@before "let node_index ="
    let ghost s1 = db.internal;
//@after "db.internal.derived_node_id_to_revision.insert_mut("
    proof {
        assert forall|id2: DerivedNodeId| #[trigger] db.internal.dhas(id2) implies
            db.internal.drev(id2).node_index.idx < db.internal.derived_nodes@.len()
            && db.internal.drev(id2).dependency_index.idx < db.internal.derived_node_dependencies@.len() by {
            if id2 != derived_node_id { assert(s1.dhas(id2)); }
        }
    }
//@end

// =====================================================================================
// intern_ref (database.rs): a MemoRef to a value that lives inside another node's value
// =====================================================================================
/// RawPtr<T>: the address of the referenced value (raw_ptr.rs); only its identity matters
#[verifier::reject_recursive_types(T)]
pub struct RawPtr<T> { pub addr: usize, pub phantom: core::marker::PhantomData<T> }
impl<T> Clone for RawPtr<T> { fn clone(&self) -> (r: Self) ensures r == *self { RawPtr { addr: self.addr, phantom: core::marker::PhantomData } } }
impl<T> Copy for RawPtr<T> {}
pub uninterp spec fn addr_of_ref<T>(v: &T) -> usize;
/// identity of an interned reference: the hash of the VALUE, not of the address
pub uninterp spec fn ref_id_spec<T>(v: &T) -> DerivedNodeId;
impl<T> RawPtr<T> {
    #[verifier::external_body]
    pub fn from_ref(value: &T) -> (r: RawPtr<T>) ensures r.addr == addr_of_ref(value) { unimplemented!() }
    /// `*a != b` (PartialEq on the address)
    pub fn differs(&self, other: &RawPtr<T>) -> (r: bool) ensures r == (self.addr != other.addr) { self.addr != other.addr }
}
impl DynBox {
    /// address held when the boxed value is a RawPtr
    pub uninterp spec fn ptr(&self) -> usize;
    /// `Box::new(raw_ptr)`
    #[verifier::external_body]
    pub fn from_ptr<T>(p: RawPtr<T>) -> (r: DynBox) ensures r.ptr() == p.addr { unimplemented!() }
    /// `.as_ref().as_any().downcast_ref::<RawPtr<T>>().expect(..)`
    #[verifier::external_body]
    pub fn as_raw_ptr<T>(&self) -> (r: RawPtr<T>) ensures r.addr == self.ptr() { unimplemented!() }
}
impl<Db> InnerFn<Db> {
    /// `InnerFn::new(|_, _| unreachable!(..))`: interned nodes are never executed
    #[verifier::external_body]
    pub fn never_executed() -> InnerFn<Db> { unimplemented!() }
}
/// `hash(value).into()` + `DerivedNodeId::new(param_id.inner().into(), [param_id])`
#[verifier::external_body]
pub fn ref_id<T>(value: &T) -> (r: DerivedNodeId) ensures r == ref_id_spec(value) { unimplemented!() }
//@item rel=crates/pico/src/memo_ref.rs kind=enum name=MemoRefKind prefix="#[derive(Clone, Copy, PartialEq, Eq, Structural)] pub"
//@item rel=crates/pico/src/memo_ref.rs kind=struct name=MemoRef prefix="#[verifier::reject_recursive_types(T)] pub"
impl<T> MemoRef<T> {
//@fn rel=crates/pico/src/memo_ref.rs name=new within="impl<T: 'static> MemoRef<T>" vis=pub ret=r serves=C03
//@contract
        ensures r.derived_node_id == derived_node_id, r.kind == MemoRefKind::Value,
//@end
//@fn rel=crates/pico/src/memo_ref.rs name=new_with_kind within="impl<T: 'static> MemoRef<T>" vis=pub ret=r serves=C03
//@contract
        ensures r.derived_node_id == derived_node_id, r.kind == kind,
//@end
}
impl<Db: Database> InternalStorage<Db> {
    /// address the node of `id` points at (when it holds a RawPtr)
    pub open spec fn dptr(&self, id: DerivedNodeId) -> usize { self.derived_nodes@[self.drev(id).node_index.idx as int].value.ptr() }
}

//@fn rel=crates/pico/src/database.rs name=intern_ref vis=pub ret=r serves=C01,C02,C03
//@rw R2
//@hsub "db: &Db," => "db: &mut Storage<Db>,"
//@hsub "T: Clone \+ Hash \+ DynEq \+ 'static" => "T"
//@sub "db\s*\.get_storage\(\)" => "db" n=*
//@sub "let param_id = hash\(value\)\.into\(\);\s*let mut param_ids = init_param_vec\(\);\s*param_ids\.push\(param_id\);\s*let derived_node_id = DerivedNodeId::new\(param_id\.inner\(\)\.into\(\), param_ids\);" => "let derived_node_id = ref_id(value);" n=1
//@sub "InnerFn::new\(\|_, _\| \{\s*unreachable!\([^)]*\)\s*;?\s*\}\)" => "InnerFn::never_executed()" n=1
//@sub "Box::new\(new_ptr\)" => "DynBox::from_ptr(new_ptr)" n=*
//@sub "existing_node\s*\.value\s*\.as_ref\(\)\s*\.as_any\(\)\s*\.downcast_ref::<RawPtr<T>>\(\)\s*\.unwrap\(\)" => "existing_node.value.as_raw_ptr::<T>()" n=1
//@sub "\*existing_ptr != new_ptr" => "existing_ptr.differs(&new_ptr)" n=1
//@sub "Vec::new\(\)" => "Vec::<Dependency>::new()" n=1
//@inline rel=crates/pico/src/database.rs name=insert_derived_node within="impl<Db: Database> InternalStorage<Db>" recv="db.internal"
//@inline rel=crates/pico/src/database.rs name=insert_dependencies within="impl<Db: Database> InternalStorage<Db>" recv="db.internal"
//@inline rel=crates/pico/src/database.rs name=get_derived_node_from_derived_node_revision within="impl<Db: Database> InternalStorage<Db>" recv="db.internal"
//@contract
    requires old(db).internal.dwf(),
    ensures
        r.derived_node_id == ref_id_spec(value) && final(db).internal.dhas(r.derived_node_id),
        // a reference interned for the first time is stamped with the current epoch
        !old(db).internal.dhas(ref_id_spec(value)) ==>
            final(db).internal.drev(ref_id_spec(value)).time_updated == old(db).internal.current_epoch
            && final(db).internal.drev(ref_id_spec(value)).time_verified == old(db).internal.current_epoch
            && final(db).internal.dptr(ref_id_spec(value)) == addr_of_ref(value), //@O C03.O-4_new_interned_reference_points_at_the_value
        // re-interning an equal value NEVER moves time_updated (dependents are not re-run) ...
        old(db).internal.dhas(ref_id_spec(value)) ==>
            final(db).internal.drev(ref_id_spec(value)).time_updated == old(db).internal.drev(ref_id_spec(value)).time_updated, //@O C02+C03.O-4_reinterning_keeps_time_updated
        // ... but unless it was already verified in this epoch, afterwards the reference points
        // at the NEWEST address of the value (the old address may belong to a collected node)
        old(db).internal.dhas(ref_id_spec(value)) && old(db).internal.drev(ref_id_spec(value)).time_verified != old(db).internal.current_epoch ==>
            final(db).internal.dptr(ref_id_spec(value)) == addr_of_ref(value)
            && final(db).internal.drev(ref_id_spec(value)).time_verified == old(db).internal.current_epoch, //@O C03.O-4_reinterned_reference_points_at_the_newest_address
        // existing nodes are never overwritten (older MemoRefs keep reading their value)
        forall|i: int| 0 <= i < old(db).internal.derived_nodes@.len() ==> #[trigger] final(db).internal.derived_nodes@[i] == old(db).internal.derived_nodes@[i], //@O C03.O-4_interning_never_overwrites_a_node
        final(db).internal.current_epoch == old(db).internal.current_epoch,
        final(db).internal.dwf(),
        // C01: interning inside a running memoized function records the reference as one of its
        // dependencies, stamped with the reference's (unchanged) time of last update
        final(db).dependency_stack.0@.len() == old(db).dependency_stack.0@.len(),
        old(db).dependency_stack.0@.len() > 0 ==> recorded(final(db).dependency_stack.0@.last(), old(db).dependency_stack.0@.last(),
                Dependency { node_to: NodeKind::Derived(ref_id_spec(value)), time_verified_or_updated: old(db).internal.current_epoch },
                final(db).internal.drev(ref_id_spec(value)).time_updated)
            && final(db).dependency_stack.0@.drop_last() == old(db).dependency_stack.0@.drop_last(), //@O C01.O-7_interned_reference_is_recorded_as_a_dependency
//@before "let new_ptr ="
    let ghost s0 = db.internal;
//@before "let existing_node ="
                assert(s0.dhas(derived_node_id));
//@before "db.register_dependency_in_parent_memoized_fn("
    proof {
        assert forall|id2: DerivedNodeId| #[trigger] db.internal.dhas(id2) implies
            db.internal.drev(id2).node_index.idx < db.internal.derived_nodes@.len()
            && db.internal.drev(id2).dependency_index.idx < db.internal.derived_node_dependencies@.len() by {
            if id2 != derived_node_id { assert(s0.dhas(id2)); } else { if s0.dhas(derived_node_id) { } }
        }
    }
//@end

// intern_value: the value itself is stored in the node
/// identity of an interned value: the hash of the (wrapped) value
pub uninterp spec fn value_id_spec<T>(v: T) -> DerivedNodeId;
/// `hash(&InternValueWrapper(value)).into()` + `DerivedNodeId::new(..)`; hands the value back
#[verifier::external_body]
pub fn value_id<T>(value: T) -> (r: (DerivedNodeId, T)) ensures r.0 == value_id_spec(value), r.1 == value { unimplemented!() }

//@fn rel=crates/pico/src/database.rs name=intern_value vis=pub ret=r serves=C01,C02,C03
//@rw R2
//@hsub "db: &Db," => "db: &mut Storage<Db>,"
//@hsub "T: Clone \+ Hash \+ DynEq \+ 'static" => "T: DynEq"
//@sub "db\s*\.get_storage\(\)" => "db" n=*
//@sub "let wrapped_value = InternValueWrapper\(value\);\s*let param_id = hash\(&wrapped_value\)\.into\(\);\s*let value = wrapped_value\.0;\s*let mut param_ids = init_param_vec\(\);\s*param_ids\.push\(param_id\);\s*let derived_node_id = DerivedNodeId::new\(param_id\.inner\(\)\.into\(\), param_ids\);" => "let ghost value0 = value; let (derived_node_id, value) = value_id(value);" n=1
//@sub "InnerFn::new\(\|_, _\| \{\s*unreachable!\([^)]*\)\s*;?\s*\}\)" => "InnerFn::never_executed()" n=1
//@sub "Box::new\(value\)" => "DynBox::new(value)" n=1
//@sub "Vec::new\(\)" => "Vec::<Dependency>::new()" n=1
//@inline rel=crates/pico/src/database.rs name=insert_derived_node within="impl<Db: Database> InternalStorage<Db>" recv="db.internal"
//@inline rel=crates/pico/src/database.rs name=insert_dependencies within="impl<Db: Database> InternalStorage<Db>" recv="db.internal"
//@contract
    requires old(db).internal.dwf(),
    ensures
        r.derived_node_id == value_id_spec(value) && final(db).internal.dhas(r.derived_node_id),
        // a value interned for the first time is stored and stamped with the current epoch
        !old(db).internal.dhas(value_id_spec(value)) ==>
            final(db).internal.drev(value_id_spec(value)).time_updated == old(db).internal.current_epoch
            && final(db).internal.drev(value_id_spec(value)).time_verified == old(db).internal.current_epoch
            && final(db).internal.dval(value_id_spec(value)) == value.val(), //@O C03.O-4_new_interned_value_is_stored
        // interning an equal value again keeps the node and its time_updated (dependents are
        // not re-run, earlier MemoRefs stay valid) and marks it verified in this epoch
        old(db).internal.dhas(value_id_spec(value)) ==>
            final(db).internal.drev(value_id_spec(value)).time_updated == old(db).internal.drev(value_id_spec(value)).time_updated
            && final(db).internal.drev(value_id_spec(value)).node_index == old(db).internal.drev(value_id_spec(value)).node_index
            && final(db).internal.drev(value_id_spec(value)).time_verified == old(db).internal.current_epoch, //@O C02+C03.O-4_reinterned_value_keeps_node_and_time_updated
        forall|i: int| 0 <= i < old(db).internal.derived_nodes@.len() ==> #[trigger] final(db).internal.derived_nodes@[i] == old(db).internal.derived_nodes@[i], //@O C03.O-4_interning_never_overwrites_a_node
        final(db).internal.current_epoch == old(db).internal.current_epoch,
        final(db).internal.dwf(),
        final(db).dependency_stack.0@.len() == old(db).dependency_stack.0@.len(),
        old(db).dependency_stack.0@.len() > 0 ==> recorded(final(db).dependency_stack.0@.last(), old(db).dependency_stack.0@.last(),
                Dependency { node_to: NodeKind::Derived(value_id_spec(value)), time_verified_or_updated: old(db).internal.current_epoch },
                final(db).internal.drev(value_id_spec(value)).time_updated)
            && final(db).dependency_stack.0@.drop_last() == old(db).dependency_stack.0@.drop_last(), //@O C01.O-7_interned_value_is_recorded_as_a_dependency
//@before "let current_epoch ="
    let ghost s0 = db.internal;
//@before "db.register_dependency_in_parent_memoized_fn("
    proof {
        assert forall|id2: DerivedNodeId| #[trigger] db.internal.dhas(id2) implies
            db.internal.drev(id2).node_index.idx < db.internal.derived_nodes@.len()
            && db.internal.drev(id2).dependency_index.idx < db.internal.derived_node_dependencies@.len() by {
            if id2 != derived_node_id { assert(s0.dhas(id2)); } else { if s0.dhas(derived_node_id) { } }
        }
    }
//@end

// reading through a MemoRef (memo_ref.rs)
/// what a node value holds at type T (`downcast_ref::<T>()`), and what a stored RawPtr<T>
/// points at (`downcast_ref::<RawPtr<T>>().as_ref()`, unsafe: trusted, see C03 assumptions)
pub uninterp spec fn held<T>(b: DynBox) -> T;
pub uninterp spec fn target<T>(b: DynBox) -> T;
#[verifier::external_body]
pub fn downcast_held<'a, T>(b: &'a DynBox) -> (r: &'a T) ensures *r == held::<T>(*b) { unimplemented!() }
#[verifier::external_body]
pub fn downcast_target<'a, T>(b: &'a DynBox) -> (r: &'a T) ensures *r == target::<T>(*b) { unimplemented!() }
impl<Db: Database> Storage<Db> {
//@fn rel=crates/pico/src/database.rs name=get_derived_node_value_and_revision within="impl<Db: Database> StorageDyn for Storage<Db>" vis=pub ret=r serves=C01,C03
//@hsub "Option<\(&dyn Any, DerivedNodeRevision\)>" => "Option<(&DynBox, DerivedNodeRevision)>"
//@sub "\|\(node, revision\)\| \(node\.value\.as_ref\(\)\.as_any\(\), revision\)" => "|p: (&DerivedNode<Db>, DerivedNodeRevision)| -> (v: (&DynBox, DerivedNodeRevision)) ensures *v.0 == p.0.value, v.1 == p.1 { let (node, revision) = p; (&node.value, revision) }" n=1
//@contract
        requires self.internal.dwf(),
        ensures (r is Some) == self.internal.dhas(id),
            r is Some ==> r->Some_0.1 == self.internal.drev(id)
                && *r->Some_0.0 == self.internal.derived_nodes@[self.internal.drev(id).node_index.idx as int].value, //@O C03.O-5_a_memo_ref_reads_the_node_its_revision_points_at
//@end
}
impl<T> MemoRef<T> {
//@fn rel=crates/pico/src/memo_ref.rs name=lookup within="impl<T: 'static> MemoRef<T>" vis=pub ret=r serves=C03
//@rw R2
//@hsub "<'db>\(&self, db: &'db dyn DatabaseDyn\)" => "<'db, Db: Database>(&self, storage: &'db Storage<Db>)"
//@sub "let storage = db\.get_storage_dyn\(\);" => "" n=1
//@sub "value\s*\.downcast_ref::<T>\(\)\s*\.unwrap\(\)" => "downcast_held::<T>(value)" n=1
//@sub "unsafe \{\s*value\s*\.downcast_ref::<RawPtr<T>>\(\)\s*\.unwrap\(\)\s*\.as_ref\(\)\s*\}" => "downcast_target::<T>(value)" n=1
//@contract
        requires storage.internal.dwf(), storage.internal.dhas(self.derived_node_id),
        ensures
            // C03: the (untracked) read follows the revision as it is NOW
            self.kind == MemoRefKind::Value ==> *r == held::<T>(storage.internal.derived_nodes@[storage.internal.drev(self.derived_node_id).node_index.idx as int].value),
            self.kind == MemoRefKind::RawPtr ==> *r == target::<T>(storage.internal.derived_nodes@[storage.internal.drev(self.derived_node_id).node_index.idx as int].value), //@O C03.O-5_untracked_lookup_follows_the_current_revision
//@end
//@fn rel=crates/pico/src/memo_ref.rs name=lookup_tracked within="impl<T: 'static> MemoRef<T>" vis=pub ret=r serves=C01,C03
//@rw R2
//@hsub "<'db>\(&self, db: &'db dyn DatabaseDyn\)" => "<'db, Db: Database>(&self, storage: &'db mut Storage<Db>)"
//@sub "let storage = db\.get_storage_dyn\(\);" => "" n=1
//@sub "value\s*\.downcast_ref::<T>\(\)\s*\.unwrap\(\)" => "downcast_held::<T>(value)" n=1
//@sub "unsafe \{\s*value\s*\.downcast_ref::<RawPtr<T>>\(\)\s*\.unwrap\(\)\s*\.as_ref\(\)\s*\}" => "downcast_target::<T>(value)" n=1
//@inline rel=crates/pico/src/database.rs name=register_dependency_in_parent_memoized_fn within="impl<Db: Database> Storage<Db>" recv="storage"
//@inline rel=crates/pico/src/database.rs name=get_derived_node_value_and_revision within="impl<Db: Database> StorageDyn for Storage<Db>" recv="storage"
//@sub "\|\(node, revision\)\| \(node\.value\.as_ref\(\)\.as_any\(\), revision\)" => "|p: (&DerivedNode<Db>, DerivedNodeRevision)| -> (v: (&DynBox, DerivedNodeRevision)) ensures *v.0 == p.0.value, v.1 == p.1 { let (node, revision) = p; (&node.value, revision) }" n=1
//@contract
        requires old(storage).internal.dwf(), old(storage).internal.dhas(self.derived_node_id),
        ensures
            final(storage).internal == old(storage).internal,
            // C01: a tracked read through a MemoRef is recorded in the running memoized function
            // with the time the referenced node was last UPDATED
            final(storage).dependency_stack.0@.len() == old(storage).dependency_stack.0@.len(),
            old(storage).dependency_stack.0@.len() > 0 ==> recorded(final(storage).dependency_stack.0@.last(), old(storage).dependency_stack.0@.last(),
                    Dependency { node_to: NodeKind::Derived(self.derived_node_id), time_verified_or_updated: old(storage).internal.current_epoch },
                    old(storage).internal.drev(self.derived_node_id).time_updated)
                && final(storage).dependency_stack.0@.drop_last() == old(storage).dependency_stack.0@.drop_last(), //@O C01.O-7_tracked_lookup_is_recorded_with_the_time_of_last_update
            // C03: the value read is the one in the node the revision points at NOW
            self.kind == MemoRefKind::Value ==> *r == held::<T>(old(storage).internal.derived_nodes@[old(storage).internal.drev(self.derived_node_id).node_index.idx as int].value),
            self.kind == MemoRefKind::RawPtr ==> *r == target::<T>(old(storage).internal.derived_nodes@[old(storage).internal.drev(self.derived_node_id).node_index.idx as int].value), //@O C03.O-5_lookup_follows_the_current_revision
//@end
}

// =====================================================================================
// execute_memoized_function: the decision reuse / re-execute / create (the real body)
// =====================================================================================
impl<Db: Database> InternalStorage<Db> {
//@fn rel=crates/pico/src/database.rs name=node_verified_in_current_epoch within="impl<Db: Database> InternalStorage<Db>" vis=pub ret=r serves=C01,C02
//@sub "\.map\(\|rev\| rev\.time_verified == self\.current_epoch\)" => ".map(|rev: &DerivedNodeRevision| -> (v: bool) ensures v == (rev.time_verified == self.current_epoch) { rev.time_verified == self.current_epoch })" n=1
//@contract
        requires self.dhas(derived_node_id),
        ensures r == (self.drev(derived_node_id).time_verified == self.current_epoch),
//@end
//@fn rel=crates/pico/src/database.rs name=verify_derived_node within="impl<Db: Database> InternalStorage<Db>" vis=pub serves=C01,C02
//@hsub "&self," => "&mut self,"
//@sub "let mut rev = self" => "let rev = self" n=1
//@contract
        requires old(self).dhas(derived_node_id),
        ensures
            // only the time_verified stamp of this node changes
            final(self).derived_node_id_to_revision@ == old(self).derived_node_id_to_revision@.insert(derived_node_id,
                DerivedNodeRevision { time_verified: old(self).current_epoch, ..old(self).drev(derived_node_id) }), //@O C02.O-8_verifying_a_node_only_stamps_it_verified_now
            final(self).derived_nodes == old(self).derived_nodes, final(self).derived_node_dependencies == old(self).derived_node_dependencies,
            final(self).source_node_key_to_index == old(self).source_node_key_to_index, final(self).source_nodes == old(self).source_nodes,
            final(self).current_epoch == old(self).current_epoch,
//@end
}
impl DynBox {
    /// the unique-access representation cannot keep `&node.value` alive across a call that
    /// takes the storage by `&mut`; the real code can (interior mutability), and nodes are never
    /// overwritten (O-4 / O-6), so a copy that is equal to the borrowed value stands for it
    #[verifier::external_body]
    pub fn snapshot(&self) -> (r: DynBox) ensures r == *self { unimplemented!() }
}
/// any_dependency_changed seen through the unique-access representation. The two result clauses
/// are the postconditions PROVED above for the real any_dependency_changed (entry state); the
/// frame (what re-executing dependencies may touch: other nodes only; stores only grow; the stack
/// of running functions is balanced) is assumed, as for invoke_with_dependency_tracking
#[verifier::external_body]
pub fn any_dependency_changed_m<Db: Database>(db: &mut Storage<Db>, derived_node_id: DerivedNodeId) -> (r: bool)
    requires old(db).internal.wf(), old(db).internal.dwf(), old(db).internal.dhas(derived_node_id),
    ensures
        forall|j: int| 0 <= j < old(db).internal.ddeps(derived_node_id).len()
            && (#[trigger] old(db).internal.ddeps(derived_node_id)[j]).time_verified_or_updated != old(db).internal.current_epoch
            && stale_source_dep(&old(db).internal, old(db).internal.ddeps(derived_node_id)[j]) ==> r,
        (forall|j: int| 0 <= j < old(db).internal.ddeps(derived_node_id).len() ==>
            (#[trigger] old(db).internal.ddeps(derived_node_id)[j]).time_verified_or_updated == old(db).internal.current_epoch) ==> !r,
        final(db).internal.wf(), final(db).internal.dwf(),
        final(db).internal.dhas(derived_node_id) && final(db).internal.drev(derived_node_id) == old(db).internal.drev(derived_node_id),
        forall|i: int| 0 <= i < old(db).internal.derived_nodes@.len() ==> #[trigger] final(db).internal.derived_nodes@[i] == old(db).internal.derived_nodes@[i],
        final(db).internal.derived_nodes@.len() >= old(db).internal.derived_nodes@.len(),
        final(db).internal.derived_node_dependencies@.len() >= old(db).internal.derived_node_dependencies@.len(),
        final(db).internal.current_epoch == old(db).internal.current_epoch,
        final(db).dependency_stack == old(db).dependency_stack,
        final(db).top_level_calls == old(db).top_level_calls,
{ unimplemented!() }

//@fn rel=crates/pico/src/execute_memoized_function.rs name=execute_memoized_function vis=pub ret=r rename=execute_memoized_function_body serves=C01,C02,C03
//@rw R1 R2
//@hsub "db: &Db," => "db: &mut Storage<Db>,"
//@sub "db\s*\.get_storage\(\)" => "db" n=*
//@sub "any_dependency_changed\(db, derived_node_id\)" => "any_dependency_changed_m(db, derived_node_id)" n=1
//@sub "\{\s*if db\s*\.internal\s*\.node_verified_in_current_epoch" => "{ let prev_value_snapshot = derived_node.value.snapshot(); if db.internal.node_verified_in_current_epoch" n=1
//@sub "derived_node\.value\.as_ref\(\)" => "&prev_value_snapshot" n=1
//@sub "db\s*\.internal\s*\.verify_derived_node\(derived_node_id\);" => "db.internal.verify_derived_node(derived_node_id);" n=1
//@contract
    requires
        old(db).internal.wf(), old(db).internal.dwf(),
        forall|s: Storage<Db>| #[trigger] inner_fn_succeeds(&s, derived_node_id),
    ensures
        // "In all cases, the DerivedNode's verified_at will end up being the current epoch"
        final(db).internal.dhas(derived_node_id)
            && final(db).internal.drev(derived_node_id).time_verified == old(db).internal.current_epoch, //@O C01+C02.O-8_node_is_present_and_verified_now_after_the_call
        // C02: a node already verified in this epoch is reused without any work
        old(db).internal.dhas(derived_node_id) && old(db).internal.drev(derived_node_id).time_verified == old(db).internal.current_epoch ==>
            r is ReusedMemoizedValue && final(db).internal == old(db).internal, //@O C02.O-8_node_verified_this_epoch_is_reused_without_any_work
        // C02: no dependency to re-examine => same node, same time_updated, only verified now
        old(db).internal.dhas(derived_node_id)
            && (forall|j: int| 0 <= j < old(db).internal.ddeps(derived_node_id).len() ==>
                (#[trigger] old(db).internal.ddeps(derived_node_id)[j]).time_verified_or_updated == old(db).internal.current_epoch) ==>
            r is ReusedMemoizedValue
            && final(db).internal.drev(derived_node_id).node_index == old(db).internal.drev(derived_node_id).node_index
            && final(db).internal.drev(derived_node_id).time_updated == old(db).internal.drev(derived_node_id).time_updated
            && final(db).internal.drev(derived_node_id).dependency_index == old(db).internal.drev(derived_node_id).dependency_index, //@O C02.O-8_unchanged_dependencies_mean_no_reexecution
        // C01: a source dependency that changed since it was recorded => the function is run
        // again (its dependency list is a fresh one) unless the node was verified in this epoch
        old(db).internal.dhas(derived_node_id) && old(db).internal.drev(derived_node_id).time_verified != old(db).internal.current_epoch
            && (exists|j: int| 0 <= j < old(db).internal.ddeps(derived_node_id).len()
                && (#[trigger] old(db).internal.ddeps(derived_node_id)[j]).time_verified_or_updated != old(db).internal.current_epoch
                && stale_source_dep(&old(db).internal, old(db).internal.ddeps(derived_node_id)[j])) ==>
            r is Error || final(db).internal.drev(derived_node_id).dependency_index.idx >= old(db).internal.derived_node_dependencies@.len(), //@O C01.O-8_changed_source_dependency_leads_to_reexecution
        // a node that does not exist is computed
        !old(db).internal.dhas(derived_node_id) ==> r is Recalculated, //@O C01.O-8_missing_node_is_computed
        // existing nodes are never overwritten, whatever happens
        forall|i: int| 0 <= i < old(db).internal.derived_nodes@.len() ==> #[trigger] final(db).internal.derived_nodes@[i] == old(db).internal.derived_nodes@[i], //@O C03.O-8_executing_never_overwrites_a_node
        // C01: the call is recorded in the function that made it, as verified now ...
        final(db).dependency_stack.0@.len() == old(db).dependency_stack.0@.len(),
        old(db).dependency_stack.0@.len() > 0 ==>
            (exists|t: Epoch| recorded(final(db).dependency_stack.0@.last(), old(db).dependency_stack.0@.last(),
                Dependency { node_to: NodeKind::Derived(derived_node_id), time_verified_or_updated: old(db).internal.current_epoch }, t))
            && final(db).dependency_stack.0@.drop_last() == old(db).dependency_stack.0@.drop_last(), //@O C01.O-8_call_is_recorded_in_the_calling_function
        // ... and, when nothing was executed, with the node's own time of last update
        old(db).dependency_stack.0@.len() > 0 && r is ReusedMemoizedValue
            && final(db).internal.drev(derived_node_id).dependency_index == old(db).internal.drev(derived_node_id).dependency_index ==>
            recorded(final(db).dependency_stack.0@.last(), old(db).dependency_stack.0@.last(),
                Dependency { node_to: NodeKind::Derived(derived_node_id), time_verified_or_updated: old(db).internal.current_epoch },
                final(db).internal.drev(derived_node_id).time_updated), //@O C01.O-8_reused_node_is_recorded_with_its_time_of_last_update
        // C03: an outermost call is remembered for the next garbage collection
        old(db).dependency_stack.0@.len() == 0 ==> final(db).top_level_calls@ == old(db).top_level_calls@.push(derived_node_id), //@O C03.O-8_top_level_call_is_recorded_for_collection
        old(db).dependency_stack.0@.len() > 0 ==> final(db).top_level_calls@ == old(db).top_level_calls@,
        final(db).internal.current_epoch == old(db).internal.current_epoch,
        final(db).internal.dwf(),
//@before "let (did_recalculate, time_updated) ="
    let ghost s0 = db.internal;
//@after "db.internal.verify_derived_node(derived_node_id);"
            proof {
                assert forall|id2: DerivedNodeId| #[trigger] db.internal.dhas(id2) implies
                    db.internal.drev(id2).node_index.idx < db.internal.derived_nodes@.len()
                    && db.internal.drev(id2).dependency_index.idx < db.internal.derived_node_dependencies@.len() by {
                    if id2 != derived_node_id { assert(s0.dhas(id2)); } else { assert(s0.dhas(derived_node_id)); }
                }
            }
//@end

} // verus!
fn main() {}
