//! C20 (one of its four mechanisms): removing folder f must drop exactly the literals of
//! files inside f. Oracle from the statement ("file k is inside folder f"), for normalised
//! relative paths (no leading/trailing '/', no empty components), as produced by
//! pathdiff::diff_paths and by the source reader:  k == f  or  k starts with f + "/".
//! Paths are valid UTF-8 over {a, b, /, é}.
use super::src_kani::Src;
#[cfg(kani)]
use super::src_kani::KaniSrc;
use super::target::api_removed;

#[cfg(verif_deep)]
pub const NK: usize = 6;
#[cfg(verif_deep)]
pub const NF: usize = 4;
#[cfg(not(verif_deep))]
pub const NK: usize = 4;
#[cfg(not(verif_deep))]
pub const NF: usize = 3;

fn sym_path<'a, S: Src, const M: usize>(s: &mut S, buf: &'a mut [u8; M]) -> &'a str {
    let len = s.usize();
    s.assume(len >= 1 && len <= M);
    let mut i = 0;
    while i < M {
        let c = s.u8();
        // ASCII letters, the separator, and the two bytes of 'é' (U+00E9): a multi-byte
        // character makes byte offsets and char offsets differ
        s.assume(c == b'a' || c == b'b' || c == b'/' || c == 0xC3 || c == 0xA9);
        buf[i] = c;
        i += 1;
    }
    // normalised: no leading / trailing separator, no empty component
    s.assume(buf[0] != b'/' && buf[len - 1] != b'/');
    let mut j = 1;
    while j < M {
        if j < len { s.assume(!(buf[j] == b'/' && buf[j - 1] == b'/')); }
        j += 1;
    }
    match core::str::from_utf8(&buf[..len]) {
        Ok(t) => t,
        Err(_) => { s.assume(false); "" }
    }
}

fn inside(k: &str, f: &str) -> bool {
    let (kb, fb) = (k.as_bytes(), f.as_bytes());
    if kb.len() < fb.len() { return false; }
    let mut i = 0;
    while i < fb.len() {
        if kb[i] != fb[i] { return false; }
        i += 1;
    }
    kb.len() == fb.len() || kb[fb.len()] == b'/'
}

/// C20.O-1 removed(k, f)  <=>  k is inside f
pub fn removes_exactly_files_inside<S: Src>(s: &mut S) {
    let mut bk = [0u8; NK];
    let mut bf = [0u8; NF];
    let k = sym_path(s, &mut bk);
    let f = sym_path(s, &mut bf);
    s.cover(k.len() == NK && f.len() == 1);
    assert!(api_removed(k, f) == inside(k, f));
}

pub fn canary_folder<S: Src>(s: &mut S) {
    let mut bk = [0u8; NK];
    let mut bf = [0u8; NF];
    let k = sym_path(s, &mut bk);
    let f = sym_path(s, &mut bf);
    assert!(!api_removed(k, f));
}

pub fn dispatch<S: Src>(name: &str, s: &mut S) -> bool {
    match name {
        "removes_exactly_files_inside" => removes_exactly_files_inside(s),
        _ => return false,
    }
    true
}

#[cfg(kani)]
mod proofs {
    use super::*;
    #[kani::proof]
    #[kani::unwind(10)]
    fn removes_exactly_files_inside() { super::removes_exactly_files_inside(&mut KaniSrc) }
    #[kani::proof]
    #[kani::unwind(10)]
    fn canary_folder() { super::canary_folder(&mut KaniSrc) }
}
