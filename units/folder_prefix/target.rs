// unit folder_prefix — extracted Kani crate. The predicate deciding which iso-literal
// sources are dropped when folder `relative_path` disappears: the closure body inside
// IsographDatabase::remove_iso_literals_from_path (real text, extracted each run).
// R8 stand-in: the interned key `k: &RelativePathToSourceFile` is represented by its text
// (`lookup()` / `to_string()` on it yield that text).
#[derive(Clone, Copy)]
pub struct RelativePathToSourceFile<'a>(pub &'a str);
impl<'a> RelativePathToSourceFile<'a> { pub fn lookup(&self) -> &'a str { self.0 } }
impl<'a> std::fmt::Display for RelativePathToSourceFile<'a> {
    fn fmt(&self, f: &mut std::fmt::Formatter<'_>) -> std::fmt::Result { f.write_str(self.0) }
}
pub fn pred(k: &RelativePathToSourceFile, relative_path: &str) -> bool {
//@expr rel=crates/isograph_schema/src/isograph_database.rs fn=remove_iso_literals_from_path within="impl<TCompilationProfile: CompilationProfile> IsographDatabase<TCompilationProfile>" start="extract_if(|k, _|" until=")" skip="extract_if(|k, _|" serves=C20
}
/// true iff source `k` is removed when folder `f` is removed
pub fn api_removed(k: &str, f: &str) -> bool { pred(&RelativePathToSourceFile(k), f) }
