// unit pico_gc — Verus. Real bodies of pico::InternalStorage::run_garbage_collection and
// add_dependencies_to_queue (extracted on every run) against assumed dashmap / boxcar
// contracts. Serves C03: everything reachable from the retained roots survives a
// collection with the SAME stamps, dependencies, value and parameters (so it is served
// without re-execution), and nothing outside the five documented fields changes.
use vstd::prelude::*;
use std::collections::HashSet;
verus! {
broadcast use vstd::std_specs::hash::group_hash_axioms;

pub assume_specification<T>[core::mem::replace::<T>](dest: &mut T, src: T) -> (r: T)
    ensures r == *old(dest), *final(dest) == src;

// =====================================================================================
// Assumed library contracts (trusted base; hand written)
// =====================================================================================
// R8: interned ids are integers
pub type DerivedNodeId = u64;
pub type ParamId = u64;
#[derive(Clone, Copy, PartialEq, Eq, Structural)]
pub struct Key(pub u64);
#[derive(Clone, Copy, PartialEq, Eq, Structural)]
pub struct Epoch(pub usize);
/// `derived_node_id.params` (field of the interned descriptor, reached through Deref)
pub uninterp spec fn params_spec(id: DerivedNodeId) -> Seq<ParamId>;
#[verifier::external_body]
pub fn params_of(id: DerivedNodeId) -> (r: Vec<ParamId>) ensures r@ == params_spec(id) { unimplemented!() }

#[verifier::external_body]
#[verifier::reject_recursive_types(K)]
#[verifier::reject_recursive_types(V)]
pub struct DashMap<K, V> { k: core::marker::PhantomData<(K, V)> }
impl<K, V> View for DashMap<K, V> { type V = Map<K, V>; uninterp spec fn view(&self) -> Map<K, V>; }
impl<K, V> DashMap<K, V> {
    #[verifier::external_body]
    pub fn new() -> (r: Self) ensures r@ == Map::<K, V>::empty() { unimplemented!() }
    /// modelled with &mut self: the map is a local of the function under contract
    #[verifier::external_body]
    pub fn insert(&mut self, key: K, value: V) ensures final(self)@ == old(self)@.insert(key, value) { unimplemented!() }
    #[verifier::external_body]
    pub fn get(&self, key: &K) -> (r: Option<&V>)
        ensures match r { Some(v) => self@.contains_key(*key) && self@[*key] == *v, None => !self@.contains_key(*key) }
    { unimplemented!() }
    /// only read through in the code under contract
    #[verifier::external_body]
    pub fn get_mut(&self, key: &K) -> (r: Option<&V>)
        ensures match r { Some(v) => self@.contains_key(*key) && self@[*key] == *v, None => !self@.contains_key(*key) }
    { unimplemented!() }
}
#[verifier::external_body]
#[verifier::reject_recursive_types(T)]
pub struct BoxcarVec<T> { k: core::marker::PhantomData<T> }
impl<T> View for BoxcarVec<T> { type V = Seq<T>; uninterp spec fn view(&self) -> Seq<T>; }
impl<T> BoxcarVec<T> {
    #[verifier::external_body]
    pub fn new() -> (r: Self) ensures r@ == Seq::<T>::empty() { unimplemented!() }
    #[verifier::external_body]
    pub fn push(&mut self, t: T) -> (i: usize) ensures final(self)@ == old(self)@.push(t), i == old(self)@.len() { unimplemented!() }
    #[verifier::external_body]
    pub fn get_mut(&mut self, i: usize) -> (r: Option<&mut T>)
        ensures
            i < old(self)@.len() ==> r is Some && *r->Some_0 == old(self)@[i as int]
                && final(self)@ == old(self)@.update(i as int, *final(r->Some_0)),
            i >= old(self)@.len() ==> r is None && final(self)@ == old(self)@,
    { unimplemented!() }
}
/// R5: Box<dyn DynEq> / Box<dyn Any> as opaque boxes with a ghost identity (`tok`): moving
/// a box keeps its token, `Box::new(())` makes the placeholder token 0
#[verifier::external_body]
pub struct DynBox { p: core::marker::PhantomData<u8> }
impl DynBox {
    pub uninterp spec fn tok(&self) -> int;
    #[verifier::external_body]
    pub fn unit() -> (r: DynBox) ensures r.tok() == 0 { unimplemented!() }
}
#[verifier::external_body]
pub struct AnyBox { p: core::marker::PhantomData<u8> }
impl AnyBox {
    pub uninterp spec fn tok(&self) -> int;
    #[verifier::external_body]
    pub fn unit() -> (r: AnyBox) ensures r.tok() == 0 { unimplemented!() }
}
/// std::mem::take on a Vec
#[verifier::external_body]
pub fn take_vec<T>(v: &mut Vec<T>) -> (r: Vec<T>) ensures r@ == old(v)@, final(v)@.len() == 0 { unimplemented!() }

pub trait Database {}
#[derive(Clone, Copy)]
pub struct InnerFn(pub u64);
use core::marker::PhantomData;

// =====================================================================================
// Extracted types (real text; derive lists reduced)
// =====================================================================================
//@item rel=crates/pico/src/index.rs kind=struct name=Index prefix="pub"
impl<T> Clone for Index<T> { fn clone(&self) -> (r: Self) ensures r.idx == self.idx { Index { idx: self.idx, phantom: PhantomData } } }
impl<T> Copy for Index<T> {}
impl<T> Index<T> {
//@fn rel=crates/pico/src/index.rs name=new within="impl<T> Index<T>" vis=pub ret=r
//@contract
        ensures r.idx == idx,
//@end
}
//@item rel=crates/pico/src/dependency.rs kind=struct name=Dependency prefix="#[derive(Clone, Copy)] pub"
//@item rel=crates/pico/src/dependency.rs kind=enum name=NodeKind prefix="#[derive(Clone, Copy, PartialEq, Eq, Structural)] pub"
//@item rel=crates/pico/src/derived_node.rs kind=struct name=DerivedNodeRevision prefix="#[derive(Clone, Copy)] pub"
pub struct SourceNode { pub time_updated: Epoch, pub value: DynBox }
// DerivedNode<Db> { inner_fn: InnerFn<Db>, value: Box<dyn DynEq> } with the fn pointer as a token
pub struct DerivedNode { pub inner_fn: InnerFn, pub value: DynBox }
//@item rel=crates/pico/src/database.rs kind=struct name=InternalStorage prefix="#[verifier::reject_recursive_types(Db)] pub" sub="Box<dyn Any>=>AnyBox" sub2="<Db: Database>=><Db>" sub3="DerivedNode<Db>=>DerivedNode" sub4="pub current_epoch: Epoch,=>pub current_epoch: Epoch, pub phantom_db: PhantomData<Db>,"

// =====================================================================================
// Abstract view
// =====================================================================================
pub open spec fn is_dep(deps: Seq<Dependency>, id: DerivedNodeId) -> bool {
    exists|i: int| 0 <= i < deps.len() && (#[trigger] deps[i]).node_to == NodeKind::Derived(id)
}
pub open spec fn same_deps(a: Seq<Dependency>, b: Seq<Dependency>) -> bool {
    a.len() == b.len() && forall|i: int| 0 <= i < a.len() ==> (#[trigger] a[i]).node_to == b[i].node_to && a[i].time_verified_or_updated == b[i].time_verified_or_updated
}
impl<Db: Database> InternalStorage<Db> {
    pub open spec fn has(&self, id: DerivedNodeId) -> bool { self.derived_node_id_to_revision@.contains_key(id) }
    pub open spec fn rev(&self, id: DerivedNodeId) -> DerivedNodeRevision { self.derived_node_id_to_revision@[id] }
    pub open spec fn value_tok(&self, id: DerivedNodeId) -> int { self.derived_nodes@[self.rev(id).node_index.idx as int].value.tok() }
    pub open spec fn inner_fn(&self, id: DerivedNodeId) -> InnerFn { self.derived_nodes@[self.rev(id).node_index.idx as int].inner_fn }
    pub open spec fn deps(&self, id: DerivedNodeId) -> Seq<Dependency> { self.derived_node_dependencies@[self.rev(id).dependency_index.idx as int]@ }
    pub open spec fn has_param(&self, p: ParamId) -> bool { self.param_id_to_index@.contains_key(p) }
    pub open spec fn param_tok(&self, p: ParamId) -> int { self.params@[self.param_id_to_index@[p].idx as int].tok() }

    /// representation invariant the collector relies on (established by construction of
    /// the storage: every insert pushes a fresh slot; collections keep dependency closure)
    pub open spec fn wf(&self) -> bool {
        &&& forall|id: DerivedNodeId| #[trigger] self.has(id) ==>
                self.rev(id).node_index.idx < self.derived_nodes@.len()
                && self.rev(id).dependency_index.idx < self.derived_node_dependencies@.len()
        &&& forall|a: DerivedNodeId, b: DerivedNodeId| #[trigger] self.has(a) && #[trigger] self.has(b) && a != b ==>
                self.rev(a).node_index.idx != self.rev(b).node_index.idx
                && self.rev(a).dependency_index.idx != self.rev(b).dependency_index.idx
        &&& forall|id: DerivedNodeId, d: DerivedNodeId| #[trigger] self.has(id) && #[trigger] is_dep(self.deps(id), d) ==> self.has(d)
        &&& forall|p: ParamId| #[trigger] self.has_param(p) ==> self.param_id_to_index@[p].idx < self.params@.len()
        &&& forall|p: ParamId, q: ParamId| #[trigger] self.has_param(p) && #[trigger] self.has_param(q) && p != q ==>
                self.param_id_to_index@[p].idx != self.param_id_to_index@[q].idx
    }
    /// `id` survived the collection unchanged: same stamps, same dependencies, same value
    /// and function, same parameters — so a later call is served without re-execution
    pub open spec fn kept(&self, old_: &Self, id: DerivedNodeId) -> bool {
        &&& self.has(id)
        &&& self.rev(id).time_updated == old_.rev(id).time_updated
        &&& self.rev(id).time_verified == old_.rev(id).time_verified
        &&& self.rev(id).node_index.idx < self.derived_nodes@.len()
        &&& self.rev(id).dependency_index.idx < self.derived_node_dependencies@.len()
        &&& self.value_tok(id) == old_.value_tok(id)
        &&& self.inner_fn(id) == old_.inner_fn(id)
        &&& same_deps(self.deps(id), old_.deps(id))
        &&& forall|i: int| 0 <= i < params_spec(id).len() && old_.has_param(#[trigger] params_spec(id)[i]) ==>
                self.has_param(params_spec(id)[i]) && self.param_id_to_index@[params_spec(id)[i]].idx < self.params@.len()
                && self.param_tok(params_spec(id)[i]) == old_.param_tok(params_spec(id)[i])
    }
}

//@fn rel=crates/pico/src/garbage_collection.rs name=add_dependencies_to_queue vis=pub serves=C03
//@hsub "dependencies: impl Iterator<Item = &'a Dependency>," => "dependencies: &'a Vec<Dependency>,"
//@sub "for dependency in dependencies \{" => "for dependency in itd: dependencies.iter() {" n=1
//@contract
    ensures
        // the queue only grows, and every Derived dependency is now in it
        final(derived_node_id_queue)@.len() >= old(derived_node_id_queue)@.len()
            && final(derived_node_id_queue)@.subrange(0, old(derived_node_id_queue)@.len() as int) == old(derived_node_id_queue)@, //@O C03.O-1_add_dependencies_keeps_queue_prefix
        forall|d: DerivedNodeId| #[trigger] is_dep(dependencies@, d) ==> final(derived_node_id_queue)@.contains(d), //@O C03.O-1_every_derived_dependency_enqueued
        // nothing else is enqueued
        forall|i: int| old(derived_node_id_queue)@.len() <= i < final(derived_node_id_queue)@.len() ==> is_dep(dependencies@, #[trigger] final(derived_node_id_queue)@[i]), //@O C03.O-1_only_derived_dependencies_enqueued
//@loop 1
        invariant
            derived_node_id_queue@.len() >= old(derived_node_id_queue)@.len(),
            derived_node_id_queue@.subrange(0, old(derived_node_id_queue)@.len() as int) == old(derived_node_id_queue)@,
            itd.seq().len() == dependencies@.len(),
            forall|k: int| 0 <= k < itd.seq().len() ==> *(#[trigger] itd.seq()[k]) == dependencies@[k],
            forall|k: int| 0 <= k < itd.index@ ==> match (#[trigger] dependencies@[k]).node_to { NodeKind::Derived(d) => derived_node_id_queue@.contains(d), NodeKind::Source(_) => true },
            forall|i: int| old(derived_node_id_queue)@.len() <= i < derived_node_id_queue@.len() ==> is_dep(dependencies@, #[trigger] derived_node_id_queue@[i]),
//@before "derived_node_id_queue.push(dependency_id);"
                let ghost old_q = derived_node_id_queue@;
//@after "derived_node_id_queue.push(dependency_id);"
                proof {
                    let q = derived_node_id_queue@;
                    assert(q[q.len() - 1] == dependency_id);
                    assert forall|x: u64| old_q.contains(x) implies q.contains(x) by {
                        let j = choose|j: int| 0 <= j < old_q.len() && old_q[j] == x;
                        assert(q[j] == x);
                    }
                    assert(is_dep(dependencies@, dependency_id)) by { assert(dependencies@[itd.index@].node_to == NodeKind::Derived(dependency_id)); }
                }
//@end

pub open spec fn copied<Db: Database>(o: &InternalStorage<Db>, id: DerivedNodeId, nmap: Map<DerivedNodeId, DerivedNodeRevision>, nnodes: Seq<DerivedNode>, ndeps: Seq<Vec<Dependency>>) -> bool {
    &&& nmap.contains_key(id)
    &&& nmap[id].time_updated == o.rev(id).time_updated
    &&& nmap[id].time_verified == o.rev(id).time_verified
    &&& nmap[id].node_index.idx < nnodes.len()
    &&& nmap[id].dependency_index.idx < ndeps.len()
    &&& nnodes[nmap[id].node_index.idx as int].value.tok() == o.value_tok(id)
    &&& nnodes[nmap[id].node_index.idx as int].inner_fn == o.inner_fn(id)
    &&& ndeps[nmap[id].dependency_index.idx as int]@ == o.deps(id)
}
pub open spec fn param_copied<Db: Database>(o: &InternalStorage<Db>, q: ParamId, npmap: Map<ParamId, Index<ParamId>>, nparams: Seq<AnyBox>) -> bool {
    &&& npmap.contains_key(q)
    &&& npmap[q].idx < nparams.len()
    &&& nparams[npmap[q].idx as int].tok() == o.param_tok(q)
}
pub open spec fn all_params_in(id: DerivedNodeId, pp: Set<ParamId>) -> bool {
    forall|i: int| 0 <= i < params_spec(id).len() ==> pp.contains(#[trigger] params_spec(id)[i])
}
pub open spec fn in_queue_or_done(d: DerivedNodeId, processed: Set<DerivedNodeId>, queue: Seq<DerivedNodeId>) -> bool {
    processed.contains(d) || queue.contains(d)
}

impl<Db: Database> InternalStorage<Db> {
    /// what the collector leaves alone while it runs
    pub open spec fn same_maps(&self, o: &Self) -> bool {
        &&& self.derived_node_id_to_revision@ == o.derived_node_id_to_revision@
        &&& self.param_id_to_index@ == o.param_id_to_index@
        &&& self.source_node_key_to_index@ == o.source_node_key_to_index@
        &&& self.source_nodes@ == o.source_nodes@
        &&& self.current_epoch == o.current_epoch
        &&& self.derived_nodes@.len() == o.derived_nodes@.len()
        &&& self.derived_node_dependencies@.len() == o.derived_node_dependencies@.len()
        &&& self.params@.len() == o.params@.len()
    }
    pub open spec fn untouched_nodes(&self, o: &Self, processed: Set<DerivedNodeId>) -> bool {
        forall|id: DerivedNodeId| #[trigger] o.has(id) && !processed.contains(id) ==>
            self.derived_nodes@[o.rev(id).node_index.idx as int] == o.derived_nodes@[o.rev(id).node_index.idx as int]
            && self.derived_node_dependencies@[o.rev(id).dependency_index.idx as int] == o.derived_node_dependencies@[o.rev(id).dependency_index.idx as int]
    }
    pub open spec fn untouched_params(&self, o: &Self, pp: Set<ParamId>) -> bool {
        forall|q: ParamId| #[trigger] o.has_param(q) && !pp.contains(q) ==>
            self.params@[o.param_id_to_index@[q].idx as int] == o.params@[o.param_id_to_index@[q].idx as int]
    }
    /// the loop invariant of the worklist
    pub open spec fn gc_inv(&self, o: &Self, roots: Seq<DerivedNodeId>, queue: Seq<DerivedNodeId>,
        processed: Set<DerivedNodeId>, pp: Set<ParamId>,
        nmap: Map<DerivedNodeId, DerivedNodeRevision>, nnodes: Seq<DerivedNode>, ndeps: Seq<Vec<Dependency>>,
        npmap: Map<ParamId, Index<ParamId>>, nparams: Seq<AnyBox>) -> bool {
        &&& o.wf()
        &&& self.same_maps(o)
        &&& self.untouched_nodes(o, processed)
        &&& self.untouched_params(o, pp)
        &&& forall|id: DerivedNodeId| #[trigger] processed.contains(id) ==> o.has(id) && copied(o, id, nmap, nnodes, ndeps)
        &&& forall|id: DerivedNodeId| #[trigger] nmap.contains_key(id) ==> processed.contains(id)
        &&& forall|i: int| 0 <= i < queue.len() ==> o.has(#[trigger] queue[i])
        &&& forall|i: int| 0 <= i < roots.len() ==> in_queue_or_done(#[trigger] roots[i], processed, queue)
        &&& forall|q: ParamId| #[trigger] pp.contains(q) && o.has_param(q) ==> param_copied(o, q, npmap, nparams)
        &&& forall|q: ParamId| #[trigger] npmap.contains_key(q) ==> pp.contains(q) && o.has_param(q)
    }
}

impl<Db: Database> InternalStorage<Db> {
//@fn rel=crates/pico/src/garbage_collection.rs name=run_garbage_collection within="impl<Db: Database> InternalStorage<Db>" vis=pub serves=C01,C03 prefix="#[verifier::exec_allows_no_decreases_clause]"
//@rw R1 R2 R10
//@hsub "retained_derived_node_ids: impl Iterator<Item = DerivedNodeId>," => "retained_derived_node_ids: Vec<DerivedNodeId>,"
//@sub "retained_derived_node_ids\.collect::<Vec<_>>\(\)" => "retained_derived_node_ids" n=1
//@sub "let mut processed_nodes = HashSet::new\(\);" => "let mut processed_nodes: HashSet<u64> = HashSet::new();" n=1
//@sub "let mut processed_params = HashSet::new\(\);" => "let mut processed_params: HashSet<u64> = HashSet::new();" n=1
//@sub "let new_params = BoxcarVec::new\(\);" => "let mut new_params: BoxcarVec<AnyBox> = BoxcarVec::new();" n=1
//@sub "let new_derived_nodes = BoxcarVec::new\(\);" => "let mut new_derived_nodes: BoxcarVec<DerivedNode> = BoxcarVec::new();" n=1
//@sub "let new_dependencies = BoxcarVec::new\(\);" => "let mut new_dependencies: BoxcarVec<Vec<Dependency>> = BoxcarVec::new();" n=1
//@sub "let new_param_id_to_index = DashMap::new\(\);" => "let mut new_param_id_to_index: DashMap<ParamId, Index<ParamId>> = DashMap::new();" n=1
//@sub "let new_derived_node_id_to_revision = DashMap::new\(\);" => "let mut new_derived_node_id_to_revision: DashMap<DerivedNodeId, DerivedNodeRevision> = DashMap::new();" n=1
//@sub "old_dependencies\.iter\(\)" => "&*old_dependencies" n=1
//@sub "std::mem::replace\(&mut old_derived_node\.value, Box::new\(\(\)\)\)" => "std::mem::replace(&mut old_derived_node.value, DynBox::unit())" n=1
//@sub "std::mem::replace\(old_param, Box::new\(\(\)\)\)" => "std::mem::replace(old_param, AnyBox::unit())" n=1
//@sub "std::mem::take\(old_dependencies\)" => "take_vec(old_dependencies)" n=1
//@sub "for param_id in derived_node_id\.params \{" => "for param_id in itp: params_of(derived_node_id) {" n=1
//@contract
        requires
            old(self).wf(),
            // the roots handed to the collector are live derived nodes (call-site precondition)
            forall|i: int| 0 <= i < retained_derived_node_ids@.len() ==> old(self).has(#[trigger] retained_derived_node_ids@[i]),
        ensures
            // every retained root survives
            forall|i: int| 0 <= i < retained_derived_node_ids@.len() ==> final(self).has(#[trigger] retained_derived_node_ids@[i]), //@O C03.O-1_retained_roots_survive
            // whatever survives was live before and is unchanged: stamps, value, function,
            // dependencies and parameters — it is served without re-execution
            forall|id: DerivedNodeId| #[trigger] final(self).has(id) ==> old(self).has(id) && final(self).kept(old(self), id), //@O C01+C03.O-1_survivors_keep_stamps_value_dependencies_params
            // the survivors are closed under Derived dependencies: everything a retained
            // query depends on is retained too
            forall|id: DerivedNodeId, d: DerivedNodeId| final(self).has(id) && #[trigger] is_dep(old(self).deps(id), d) ==> final(self).has(d), //@O C03.O-1_survivors_closed_under_dependencies
            // sources and the clock are not touched
            final(self).source_node_key_to_index@ == old(self).source_node_key_to_index@
                && final(self).source_nodes@ == old(self).source_nodes@
                && final(self).current_epoch == old(self).current_epoch, //@O C03.O-2_collection_leaves_sources_and_clock_alone
//@before "let mut derived_node_id_queue"
        let ghost roots = retained_derived_node_ids@;
//@before "'derived_node_id_queue: while"
        let ghost mut qhead = derived_node_id_queue@;
//@loop 1
            invariant
                qhead == derived_node_id_queue@,
                self.gc_inv(old(self), roots, derived_node_id_queue@, processed_nodes@, processed_params@,
                    new_derived_node_id_to_revision@, new_derived_nodes@, new_dependencies@, new_param_id_to_index@, new_params@),
                forall|p: DerivedNodeId, d: DerivedNodeId| processed_nodes@.contains(p) && #[trigger] is_dep(old(self).deps(p), d) ==>
                    in_queue_or_done(d, processed_nodes@, derived_node_id_queue@), //@O C03.O-1_worklist_every_dependency_of_a_copied_node_is_copied_or_queued
                forall|p: DerivedNodeId| #[trigger] processed_nodes@.contains(p) ==> all_params_in(p, processed_params@), //@O C01+C03.O-1_worklist_params_of_copied_nodes_are_visited
            ensures
                derived_node_id_queue@.len() == 0,
//@before "if processed_nodes.contains(&derived_node_id)"
            proof {
                assert(qhead =~= derived_node_id_queue@.push(derived_node_id));
                assert forall|d: DerivedNodeId| qhead.contains(d) implies derived_node_id_queue@.contains(d) || d == derived_node_id by {
                    let j = choose|j: int| 0 <= j < qhead.len() && qhead[j] == d;
                    if j < qhead.len() - 1 { assert(derived_node_id_queue@[j] == d); }
                }
                assert(old(self).has(derived_node_id)) by { assert(qhead[qhead.len() - 1] == derived_node_id); }
            }
            let ghost q1 = derived_node_id_queue@;
            let ghost processed0 = processed_nodes@;
//@after "if processed_nodes.contains(&derived_node_id)"
            proof { qhead = derived_node_id_queue@; }
//@after "add_dependencies_to_queue("
            proof {
                let q2 = derived_node_id_queue@;
                assert forall|d: DerivedNodeId| q1.contains(d) implies q2.contains(d) by {
                    let j = choose|j: int| 0 <= j < q1.len() && q1[j] == d;
                    assert(q2.subrange(0, q1.len() as int)[j] == d);
                    assert(q2[j] == d);
                }
                assert(old_dependencies@ == old(self).deps(derived_node_id));
                assert forall|i: int| 0 <= i < q2.len() implies old(self).has(#[trigger] q2[i]) by {
                    if i < q1.len() { assert(q2.subrange(0, q1.len() as int)[i] == q2[i]); assert(old(self).has(q1[i])); }
                    else { assert(is_dep(old(self).deps(derived_node_id), q2[i])); }
                }
            }
//@after "new_derived_node_id_to_revision.insert("
            proof {
                let o = old(self);
                let x = derived_node_id;
                let nmap = new_derived_node_id_to_revision@; let nnodes = new_derived_nodes@; let ndeps = new_dependencies@;
                assert(self.same_maps(o));
                assert(self.untouched_params(o, processed_params@));
                assert(copied(o, x, nmap, nnodes, ndeps));
                assert forall|id: DerivedNodeId| #[trigger] processed_nodes@.contains(id) implies o.has(id) && copied(o, id, nmap, nnodes, ndeps) by {
                    if id != x { assert(processed0.contains(id)); }
                }
                assert(self.untouched_nodes(o, processed_nodes@));
                assert forall|id: DerivedNodeId| #[trigger] nmap.contains_key(id) implies processed_nodes@.contains(id) by {}
                assert forall|i: int| 0 <= i < derived_node_id_queue@.len() implies o.has(#[trigger] derived_node_id_queue@[i]) by {}
                assert forall|i: int| 0 <= i < roots.len() implies in_queue_or_done(#[trigger] roots[i], processed_nodes@, derived_node_id_queue@) by {}
            }
//@loop 2
                invariant
                    itp.seq() == params_spec(derived_node_id),
                    processed_nodes@.contains(derived_node_id),
                    self.gc_inv(old(self), roots, derived_node_id_queue@, processed_nodes@, processed_params@,
                        new_derived_node_id_to_revision@, new_derived_nodes@, new_dependencies@, new_param_id_to_index@, new_params@),
                    forall|p: DerivedNodeId, d: DerivedNodeId| processed_nodes@.contains(p) && #[trigger] is_dep(old(self).deps(p), d) ==>
                        in_queue_or_done(d, processed_nodes@, derived_node_id_queue@),
                    forall|p: DerivedNodeId| #[trigger] processed_nodes@.contains(p) && p != derived_node_id ==> all_params_in(p, processed_params@),
                    forall|k: int| 0 <= k < itp.index@ ==> processed_params@.contains(#[trigger] params_spec(derived_node_id)[k]), //@O C01+C03.O-1_every_param_of_a_survivor_is_visited
//@bodystart 2
                let ghost pp0 = processed_params@;
                let ghost npmap0 = new_param_id_to_index@;
                let ghost nparams0 = new_params@;
//@before "let old_param = self.params.get_mut("
                    proof { assert(old(self).has_param(param_id)); }
//@after "new_param_id_to_index.insert(param_id, new_param_index);"
                    proof {
                        let o = old(self);
                        let npmap = new_param_id_to_index@; let nparams = new_params@;
                        assert(self.same_maps(o));
                        assert(param_copied(o, param_id, npmap, nparams));
                        assert forall|q: ParamId| #[trigger] processed_params@.contains(q) && o.has_param(q) implies param_copied(o, q, npmap, nparams) by {
                            if q != param_id { assert(pp0.contains(q)); assert(param_copied(o, q, npmap0, nparams0)); }
                        }
                        assert forall|q: ParamId| #[trigger] npmap.contains_key(q) implies processed_params@.contains(q) && o.has_param(q) by {
                            if q != param_id { assert(npmap0.contains_key(q)); }
                        }
                        assert(self.untouched_params(o, processed_params@));
                        assert(self.untouched_nodes(o, processed_nodes@));
                    }
//@before "self.params = new_params;"
        proof {
            assert(derived_node_id_queue@.len() == 0);
            assert forall|i: int| 0 <= i < roots.len() implies processed_nodes@.contains(#[trigger] roots[i]) by {
                assert(in_queue_or_done(roots[i], processed_nodes@, derived_node_id_queue@));
            }
            assert forall|p: DerivedNodeId, d: DerivedNodeId| processed_nodes@.contains(p) && #[trigger] is_dep(old(self).deps(p), d) implies processed_nodes@.contains(d) by {
                assert(in_queue_or_done(d, processed_nodes@, derived_node_id_queue@));
            }
        }
//@end
}

} // verus!
fn main() {}
