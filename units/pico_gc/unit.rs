// unit pico_gc — Verus. Real bodies of pico::InternalStorage::run_garbage_collection and
// add_dependencies_to_queue (extracted on every run) against assumed dashmap / boxcar
// contracts. Serves C03: everything reachable from the retained roots survives a
// collection with the SAME stamps, dependencies, value and parameters (so it is served
// without re-execution), and nothing outside the five documented fields changes.
use vstd::prelude::*;
use std::collections::HashSet;
verus! {
broadcast use vstd::std_specs::hash::group_hash_axioms;

pub assume_specification<T>[core::mem::replace::<T>](dest: &mut T, src: T) -> (r: T)
    ensures r == *old(dest), *final(dest) == src;

// =====================================================================================
// Assumed library contracts (trusted base; hand written)
// =====================================================================================
// R8: interned ids are integers
pub type DerivedNodeId = u64;
pub type ParamId = u64;
#[derive(Clone, Copy, PartialEq, Eq, Structural)]
pub struct Key(pub u64);
#[derive(Clone, Copy, PartialEq, Eq, Structural)]
pub struct Epoch(pub usize);
/// `derived_node_id.params` (field of the interned descriptor, reached through Deref)
pub uninterp spec fn params_spec(id: DerivedNodeId) -> Seq<ParamId>;
#[verifier::external_body]
pub fn params_of(id: DerivedNodeId) -> (r: Vec<ParamId>) ensures r@ == params_spec(id) { unimplemented!() }

#[verifier::external_body]
#[verifier::reject_recursive_types(K)]
#[verifier::reject_recursive_types(V)]
pub struct DashMap<K, V> { k: core::marker::PhantomData<(K, V)> }
impl<K, V> View for DashMap<K, V> { type V = Map<K, V>; uninterp spec fn view(&self) -> Map<K, V>; }
impl<K, V> DashMap<K, V> {
    #[verifier::external_body]
    pub fn new() -> (r: Self) ensures r@ == Map::<K, V>::empty() { unimplemented!() }
    /// modelled with &mut self: the map is a local of the function under contract
    #[verifier::external_body]
    pub fn insert(&mut self, key: K, value: V) ensures final(self)@ == old(self)@.insert(key, value) { unimplemented!() }
    #[verifier::external_body]
    pub fn get(&self, key: &K) -> (r: Option<&V>)
        ensures match r { Some(v) => self@.contains_key(*key) && self@[*key] == *v, None => !self@.contains_key(*key) }
    { unimplemented!() }
    /// only read through in the code under contract
    #[verifier::external_body]
    pub fn get_mut(&self, key: &K) -> (r: Option<&V>)
        ensures match r { Some(v) => self@.contains_key(*key) && self@[*key] == *v, None => !self@.contains_key(*key) }
    { unimplemented!() }
}
#[verifier::external_body]
#[verifier::reject_recursive_types(T)]
pub struct BoxcarVec<T> { k: core::marker::PhantomData<T> }
impl<T> View for BoxcarVec<T> { type V = Seq<T>; uninterp spec fn view(&self) -> Seq<T>; }
impl<T> BoxcarVec<T> {
    #[verifier::external_body]
    pub fn new() -> (r: Self) ensures r@ == Seq::<T>::empty() { unimplemented!() }
    #[verifier::external_body]
    pub fn push(&mut self, t: T) -> (i: usize) ensures final(self)@ == old(self)@.push(t), i == old(self)@.len() { unimplemented!() }
    #[verifier::external_body]
    pub fn get_mut(&mut self, i: usize) -> (r: Option<&mut T>)
        ensures
            i < old(self)@.len() ==> r is Some && *r->Some_0 == old(self)@[i as int]
                && final(self)@ == old(self)@.update(i as int, *final(r->Some_0)),
            i >= old(self)@.len() ==> r is None && final(self)@ == old(self)@,
    { unimplemented!() }
}
/// R5: Box<dyn DynEq> / Box<dyn Any> as opaque boxes with a ghost identity (`tok`): moving
/// a box keeps its token, `Box::new(())` makes the placeholder token 0
#[verifier::external_body]
pub struct DynBox { p: core::marker::PhantomData<u8> }
impl DynBox {
    pub uninterp spec fn tok(&self) -> int;
    #[verifier::external_body]
    pub fn unit() -> (r: DynBox) ensures r.tok() == 0 { unimplemented!() }
}
#[verifier::external_body]
pub struct AnyBox { p: core::marker::PhantomData<u8> }
impl AnyBox {
    pub uninterp spec fn tok(&self) -> int;
    #[verifier::external_body]
    pub fn unit() -> (r: AnyBox) ensures r.tok() == 0 { unimplemented!() }
}
/// std::mem::take on a Vec
#[verifier::external_body]
pub fn take_vec<T>(v: &mut Vec<T>) -> (r: Vec<T>) ensures r@ == old(v)@, final(v)@.len() == 0 { unimplemented!() }

pub trait Database {}
#[derive(Clone, Copy)]
pub struct InnerFn(pub u64);
use core::marker::PhantomData;

// =====================================================================================
// Extracted types (real text; derive lists reduced)
// =====================================================================================
//@item rel=crates/pico/src/index.rs kind=struct name=Index prefix="pub"
impl<T> Clone for Index<T> { fn clone(&self) -> (r: Self) ensures r.idx == self.idx { Index { idx: self.idx, phantom: PhantomData } } }
impl<T> Copy for Index<T> {}
impl<T> Index<T> {
//@fn rel=crates/pico/src/index.rs name=new within="impl<T> Index<T>" vis=pub ret=r
//@contract
        ensures r.idx == idx,
//@end
}
//@item rel=crates/pico/src/dependency.rs kind=struct name=Dependency prefix="#[derive(Clone, Copy)] pub"
//@item rel=crates/pico/src/dependency.rs kind=enum name=NodeKind prefix="#[derive(Clone, Copy, PartialEq, Eq, Structural)] pub"
//@item rel=crates/pico/src/derived_node.rs kind=struct name=DerivedNodeRevision prefix="#[derive(Clone, Copy)] pub"
pub struct SourceNode { pub time_updated: Epoch, pub value: DynBox }
// DerivedNode<Db> { inner_fn: InnerFn<Db>, value: Box<dyn DynEq> } with the fn pointer as a token
pub struct DerivedNode { pub inner_fn: InnerFn, pub value: DynBox }
//@item rel=crates/pico/src/database.rs kind=struct name=InternalStorage prefix="#[verifier::reject_recursive_types(Db)] pub" sub="Box<dyn Any>=>AnyBox" sub2="<Db: Database>=><Db>" sub3="DerivedNode<Db>=>DerivedNode" sub4="pub current_epoch: Epoch,=>pub current_epoch: Epoch, pub phantom_db: PhantomData<Db>,"

// =====================================================================================
// Abstract view
// =====================================================================================
pub open spec fn is_dep(deps: Seq<Dependency>, id: DerivedNodeId) -> bool {
    exists|i: int| 0 <= i < deps.len() && (#[trigger] deps[i]).node_to == NodeKind::Derived(id)
}
pub open spec fn same_deps(a: Seq<Dependency>, b: Seq<Dependency>) -> bool {
    a.len() == b.len() && forall|i: int| 0 <= i < a.len() ==> (#[trigger] a[i]).node_to == b[i].node_to && a[i].time_verified_or_updated == b[i].time_verified_or_updated
}
impl<Db: Database> InternalStorage<Db> {
    pub open spec fn has(&self, id: DerivedNodeId) -> bool { self.derived_node_id_to_revision@.contains_key(id) }
    pub open spec fn rev(&self, id: DerivedNodeId) -> DerivedNodeRevision { self.derived_node_id_to_revision@[id] }
    pub open spec fn value_tok(&self, id: DerivedNodeId) -> int { self.derived_nodes@[self.rev(id).node_index.idx as int].value.tok() }
    pub open spec fn inner_fn(&self, id: DerivedNodeId) -> InnerFn { self.derived_nodes@[self.rev(id).node_index.idx as int].inner_fn }
    pub open spec fn deps(&self, id: DerivedNodeId) -> Seq<Dependency> { self.derived_node_dependencies@[self.rev(id).dependency_index.idx as int]@ }
    pub open spec fn has_param(&self, p: ParamId) -> bool { self.param_id_to_index@.contains_key(p) }
    pub open spec fn param_tok(&self, p: ParamId) -> int { self.params@[self.param_id_to_index@[p].idx as int].tok() }

    /// representation invariant the collector relies on (established by construction of
    /// the storage: every insert pushes a fresh slot; collections keep dependency closure)
    pub open spec fn wf(&self) -> bool {
        &&& forall|id: DerivedNodeId| #[trigger] self.has(id) ==>
                self.rev(id).node_index.idx < self.derived_nodes@.len()
                && self.rev(id).dependency_index.idx < self.derived_node_dependencies@.len()
        &&& forall|a: DerivedNodeId, b: DerivedNodeId| #[trigger] self.has(a) && #[trigger] self.has(b) && a != b ==>
                self.rev(a).node_index.idx != self.rev(b).node_index.idx
                && self.rev(a).dependency_index.idx != self.rev(b).dependency_index.idx
        &&& forall|id: DerivedNodeId, d: DerivedNodeId| #[trigger] self.has(id) && #[trigger] is_dep(self.deps(id), d) ==> self.has(d)
        &&& forall|p: ParamId| #[trigger] self.has_param(p) ==> self.param_id_to_index@[p].idx < self.params@.len()
        &&& forall|p: ParamId, q: ParamId| #[trigger] self.has_param(p) && #[trigger] self.has_param(q) && p != q ==>
                self.param_id_to_index@[p].idx != self.param_id_to_index@[q].idx
    }
    /// `id` survived the collection unchanged: same stamps, same dependencies, same value
    /// and function, same parameters — so a later call is served without re-execution
    pub open spec fn kept(&self, old_: &Self, id: DerivedNodeId) -> bool {
        &&& self.has(id)
        &&& self.rev(id).time_updated == old_.rev(id).time_updated
        &&& self.rev(id).time_verified == old_.rev(id).time_verified
        &&& self.rev(id).node_index.idx < self.derived_nodes@.len()
        &&& self.rev(id).dependency_index.idx < self.derived_node_dependencies@.len()
        &&& self.value_tok(id) == old_.value_tok(id)
        &&& self.inner_fn(id) == old_.inner_fn(id)
        &&& same_deps(self.deps(id), old_.deps(id))
        &&& forall|i: int| 0 <= i < params_spec(id).len() && old_.has_param(#[trigger] params_spec(id)[i]) ==>
                self.has_param(params_spec(id)[i]) && self.param_id_to_index@[params_spec(id)[i]].idx < self.params@.len()
                && self.param_tok(params_spec(id)[i]) == old_.param_tok(params_spec(id)[i])
    }
}

//@fn rel=crates/pico/src/garbage_collection.rs name=add_dependencies_to_queue vis=pub serves=C03
//@hsub "dependencies: impl Iterator<Item = &'a Dependency>," => "dependencies: &'a Vec<Dependency>,"
//@sub "for dependency in dependencies \{" => "for dependency in itd: dependencies.iter() {" n=1
//@contract
    ensures
        // the queue only grows, and every Derived dependency is now in it
        final(derived_node_id_queue)@.len() >= old(derived_node_id_queue)@.len()
            && final(derived_node_id_queue)@.subrange(0, old(derived_node_id_queue)@.len() as int) == old(derived_node_id_queue)@, //@O C03.O-1_add_dependencies_keeps_queue_prefix
        forall|d: DerivedNodeId| #[trigger] is_dep(dependencies@, d) ==> final(derived_node_id_queue)@.contains(d), //@O C03.O-1_every_derived_dependency_enqueued
        // nothing else is enqueued
        forall|i: int| old(derived_node_id_queue)@.len() <= i < final(derived_node_id_queue)@.len() ==> is_dep(dependencies@, #[trigger] final(derived_node_id_queue)@[i]), //@O C03.O-1_only_derived_dependencies_enqueued
//@loop 1
        invariant
            derived_node_id_queue@.len() >= old(derived_node_id_queue)@.len(),
            derived_node_id_queue@.subrange(0, old(derived_node_id_queue)@.len() as int) == old(derived_node_id_queue)@,
            itd.seq().len() == dependencies@.len(),
            forall|k: int| 0 <= k < itd.seq().len() ==> *(#[trigger] itd.seq()[k]) == dependencies@[k],
            forall|k: int| 0 <= k < itd.index@ ==> match (#[trigger] dependencies@[k]).node_to { NodeKind::Derived(d) => derived_node_id_queue@.contains(d), NodeKind::Source(_) => true },
            forall|i: int| old(derived_node_id_queue)@.len() <= i < derived_node_id_queue@.len() ==> is_dep(dependencies@, #[trigger] derived_node_id_queue@[i]),
//@before "derived_node_id_queue.push(dependency_id);"
                let ghost old_q = derived_node_id_queue@;
//@after "derived_node_id_queue.push(dependency_id);"
                proof {
                    let q = derived_node_id_queue@;
                    assert(q[q.len() - 1] == dependency_id);
                    assert forall|x: u64| old_q.contains(x) implies q.contains(x) by {
                        let j = choose|j: int| 0 <= j < old_q.len() && old_q[j] == x;
                        assert(q[j] == x);
                    }
                    assert(is_dep(dependencies@, dependency_id)) by { assert(dependencies@[itd.index@].node_to == NodeKind::Derived(dependency_id)); }
                }
//@end

pub open spec fn copied<Db: Database>(o: &InternalStorage<Db>, id: DerivedNodeId, nmap: Map<DerivedNodeId, DerivedNodeRevision>, nnodes: Seq<DerivedNode>, ndeps: Seq<Vec<Dependency>>) -> bool {
    &&& nmap.contains_key(id)
    &&& nmap[id].time_updated == o.rev(id).time_updated
    &&& nmap[id].time_verified == o.rev(id).time_verified
    &&& nmap[id].node_index.idx < nnodes.len()
    &&& nmap[id].dependency_index.idx < ndeps.len()
    &&& nnodes[nmap[id].node_index.idx as int].value.tok() == o.value_tok(id)
    &&& nnodes[nmap[id].node_index.idx as int].inner_fn == o.inner_fn(id)
    &&& ndeps[nmap[id].dependency_index.idx as int]@ == o.deps(id)
}
pub open spec fn param_copied<Db: Database>(o: &InternalStorage<Db>, q: ParamId, npmap: Map<ParamId, Index<ParamId>>, nparams: Seq<AnyBox>) -> bool {
    &&& npmap.contains_key(q)
    &&& npmap[q].idx < nparams.len()
    &&& nparams[npmap[q].idx as int].tok() == o.param_tok(q)
}
pub open spec fn all_params_in(id: DerivedNodeId, pp: Set<ParamId>) -> bool {
    forall|i: int| 0 <= i < params_spec(id).len() ==> pp.contains(#[trigger] params_spec(id)[i])
}
pub open spec fn in_queue_or_done(d: DerivedNodeId, processed: Set<DerivedNodeId>, queue: Seq<DerivedNodeId>) -> bool {
    processed.contains(d) || queue.contains(d)
}

impl<Db: Database> InternalStorage<Db> {
    /// what the collector leaves alone while it runs
    pub open spec fn same_maps(&self, o: &Self) -> bool {
        &&& self.derived_node_id_to_revision@ == o.derived_node_id_to_revision@
        &&& self.param_id_to_index@ == o.param_id_to_index@
        &&& self.source_node_key_to_index@ == o.source_node_key_to_index@
        &&& self.source_nodes@ == o.source_nodes@
        &&& self.current_epoch == o.current_epoch
        &&& self.derived_nodes@.len() == o.derived_nodes@.len()
        &&& self.derived_node_dependencies@.len() == o.derived_node_dependencies@.len()
        &&& self.params@.len() == o.params@.len()
    }
    pub open spec fn untouched_nodes(&self, o: &Self, processed: Set<DerivedNodeId>) -> bool {
        forall|id: DerivedNodeId| #[trigger] o.has(id) && !processed.contains(id) ==>
            self.derived_nodes@[o.rev(id).node_index.idx as int] == o.derived_nodes@[o.rev(id).node_index.idx as int]
            && self.derived_node_dependencies@[o.rev(id).dependency_index.idx as int] == o.derived_node_dependencies@[o.rev(id).dependency_index.idx as int]
    }
    pub open spec fn untouched_params(&self, o: &Self, pp: Set<ParamId>) -> bool {
        forall|q: ParamId| #[trigger] o.has_param(q) && !pp.contains(q) ==>
            self.params@[o.param_id_to_index@[q].idx as int] == o.params@[o.param_id_to_index@[q].idx as int]
    }
    /// the loop invariant of the worklist
    pub open spec fn gc_inv(&self, o: &Self, roots: Seq<DerivedNodeId>, queue: Seq<DerivedNodeId>,
        processed: Set<DerivedNodeId>, pp: Set<ParamId>,
        nmap: Map<DerivedNodeId, DerivedNodeRevision>, nnodes: Seq<DerivedNode>, ndeps: Seq<Vec<Dependency>>,
        npmap: Map<ParamId, Index<ParamId>>, nparams: Seq<AnyBox>) -> bool {
        &&& o.wf()
        &&& self.same_maps(o)
        &&& self.untouched_nodes(o, processed)
        &&& self.untouched_params(o, pp)
        &&& forall|id: DerivedNodeId| #[trigger] processed.contains(id) ==> o.has(id) && copied(o, id, nmap, nnodes, ndeps)
        &&& forall|id: DerivedNodeId| #[trigger] nmap.contains_key(id) ==> processed.contains(id)
        &&& forall|i: int| 0 <= i < queue.len() ==> o.has(#[trigger] queue[i])
        &&& forall|i: int| 0 <= i < roots.len() ==> in_queue_or_done(#[trigger] roots[i], processed, queue)
        &&& forall|q: ParamId| #[trigger] pp.contains(q) && o.has_param(q) ==> param_copied(o, q, npmap, nparams)
        &&& forall|q: ParamId| #[trigger] npmap.contains_key(q) ==> pp.contains(q) && o.has_param(q)
        // every copy got a slot of its own (fresh pushes): the new storage is well-formed again
        &&& forall|a: DerivedNodeId, b: DerivedNodeId| #[trigger] nmap.contains_key(a) && #[trigger] nmap.contains_key(b) && a != b ==>
                nmap[a].node_index.idx != nmap[b].node_index.idx && nmap[a].dependency_index.idx != nmap[b].dependency_index.idx
        &&& forall|p: ParamId, q: ParamId| #[trigger] npmap.contains_key(p) && #[trigger] npmap.contains_key(q) && p != q ==> npmap[p].idx != npmap[q].idx
    }
}

impl<Db: Database> InternalStorage<Db> {
//@fn rel=crates/pico/src/garbage_collection.rs name=run_garbage_collection within="impl<Db: Database> InternalStorage<Db>" vis=pub serves=C01,C03 prefix="#[verifier::exec_allows_no_decreases_clause]"
//@rw R1 R2 R10
//@hsub "retained_derived_node_ids: impl Iterator<Item = DerivedNodeId>," => "retained_derived_node_ids: Vec<DerivedNodeId>,"
//@sub "retained_derived_node_ids\.collect::<Vec<_>>\(\)" => "retained_derived_node_ids" n=1
//@sub "let mut processed_nodes = HashSet::new\(\);" => "let mut processed_nodes: HashSet<u64> = HashSet::new();" n=1
//@sub "let mut processed_params = HashSet::new\(\);" => "let mut processed_params: HashSet<u64> = HashSet::new();" n=1
//@sub "let new_params = BoxcarVec::new\(\);" => "let mut new_params: BoxcarVec<AnyBox> = BoxcarVec::new();" n=1
//@sub "let new_derived_nodes = BoxcarVec::new\(\);" => "let mut new_derived_nodes: BoxcarVec<DerivedNode> = BoxcarVec::new();" n=1
//@sub "let new_dependencies = BoxcarVec::new\(\);" => "let mut new_dependencies: BoxcarVec<Vec<Dependency>> = BoxcarVec::new();" n=1
//@sub "let new_param_id_to_index = DashMap::new\(\);" => "let mut new_param_id_to_index: DashMap<ParamId, Index<ParamId>> = DashMap::new();" n=1
//@sub "let new_derived_node_id_to_revision = DashMap::new\(\);" => "let mut new_derived_node_id_to_revision: DashMap<DerivedNodeId, DerivedNodeRevision> = DashMap::new();" n=1
//@sub "old_dependencies\.iter\(\)" => "&*old_dependencies" n=1
//@sub "std::mem::replace\(&mut old_derived_node\.value, Box::new\(\(\)\)\)" => "std::mem::replace(&mut old_derived_node.value, DynBox::unit())" n=1
//@sub "std::mem::replace\(old_param, Box::new\(\(\)\)\)" => "std::mem::replace(old_param, AnyBox::unit())" n=1
//@sub "std::mem::take\(old_dependencies\)" => "take_vec(old_dependencies)" n=1
//@sub "for param_id in derived_node_id\.params \{" => "for param_id in itp: params_of(derived_node_id) {" n=1
//@contract
        requires
            old(self).wf(),
            // the roots handed to the collector are live derived nodes (call-site precondition)
            forall|i: int| 0 <= i < retained_derived_node_ids@.len() ==> old(self).has(#[trigger] retained_derived_node_ids@[i]),
        ensures
            // every retained root survives
            forall|i: int| 0 <= i < retained_derived_node_ids@.len() ==> final(self).has(#[trigger] retained_derived_node_ids@[i]), //@O C03.O-1_retained_roots_survive
            // whatever survives was live before and is unchanged: stamps, value, function,
            // dependencies and parameters — it is served without re-execution
            forall|id: DerivedNodeId| #[trigger] final(self).has(id) ==> old(self).has(id) && final(self).kept(old(self), id), //@O C01+C02+C03.O-1_survivors_keep_stamps_value_dependencies_params
            // the survivors are closed under Derived dependencies: everything a retained
            // query depends on is retained too
            forall|id: DerivedNodeId, d: DerivedNodeId| final(self).has(id) && #[trigger] is_dep(old(self).deps(id), d) ==> final(self).has(d), //@O C03.O-1_survivors_closed_under_dependencies
            // sources and the clock are not touched
            final(self).source_node_key_to_index@ == old(self).source_node_key_to_index@
                && final(self).source_nodes@ == old(self).source_nodes@
                && final(self).current_epoch == old(self).current_epoch, //@O C03.O-2_collection_leaves_sources_and_clock_alone
            // the representation invariant holds again: the next collection (and every lookup
            // in between) finds a well-formed storage
            final(self).wf(), //@O C03.O-2_collection_re_establishes_the_representation_invariant
//@before "let mut derived_node_id_queue"
        let ghost roots = retained_derived_node_ids@;
//@before "'derived_node_id_queue: while"
        let ghost mut qhead = derived_node_id_queue@;
//@loop 1
            invariant
                qhead == derived_node_id_queue@,
                self.gc_inv(old(self), roots, derived_node_id_queue@, processed_nodes@, processed_params@,
                    new_derived_node_id_to_revision@, new_derived_nodes@, new_dependencies@, new_param_id_to_index@, new_params@),
                forall|p: DerivedNodeId, d: DerivedNodeId| processed_nodes@.contains(p) && #[trigger] is_dep(old(self).deps(p), d) ==>
                    in_queue_or_done(d, processed_nodes@, derived_node_id_queue@), //@O C03.O-1_worklist_every_dependency_of_a_copied_node_is_copied_or_queued
                forall|p: DerivedNodeId| #[trigger] processed_nodes@.contains(p) ==> all_params_in(p, processed_params@), //@O C01+C03.O-1_worklist_params_of_copied_nodes_are_visited
            ensures
                derived_node_id_queue@.len() == 0,
//@before "if processed_nodes.contains(&derived_node_id)"
            proof {
                assert(qhead =~= derived_node_id_queue@.push(derived_node_id));
                assert forall|d: DerivedNodeId| qhead.contains(d) implies derived_node_id_queue@.contains(d) || d == derived_node_id by {
                    let j = choose|j: int| 0 <= j < qhead.len() && qhead[j] == d;
                    if j < qhead.len() - 1 { assert(derived_node_id_queue@[j] == d); }
                }
                assert(old(self).has(derived_node_id)) by { assert(qhead[qhead.len() - 1] == derived_node_id); }
            }
            let ghost q1 = derived_node_id_queue@;
            let ghost processed0 = processed_nodes@;
//@after "if processed_nodes.contains(&derived_node_id)"
            proof { qhead = derived_node_id_queue@; }
//@after "add_dependencies_to_queue("
            proof {
                let q2 = derived_node_id_queue@;
                assert forall|d: DerivedNodeId| q1.contains(d) implies q2.contains(d) by {
                    let j = choose|j: int| 0 <= j < q1.len() && q1[j] == d;
                    assert(q2.subrange(0, q1.len() as int)[j] == d);
                    assert(q2[j] == d);
                }
                assert(old_dependencies@ == old(self).deps(derived_node_id));
                assert forall|i: int| 0 <= i < q2.len() implies old(self).has(#[trigger] q2[i]) by {
                    if i < q1.len() { assert(q2.subrange(0, q1.len() as int)[i] == q2[i]); assert(old(self).has(q1[i])); }
                    else { assert(is_dep(old(self).deps(derived_node_id), q2[i])); }
                }
            }
//@after "new_derived_node_id_to_revision.insert("
            proof {
                let o = old(self);
                let x = derived_node_id;
                let nmap = new_derived_node_id_to_revision@; let nnodes = new_derived_nodes@; let ndeps = new_dependencies@;
                assert(self.same_maps(o));
                assert(self.untouched_params(o, processed_params@));
                assert(copied(o, x, nmap, nnodes, ndeps));
                assert forall|id: DerivedNodeId| #[trigger] processed_nodes@.contains(id) implies o.has(id) && copied(o, id, nmap, nnodes, ndeps) by {
                    if id != x { assert(processed0.contains(id)); }
                }
                assert(self.untouched_nodes(o, processed_nodes@));
                assert forall|id: DerivedNodeId| #[trigger] nmap.contains_key(id) implies processed_nodes@.contains(id) by {}
                assert forall|i: int| 0 <= i < derived_node_id_queue@.len() implies o.has(#[trigger] derived_node_id_queue@[i]) by {}
                assert forall|i: int| 0 <= i < roots.len() implies in_queue_or_done(#[trigger] roots[i], processed_nodes@, derived_node_id_queue@) by {}
            }
//@loop 2
                invariant
                    itp.seq() == params_spec(derived_node_id),
                    processed_nodes@.contains(derived_node_id),
                    self.gc_inv(old(self), roots, derived_node_id_queue@, processed_nodes@, processed_params@,
                        new_derived_node_id_to_revision@, new_derived_nodes@, new_dependencies@, new_param_id_to_index@, new_params@),
                    forall|p: DerivedNodeId, d: DerivedNodeId| processed_nodes@.contains(p) && #[trigger] is_dep(old(self).deps(p), d) ==>
                        in_queue_or_done(d, processed_nodes@, derived_node_id_queue@),
                    forall|p: DerivedNodeId| #[trigger] processed_nodes@.contains(p) && p != derived_node_id ==> all_params_in(p, processed_params@),
                    forall|k: int| 0 <= k < itp.index@ ==> processed_params@.contains(#[trigger] params_spec(derived_node_id)[k]), //@O C01+C03.O-1_every_param_of_a_survivor_is_visited
//@bodystart 2
                let ghost pp0 = processed_params@;
                let ghost npmap0 = new_param_id_to_index@;
                let ghost nparams0 = new_params@;
//@before "let old_param = self.params.get_mut("
                    proof { assert(old(self).has_param(param_id)); }
//@after "new_param_id_to_index.insert(param_id, new_param_index);"
                    proof {
                        let o = old(self);
                        let npmap = new_param_id_to_index@; let nparams = new_params@;
                        assert(self.same_maps(o));
                        assert(param_copied(o, param_id, npmap, nparams));
                        assert forall|q: ParamId| #[trigger] processed_params@.contains(q) && o.has_param(q) implies param_copied(o, q, npmap, nparams) by {
                            if q != param_id { assert(pp0.contains(q)); assert(param_copied(o, q, npmap0, nparams0)); }
                        }
                        assert forall|q: ParamId| #[trigger] npmap.contains_key(q) implies processed_params@.contains(q) && o.has_param(q) by {
                            if q != param_id { assert(npmap0.contains_key(q)); }
                        }
                        assert(self.untouched_params(o, processed_params@));
                        assert(self.untouched_nodes(o, processed_nodes@));
                    }
//@before "self.params = new_params;"
        proof {
            assert(derived_node_id_queue@.len() == 0);
            assert forall|i: int| 0 <= i < roots.len() implies processed_nodes@.contains(#[trigger] roots[i]) by {
                assert(in_queue_or_done(roots[i], processed_nodes@, derived_node_id_queue@));
            }
            assert forall|p: DerivedNodeId, d: DerivedNodeId| processed_nodes@.contains(p) && #[trigger] is_dep(old(self).deps(p), d) implies processed_nodes@.contains(d) by {
                assert(in_queue_or_done(d, processed_nodes@, derived_node_id_queue@));
            }
        }
//@end
}

// =====================================================================================
// Storage::run_garbage_collection (database.rs): which roots the collector is given
// =====================================================================================
/// lru::LruCache (external crate) - assumed contract: `order` lists the keys from least to
/// most recently used; `put` makes the key the most recent one and evicts the least recent
/// when the capacity is exceeded; `contains` does not touch the order
#[verifier::external_body]
#[verifier::reject_recursive_types(K)]
#[verifier::reject_recursive_types(V)]
pub struct LruCache<K, V> { k: core::marker::PhantomData<(K, V)> }
impl<K, V> LruCache<K, V> {
    pub uninterp spec fn order(&self) -> Seq<K>;
    pub uninterp spec fn cap(&self) -> nat;
    pub open spec fn wf(&self) -> bool {
        self.order().no_duplicates() && self.order().len() <= self.cap() && self.cap() >= 1
    }
    #[verifier::external_body]
    pub fn put(&mut self, k: K, v: V) -> (r: Option<V>)
        requires old(self).wf(),
        ensures final(self).cap() == old(self).cap(), final(self).order() == lru_put(old(self).order(), k, old(self).cap()), final(self).wf(),
    { unimplemented!() }
    #[verifier::external_body]
    pub fn contains(&self, k: &K) -> (r: bool) ensures r == self.order().contains(*k) { unimplemented!() }
    #[verifier::external_body]
    pub fn len(&self) -> (r: usize) ensures r == self.order().len() { unimplemented!() }
}
/// s without k (s has no duplicates: at most one element goes)
pub open spec fn without<K>(s: Seq<K>, k: K) -> Seq<K>
    decreases s.len()
{
    if s.len() == 0 { s } else {
        let r = without(s.drop_last(), k);
        if s.last() == k { r } else { r.push(s.last()) }
    }
}
pub open spec fn lru_put<K>(s: Seq<K>, k: K, cap: nat) -> Seq<K> {
    let t = without(s, k).push(k);
    if t.len() > cap { t.subrange(t.len() - cap, t.len() as int) } else { t }
}
/// the first n calls recorded since the last collection, applied in order
pub open spec fn lru_puts<K>(s: Seq<K>, ks: Seq<K>, n: int, cap: nat) -> Seq<K>
    decreases n
{
    if n <= 0 { s } else { lru_put(lru_puts(s, ks, n - 1, cap), ks[n - 1], cap) }
}
pub proof fn lemma_without<K>(s: Seq<K>, k: K)
    ensures
        forall|x: K| #[trigger] without(s, k).contains(x) <==> (s.contains(x) && x != k),
        without(s, k).len() <= s.len(),
    decreases s.len()
{
    if s.len() > 0 {
        let s0 = s.drop_last();
        lemma_without(s0, k);
        let r = without(s0, k);
        assert forall|x: K| #[trigger] without(s, k).contains(x) <==> (s.contains(x) && x != k) by {
            if without(s, k).contains(x) {
                let j = choose|j: int| 0 <= j < without(s, k).len() && without(s, k)[j] == x;
                if s.last() != k && j == r.len() { assert(s[s.len() - 1] == x); }
                else { assert(r[j] == x); assert(r.contains(x)); let i = choose|i: int| 0 <= i < s0.len() && s0[i] == x; assert(s[i] == x); }
            }
            if s.contains(x) && x != k {
                let i = choose|i: int| 0 <= i < s.len() && s[i] == x;
                if i < s0.len() {
                    assert(s0[i] == x); assert(s0.contains(x)); assert(r.contains(x));
                    let j = choose|j: int| 0 <= j < r.len() && r[j] == x;
                    assert(without(s, k)[j] == x);
                } else {
                    assert(without(s, k)[r.len() as int] == x);
                }
            }
        }
    }
}
/// what `put` can and cannot do to the set of keys: the new key is in (as the most recent
/// one), and nothing appears that was not there
pub proof fn lemma_lru_put<K>(s: Seq<K>, k: K, cap: nat)
    requires cap >= 1
    ensures
        lru_put(s, k, cap).len() >= 1 && lru_put(s, k, cap).last() == k,
        forall|x: K| #[trigger] lru_put(s, k, cap).contains(x) ==> s.contains(x) || x == k,
{
    lemma_without(s, k);
    let t = without(s, k).push(k);
    let r = lru_put(s, k, cap);
    assert forall|x: K| #[trigger] r.contains(x) implies s.contains(x) || x == k by {
        let j = choose|j: int| 0 <= j < r.len() && r[j] == x;
        let jt = if t.len() > cap { j + t.len() - cap } else { j };
        assert(t[jt] == x);
        if jt < t.len() - 1 { assert(without(s, k)[jt] == x); assert(without(s, k).contains(x)); }
    }
}
pub proof fn lemma_lru_puts<K>(s: Seq<K>, ks: Seq<K>, n: int, cap: nat)
    requires cap >= 1, 0 <= n <= ks.len()
    ensures
        forall|x: K| #[trigger] lru_puts(s, ks, n, cap).contains(x) ==> s.contains(x) || ks.contains(x),
        n >= 1 ==> lru_puts(s, ks, n, cap).len() >= 1 && lru_puts(s, ks, n, cap).last() == ks[n - 1],
    decreases n
{
    if n > 0 {
        lemma_lru_puts(s, ks, n - 1, cap);
        lemma_lru_put(lru_puts(s, ks, n - 1, cap), ks[n - 1], cap);
        assert(ks.contains(ks[n - 1]));
    }
}
/// `self.top_level_call_lru_cache.iter().map(|(k, _v)| *k).chain(self.retained_calls.iter()
/// .map(|ref_multi| *ref_multi.key()))` collected: exactly the keys of both (assumed: the
/// iterator adapters are outside the verifier)
#[verifier::external_body]
pub fn chain_keys(lru: &LruCache<DerivedNodeId, ()>, retained: &DashMap<DerivedNodeId, usize>) -> (r: Vec<DerivedNodeId>)
    ensures forall|x: DerivedNodeId| #[trigger] r@.contains(x) <==> (lru.order().contains(x) || retained@.contains_key(x))
{ unimplemented!() }
#[verifier::external_body]
pub struct DependencyStack { p: core::marker::PhantomData<u8> }
/// std::mem::take on the boxcar vector of recorded calls, and its by-value iteration
#[verifier::external_body]
pub fn take_boxcar<T>(v: &mut BoxcarVec<T>) -> (r: BoxcarVec<T>) ensures r@ == old(v)@, final(v)@.len() == 0 { unimplemented!() }
impl<T> BoxcarVec<T> {
    #[verifier::external_body]
    pub fn into_vec(self) -> (r: Vec<T>) ensures r@ == self@ { unimplemented!() }
}
//@item rel=crates/pico/src/database.rs kind=struct name=Storage prefix="#[verifier::reject_recursive_types(Db)] pub" sub="<Db: Database>=><Db>"

impl<Db: Database> Storage<Db> {
    /// `assert!(self.dependency_stack.is_empty(), ..)`: collections are not run from inside
    /// a memoized function (API misuse panics by design; not part of C03)
    #[verifier::external_body]
    pub fn assert_empty_dependency_stack(&self) { unimplemented!() }

    /// every id the storage remembers as a root is a live derived node
    pub open spec fn roots_live(&self) -> bool {
        &&& forall|i: int| 0 <= i < self.top_level_call_lru_cache.order().len() ==> self.internal.has(#[trigger] self.top_level_call_lru_cache.order()[i])
        &&& forall|i: int| 0 <= i < self.top_level_calls@.len() ==> self.internal.has(#[trigger] self.top_level_calls@[i])
        &&& forall|id: DerivedNodeId| #[trigger] self.retained_calls@.contains_key(id) ==> self.internal.has(id)
    }

//@fn rel=crates/pico/src/database.rs name=run_garbage_collection within="impl<Db: Database> Storage<Db>" vis=pub serves=C03 rename=storage_run_garbage_collection
//@sub "std::mem::take\(&mut self\.top_level_calls\)" => "take_boxcar(&mut self.top_level_calls)" n=1
//@sub "for derived_node_id in top_level_function_calls \{" => "for derived_node_id in itc: top_level_function_calls.into_vec() {" n=1
//@sub "self\s*\.top_level_call_lru_cache\s*\.iter\(\)\s*\.map\(\|\(k, _v\)\| \*k\)\s*\.chain\(self\.retained_calls\.iter\(\)\.map\(\|ref_multi\| \*ref_multi\.key\(\)\)\)" => "chain_keys(&self.top_level_call_lru_cache, &self.retained_calls)" n=1
//@sub "self\.internal\s*\.run_garbage_collection\(retained_derived_node_ids\)" => "self.internal.run_garbage_collection(retained_derived_node_ids)" n=1
//@contract
        requires
            old(self).internal.wf(), old(self).top_level_call_lru_cache.wf(), old(self).roots_live(),
        ensures
            // the cache of recent top-level queries is brought up to date with EVERY call
            // recorded since the last collection, in call order (a re-called query becomes
            // the most recent one again), and the record is cleared
            final(self).top_level_call_lru_cache.order() == lru_puts(old(self).top_level_call_lru_cache.order(), old(self).top_level_calls@,
                old(self).top_level_calls@.len() as int, old(self).top_level_call_lru_cache.cap()), //@O C03.O-3_recent_top_level_queries_updated_in_call_order
            final(self).top_level_calls@.len() == 0 && final(self).top_level_call_lru_cache.cap() == old(self).top_level_call_lru_cache.cap()
                && final(self).top_level_call_lru_cache.wf(),
            final(self).retained_calls@ == old(self).retained_calls@,
            // every query in that cache and every retained query survives the collection ...
            forall|i: int| 0 <= i < final(self).top_level_call_lru_cache.order().len() ==>
                final(self).internal.has(#[trigger] final(self).top_level_call_lru_cache.order()[i]), //@O C03.O-3_recent_top_level_queries_survive
            forall|id: DerivedNodeId| #[trigger] final(self).retained_calls@.contains_key(id) ==> final(self).internal.has(id), //@O C03.O-3_retained_queries_survive
            // ... unchanged, together with everything it depends on (contract of the collector)
            forall|id: DerivedNodeId| #[trigger] final(self).internal.has(id) ==> old(self).internal.has(id) && final(self).internal.kept(&old(self).internal, id), //@O C03.O-3_survivors_unchanged
            forall|id: DerivedNodeId, d: DerivedNodeId| final(self).internal.has(id) && #[trigger] is_dep(old(self).internal.deps(id), d) ==> final(self).internal.has(d), //@O C03.O-3_survivors_closed_under_dependencies
            // the state stays usable for the next collection
            final(self).roots_live() && final(self).internal.wf(), //@O C03.O-3_storage_invariants_hold_for_the_next_collection
//@before "for derived_node_id in"
        let ghost calls = top_level_function_calls@;
        let ghost lru0 = self.top_level_call_lru_cache.order();
        let ghost cap = self.top_level_call_lru_cache.cap();
//@loop 1
            invariant
                itc.seq() == calls,
                self.top_level_call_lru_cache.wf(), self.top_level_call_lru_cache.cap() == cap,
                self.top_level_call_lru_cache.order() == lru_puts(lru0, calls, itc.index@ as int, cap),
                self.internal == old(self).internal, self.retained_calls == old(self).retained_calls,
                self.top_level_calls@.len() == 0,
//@after "for derived_node_id in"
        proof {
            lemma_lru_puts(lru0, calls, calls.len() as int, cap);
            let ord = self.top_level_call_lru_cache.order();
            assert forall|i: int| 0 <= i < ord.len() implies old(self).internal.has(#[trigger] ord[i]) by {
                assert(ord.contains(ord[i]));
                if lru0.contains(ord[i]) { let j = choose|j: int| 0 <= j < lru0.len() && lru0[j] == ord[i]; assert(old(self).internal.has(lru0[j])); }
                else { let j = choose|j: int| 0 <= j < calls.len() && calls[j] == ord[i]; assert(old(self).internal.has(calls[j])); }
            }
        }
//@after "let retained_derived_node_ids ="
        proof {
            let ord = self.top_level_call_lru_cache.order();
            assert forall|i: int| 0 <= i < retained_derived_node_ids@.len() implies old(self).internal.has(#[trigger] retained_derived_node_ids@[i]) by {
                let x = retained_derived_node_ids@[i];
                assert(retained_derived_node_ids@.contains(x));
                if ord.contains(x) { let j = choose|j: int| 0 <= j < ord.len() && ord[j] == x; assert(old(self).internal.has(ord[j])); }
            }
        }
        let ghost roots = retained_derived_node_ids@;
//@atend
        proof {
            let ord = self.top_level_call_lru_cache.order();
            assert forall|i: int| 0 <= i < ord.len() implies self.internal.has(#[trigger] ord[i]) by {
                assert(ord.contains(ord[i])); assert(roots.contains(ord[i]));
                let j = choose|j: int| 0 <= j < roots.len() && roots[j] == ord[i];
                assert(self.internal.has(roots[j]));
            }
            assert forall|id: DerivedNodeId| #[trigger] self.retained_calls@.contains_key(id) implies self.internal.has(id) by {
                assert(roots.contains(id));
                let j = choose|j: int| 0 <= j < roots.len() && roots[j] == id;
                assert(self.internal.has(roots[j]));
            }
        }
//@end
}

// =====================================================================================
// retain / clear_retain (retained_query.rs): who is a root for the collector
// =====================================================================================
// `db: &Db` is represented by unique access to its Storage (`db.get_storage()` is the identity),
// as in unit pico_source. dashmap's entry API with prophecy-style stand-ins.
#[verifier::reject_recursive_types(K)]
#[verifier::reject_recursive_types(V)]
pub struct OccupiedEntry<'a, K, V> { pub map: &'a mut DashMap<K, V>, pub key: K }
#[verifier::reject_recursive_types(K)]
#[verifier::reject_recursive_types(V)]
pub struct VacantEntry<'a, K, V> { pub map: &'a mut DashMap<K, V>, pub key: K }
#[verifier::reject_recursive_types(K)]
#[verifier::reject_recursive_types(V)]
pub enum Entry<'a, K, V> { Occupied(OccupiedEntry<'a, K, V>), Vacant(VacantEntry<'a, K, V>) }
impl<'a, K, V> Entry<'a, K, V> {
    pub open spec fn key(&self) -> K { match self { Entry::Occupied(o) => o.key, Entry::Vacant(v) => v.key } }
    pub open spec fn map_cur(&self) -> Map<K, V> { match self { Entry::Occupied(o) => o.map@, Entry::Vacant(v) => v.map@ } }
    #[verifier::prophetic]
    pub open spec fn map_fin(&self) -> Map<K, V> { match self { Entry::Occupied(o) => final(o.map)@, Entry::Vacant(v) => final(v.map)@ } }
}
impl<K, V> DashMap<K, V> {
    #[verifier::external_body]
    pub fn entry<'a>(&'a mut self, key: K) -> (e: Entry<'a, K, V>)
        ensures e.key() == key, e.map_cur() == old(self)@, e.map_fin() == final(self)@,
            (e is Occupied) == old(self)@.contains_key(key),
    { unimplemented!() }
}
impl<'a, K, V> VacantEntry<'a, K, V> {
    #[verifier::external_body]
    pub fn insert(self, value: V) ensures final(self.map)@ == old(self.map)@.insert(self.key, value)
    { unimplemented!() }
}
impl<'a, K, V> OccupiedEntry<'a, K, V> {
    pub open spec fn m(&self) -> Map<K, V> { self.map@ }
    #[verifier::prophetic]
    pub open spec fn fin(&self) -> Map<K, V> { final(self.map)@ }
    #[verifier::external_body]
    pub fn get(&self) -> (r: &V) requires self.m().contains_key(self.key) ensures *r == self.m()[self.key]
    { unimplemented!() }
    #[verifier::external_body]
    pub fn get_mut(&mut self) -> (r: &mut V)
        requires old(self).m().contains_key(old(self).key)
        ensures *r == old(self).m()[old(self).key], final(self).key == old(self).key,
            final(self).m() == old(self).m().insert(old(self).key, *final(r)),
            final(self).fin() == old(self).fin(),
    { unimplemented!() }
    #[verifier::external_body]
    pub fn remove(self) -> (r: V)
        requires self.m().contains_key(self.key)
        ensures final(self.map)@ == old(self.map)@.remove(self.key), r == old(self.map)@[self.key]
    { unimplemented!() }
}
//@item rel=crates/pico/src/memo_ref.rs kind=enum name=MemoRefKind prefix="#[derive(Clone, Copy, PartialEq, Eq, Structural)] pub"
//@item rel=crates/pico/src/memo_ref.rs kind=struct name=MemoRef prefix="#[verifier::reject_recursive_types(T)] pub" sub="PhantomData<T>=>core::marker::PhantomData<T>"
//@item rel=crates/pico/src/retained_query.rs kind=struct name=RetainedQuery prefix="pub"
impl<Db: Database> Storage<Db> {
    /// every entry of retained_calls counts at least one holder (entries are removed at zero)
    pub open spec fn retained_pos(&self) -> bool {
        forall|id: DerivedNodeId| #[trigger] self.retained_calls@.contains_key(id) ==> self.retained_calls@[id] >= 1
    }
    /// number of RetainedQuery guards outstanding for a query
    pub open spec fn holders(&self, id: DerivedNodeId) -> nat {
        if self.retained_calls@.contains_key(id) { self.retained_calls@[id] as nat } else { 0 }
    }
}

//@fn rel=crates/pico/src/retained_query.rs name=retain vis=pub ret=r serves=C03
//@hsub "db: &Db," => "db: &mut Storage<Db>,"
//@sub "db\s*\.get_storage\(\)" => "db" n=*
//@contract
    requires
        old(db).roots_live(), old(db).retained_pos(),
        // only results that exist are retained (a MemoRef is obtained by calling the function)
        old(db).internal.has(memo_ref.derived_node_id),
        old(db).holders(memo_ref.derived_node_id) < usize::MAX,
    ensures
        r.derived_node_id == memo_ref.derived_node_id && !r.cleared,
        // one more holder for this query, nobody else's count changes: the query is a root of
        // every collection until all its holders have been cleared
        final(db).holders(memo_ref.derived_node_id) == old(db).holders(memo_ref.derived_node_id) + 1
            && final(db).retained_calls@.contains_key(memo_ref.derived_node_id)
            && (forall|id: DerivedNodeId| id != memo_ref.derived_node_id ==> #[trigger] final(db).holders(id) == old(db).holders(id)), //@O C03.O-7_retain_adds_exactly_one_holder_and_makes_the_query_a_root
        final(db).internal == old(db).internal, final(db).top_level_calls == old(db).top_level_calls,
        final(db).top_level_call_lru_cache == old(db).top_level_call_lru_cache,
        final(db).roots_live() && final(db).retained_pos(), //@O C03.O-7_retain_keeps_the_root_invariants
//@end

//@fn rel=crates/pico/src/retained_query.rs name=clear_retain vis=pub serves=C03
//@rw R2
//@hsub "db: &Db," => "db: &mut Storage<Db>,"
//@sub "db\s*\.get_storage\(\)" => "db" n=*
//@contract
    requires
        old(db).roots_live(), old(db).retained_pos(),
        // the guard was handed out by retain and not cleared yet
        old(db).holders(retained_query.derived_node_id) >= 1,
    ensures
        // exactly one holder less; the query stops being a root only when the LAST holder goes
        final(db).holders(retained_query.derived_node_id) == old(db).holders(retained_query.derived_node_id) - 1
            && (final(db).retained_calls@.contains_key(retained_query.derived_node_id) <==> old(db).holders(retained_query.derived_node_id) >= 2)
            && (forall|id: DerivedNodeId| id != retained_query.derived_node_id ==> #[trigger] final(db).holders(id) == old(db).holders(id)), //@O C03.O-7_clear_retain_releases_exactly_one_holder
        final(db).internal == old(db).internal, final(db).top_level_calls == old(db).top_level_calls,
        final(db).top_level_call_lru_cache == old(db).top_level_call_lru_cache,
        final(db).roots_live() && final(db).retained_pos(), //@O C03.O-7_clear_retain_keeps_the_root_invariants
//@end

} // verus!
fn main() {}
