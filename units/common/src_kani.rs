//! Value source abstraction: the same harness body runs under Kani (symbolic values) and
//! natively in /verif/replay (concrete values from Kani's counterexample).
pub trait Src {
    fn u8(&mut self) -> u8;
    fn u16(&mut self) -> u16;
    fn u32(&mut self) -> u32;
    fn u64(&mut self) -> u64;
    fn i64(&mut self) -> i64;
    fn usize(&mut self) -> usize;
    fn bool(&mut self) -> bool;
    fn char(&mut self) -> char;
    /// precondition of the contract under check
    fn assume(&mut self, c: bool);
    /// reachability witness for a precondition (vacuity guard)
    fn cover(&mut self, c: bool);
}

#[cfg(kani)]
pub struct KaniSrc;
#[cfg(kani)]
impl Src for KaniSrc {
    fn u8(&mut self) -> u8 { kani::any() }
    fn u16(&mut self) -> u16 { kani::any() }
    fn u32(&mut self) -> u32 { kani::any() }
    fn u64(&mut self) -> u64 { kani::any() }
    fn i64(&mut self) -> i64 { kani::any() }
    fn usize(&mut self) -> usize { kani::any() }
    fn bool(&mut self) -> bool { kani::any() }
    fn char(&mut self) -> char { kani::any() }
    fn assume(&mut self, c: bool) { kani::assume(c) }
    fn cover(&mut self, c: bool) { kani::cover!(c) }
}
