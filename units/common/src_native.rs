//! Native value source: decodes Kani's concrete_vals (one little-endian byte vector per
//! `kani::any()` call, in call order).
pub use crate::src_trait::Src;
pub struct VecSrc { pub vals: Vec<Vec<u8>>, pub pos: usize }
pub struct AssumptionNotMet;
impl VecSrc {
    fn next(&mut self, n: usize) -> u64 {
        let v = self.vals.get(self.pos).cloned().unwrap_or_default();
        self.pos += 1;
        let mut x: u64 = 0;
        for (i, b) in v.iter().take(n.min(8)).enumerate() { x |= (*b as u64) << (8 * i); }
        x
    }
}
impl Src for VecSrc {
    fn u8(&mut self) -> u8 { self.next(1) as u8 }
    fn u16(&mut self) -> u16 { self.next(2) as u16 }
    fn u32(&mut self) -> u32 { self.next(4) as u32 }
    fn u64(&mut self) -> u64 { self.next(8) }
    fn i64(&mut self) -> i64 { self.next(8) as i64 }
    fn usize(&mut self) -> usize { self.next(8) as usize }
    fn bool(&mut self) -> bool { self.next(1) & 1 == 1 }
    fn char(&mut self) -> char { char::from_u32(self.next(4) as u32).unwrap_or('\u{fffd}') }
    fn assume(&mut self, c: bool) { if !c { std::panic::panic_any(AssumptionNotMet) } }
    fn cover(&mut self, _c: bool) {}
}
