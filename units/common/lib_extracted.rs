//! Generated crate root for an extracted Kani unit: `target.rs` is real function text pulled
//! from /repo on this run (see vx/template.py); `harness.rs` holds the contracts.
#![allow(unused, dead_code, clippy::all)]
pub mod src_kani;
pub mod target;
pub mod harness;
