//! Contracts on the real `intern::atomic_arena` (in place; hooks give visibility only).
//! `--cfg memory_consistency_assertions` turns the authors' own consistency asserts inside
//! `index`, `slice_for_slot_slow`, `get` and `drop` into checked obligations (R7).
use super::src_kani::Src;
#[cfg(kani)]
use super::src_kani::KaniSrc;
use super::target::arena::{bucket_capacity, index, MAX_INDEX, MIN_SIZE, NUM_SIZES};
use super::target::{AtomicArena, Ref};

/// C06.index_contract - full domain of biased indices, loop-free: complete.
/// Postcondition of `index` taken from the property ("each slot handed out once"):
/// (a, b) is in range and determines i, hence `index` is injective.
pub fn index_contract<S: Src>(s: &mut S) {
    let i = s.u32();
    s.assume(i >= MIN_SIZE);
    let (a, b) = index(i);
    assert!(a < NUM_SIZES);
    assert!(b < bucket_capacity(a));
    assert!(i as u64 == bucket_capacity(a) as u64 + b as u64);
    // bucket a holds exactly the indices with `a` leading zeros
    assert!(bucket_capacity(a) as u64 <= i as u64 && (i as u64) < 2 * bucket_capacity(a) as u64);
}

/// C06.index_injective - two distinct biased indices never share a slot.
pub fn index_injective<S: Src>(s: &mut S) {
    let i = s.u32();
    let j = s.u32();
    s.assume(i >= MIN_SIZE && j >= MIN_SIZE && i != j);
    assert!(index(i) != index(j));
}

/// C06.bucket_capacity_contract - all 25 buckets: capacity is 2^(31-a) >= MIN_SIZE and the
/// last bucket holds exactly MIN_SIZE slots.
pub fn bucket_capacity_contract<S: Src>(s: &mut S) {
    let a = s.usize();
    s.assume(a < NUM_SIZES);
    let c = bucket_capacity(a);
    assert!(c == 1usize << (31 - a));
    assert!(c >= MIN_SIZE as usize);
    assert!(bucket_capacity(NUM_SIZES - 1) == MIN_SIZE as usize);
}

/// C06.ref_index_roundtrip - `Ref::from_index(r.index()) == r`; `index()` is 0-based.
pub fn ref_index_roundtrip<S: Src>(s: &mut S) {
    let k = s.u32();
    s.assume(k <= MAX_INDEX);
    let r: Ref<'static, u8> = unsafe { Ref::from_index(k) };
    assert!(r.index() == k);
    let r2: Ref<'static, u8> = unsafe { Ref::from_index(r.index()) };
    assert!(r2 == r);
}

/// C06.seq_add_get - the real unsafe code under CBMC's memory model, one thread,
/// bounded: 2 adds (never crosses a bucket boundary).
pub fn seq_add_get<S: Src>(s: &mut S) {
    let arena: AtomicArena<'_, u8> = AtomicArena::new();
    assert!(arena.len() == 0);
    let x = s.u8();
    let y = s.u8();
    let rx = arena.add(x);
    assert!(arena.len() == 1);
    let ry = arena.add(y);
    assert!(rx != ry);
    assert!(rx.index() == 0 && ry.index() == 1);
    assert!(*arena.get(rx) == x);
    assert!(*arena.get(ry) == y);
    assert!(arena.len() == 2);
    drop(arena);
}

/// C06.seq_add_get_box - same with a heap-owning element: `drop` must free each element
/// exactly once (CBMC reports double free / leak of the Box).
pub fn seq_add_get_box<S: Src>(s: &mut S) {
    let arena: AtomicArena<'_, Box<u8>> = AtomicArena::new();
    let x = s.u8();
    let y = s.u8();
    let z = s.u8();
    let rx = arena.add(Box::new(x));
    let ry = arena.add(Box::new(y));
    let rz = arena.add(Box::new(z));
    assert!(**arena.get(rx) == x && **arena.get(ry) == y && **arena.get(rz) == z);
    assert!(arena.len() == 3);
    drop(arena);
}

/// C06.seq_cross_bucket - one thread fills the first bucket (128 slots) and crosses into the
/// second one: the refs on both sides of the boundary read back what was added, len() counts
/// every add, and drop frees both buckets (CBMC memory model on the real unsafe code).
pub fn seq_cross_bucket<S: Src>(s: &mut S) {
    let arena: AtomicArena<'_, u8> = AtomicArena::new();
    let x = s.u8();
    let y = s.u8();
    let mut i: u32 = 0;
    let mut r_last_of_first = None;
    let mut r_first_of_second = None;
    while i < 130 {
        let v = if i == 127 { x } else if i == 128 { y } else { i as u8 };
        let r = arena.add(v);
        assert!(r.index() == i);
        if i == 127 { r_last_of_first = Some(r); }
        if i == 128 { r_first_of_second = Some(r); }
        i += 1;
    }
    assert!(arena.len() == 130);
    assert!(*arena.get(r_last_of_first.unwrap()) == x);
    assert!(*arena.get(r_first_of_second.unwrap()) == y);
    drop(arena);
}

/// C06.seq_drop_counts - "dropping the arena drops every added element exactly once", the real
/// Drop impl (unsafe Vec::from_raw_parts over the buckets) under CBMC's memory model, one
/// thread, for every element count around the first bucket boundary (126..=130: last bucket
/// partly filled, exactly full, second bucket just started). Bounded.
pub static DROPS: core::sync::atomic::AtomicUsize = core::sync::atomic::AtomicUsize::new(0);
pub struct Counted(pub u8);
impl Drop for Counted {
    fn drop(&mut self) { DROPS.fetch_add(1, core::sync::atomic::Ordering::SeqCst); }
}
pub fn seq_drop_counts<S: Src>(s: &mut S) {
    let n = s.u8();
    s.assume(n >= 126 && n <= 130);
    DROPS.store(0, core::sync::atomic::Ordering::SeqCst);
    let arena: AtomicArena<'_, Counted> = AtomicArena::new();
    let mut i: u8 = 0;
    while i < n {
        arena.add(Counted(i));
        i += 1;
    }
    assert!(arena.len() == n as usize);
    assert!(DROPS.load(core::sync::atomic::Ordering::SeqCst) == 0);
    drop(arena);
    assert!(DROPS.load(core::sync::atomic::Ordering::SeqCst) == n as usize);
}

/// Vacuity canaries: must FAIL.
pub fn canary_index<S: Src>(s: &mut S) {
    let i = s.u32();
    s.assume(i >= MIN_SIZE);
    let (_a, b) = index(i);
    assert!(b == 0);
}
pub fn canary_seq<S: Src>(s: &mut S) {
    let arena: AtomicArena<'_, u8> = AtomicArena::new();
    let x = s.u8();
    let rx = arena.add(x);
    assert!(*arena.get(rx) != x);
}

pub fn dispatch<S: Src>(name: &str, s: &mut S) -> bool {
    match name {
        "index_contract" => index_contract(s),
        "index_injective" => index_injective(s),
        "bucket_capacity_contract" => bucket_capacity_contract(s),
        "ref_index_roundtrip" => ref_index_roundtrip(s),
        "seq_add_get" => seq_add_get(s),
        "seq_add_get_box" => seq_add_get_box(s),
        "seq_cross_bucket" => seq_cross_bucket(s),
        "seq_drop_counts" => seq_drop_counts(s),
        _ => return false,
    }
    true
}

#[cfg(kani)]
mod proofs {
    use super::*;
    fn noop_lock(_m: &parking_lot::RawMutex) {}
    unsafe fn noop_unlock(_m: &parking_lot::RawMutex) {}

    #[kani::proof]
    fn index_contract() { super::index_contract(&mut KaniSrc) }
    #[kani::proof]
    fn index_injective() { super::index_injective(&mut KaniSrc) }
    #[kani::proof]
    fn bucket_capacity_contract() { super::bucket_capacity_contract(&mut KaniSrc) }
    #[kani::proof]
    fn ref_index_roundtrip() { super::ref_index_roundtrip(&mut KaniSrc) }
    #[kani::proof]
    #[kani::stub(<parking_lot::RawMutex as lock_api::RawMutex>::lock, noop_lock)]
    #[kani::stub(<parking_lot::RawMutex as lock_api::RawMutex>::unlock, noop_unlock)]
    #[kani::unwind(4)]
    fn seq_add_get() { super::seq_add_get(&mut KaniSrc) }
    #[kani::proof]
    #[kani::stub(<parking_lot::RawMutex as lock_api::RawMutex>::lock, noop_lock)]
    #[kani::stub(<parking_lot::RawMutex as lock_api::RawMutex>::unlock, noop_unlock)]
    #[kani::unwind(5)]
    fn seq_add_get_box() { super::seq_add_get_box(&mut KaniSrc) }
    #[kani::proof]
    #[kani::stub(<parking_lot::RawMutex as lock_api::RawMutex>::lock, noop_lock)]
    #[kani::stub(<parking_lot::RawMutex as lock_api::RawMutex>::unlock, noop_unlock)]
    #[kani::unwind(132)]
    fn seq_cross_bucket() { super::seq_cross_bucket(&mut KaniSrc) }
    #[kani::proof]
    #[kani::stub(<parking_lot::RawMutex as lock_api::RawMutex>::lock, noop_lock)]
    #[kani::stub(<parking_lot::RawMutex as lock_api::RawMutex>::unlock, noop_unlock)]
    #[kani::unwind(133)]
    fn seq_drop_counts() { super::seq_drop_counts(&mut KaniSrc) }
    #[kani::proof]
    fn canary_index() { super::canary_index(&mut KaniSrc) }
    #[kani::proof]
    #[kani::stub(<parking_lot::RawMutex as lock_api::RawMutex>::lock, noop_lock)]
    #[kani::stub(<parking_lot::RawMutex as lock_api::RawMutex>::unlock, noop_unlock)]
    #[kani::unwind(4)]
    fn canary_seq() { super::canary_seq(&mut KaniSrc) }
}
