//! In-place Kani unit for the real intern crate (path dependency on /repo; hooks give
//! visibility only). Contracts live in ../../harness.rs.
#![allow(unused)]
#[path = "../../../common/src_kani.rs"]
pub mod src_kani;
pub mod target {
    pub use intern::verif_hooks::*;
}
#[path = "../../harness.rs"]
pub mod harness;
