//! Contracts for the overload ordering function (C24). The statement: "the first overload
//! whose literal pattern matches is the one for the same declaration" needs (O-2) a name that
//! has another name as a proper prefix to sort FIRST, and (O-1) a consistent strict order on
//! distinct names so that sort_by neither panics nor misplaces such a pair.
use super::src_kani::Src;
#[cfg(kani)]
use super::src_kani::KaniSrc;
use super::target::api_sort_field_name;
use std::cmp::Ordering;

#[cfg(verif_deep)]
pub const N: usize = 4;
#[cfg(not(verif_deep))]
pub const N: usize = 3;

/// symbolic name: 0..=N bytes over {a, b, A, _} (prefix structure and letter case are what matter)
fn sym_name<'a, S: Src>(s: &mut S, buf: &'a mut [u8; N]) -> &'a str {
    let len = s.usize();
    s.assume(len <= N);
    let mut i = 0;
    while i < N {
        let c = s.u8();
        // two letters, an upper-case variant of one of them, and '_' (which sorts below letters)
        s.assume(c == b'a' || c == b'b' || c == b'A' || c == b'_');
        buf[i] = c;
        i += 1;
    }
    match core::str::from_utf8(&buf[..len]) {
        Ok(t) => t,
        Err(_) => { s.assume(false); "" }
    }
}

/// C24.O-1a antisymmetry on distinct names
pub fn order_antisymmetric<S: Src>(s: &mut S) {
    let (mut b1, mut b2) = ([0u8; N], [0u8; N]);
    let a = sym_name(s, &mut b1);
    let b = sym_name(s, &mut b2);
    s.assume(a != b);
    let ab = api_sort_field_name(a, b);
    let ba = api_sort_field_name(b, a);
    assert!(ab != Ordering::Equal);
    assert!(ab == ba.reverse());
}

/// C24.O-2 the stated mechanism: if b is a proper prefix of a, a sorts before b
pub fn longer_name_first<S: Src>(s: &mut S) {
    let (mut b1, mut b2) = ([0u8; N], [0u8; N]);
    let a = sym_name(s, &mut b1);
    let b = sym_name(s, &mut b2);
    s.assume(a != b && a.starts_with(b));
    s.cover(a.len() == N);
    assert!(api_sort_field_name(a, b) == Ordering::Less);
    assert!(api_sort_field_name(b, a) == Ordering::Greater);
}

/// C24.O-1b transitivity on three distinct names
pub fn order_transitive<S: Src>(s: &mut S) {
    let (mut b1, mut b2, mut b3) = ([0u8; N], [0u8; N], [0u8; N]);
    let a = sym_name(s, &mut b1);
    let b = sym_name(s, &mut b2);
    let c = sym_name(s, &mut b3);
    s.assume(a != b && b != c && a != c);
    if api_sort_field_name(a, b) == Ordering::Less && api_sort_field_name(b, c) == Ordering::Less {
        assert!(api_sort_field_name(a, c) == Ordering::Less);
    }
}

pub fn canary_order<S: Src>(s: &mut S) {
    let (mut b1, mut b2) = ([0u8; N], [0u8; N]);
    let a = sym_name(s, &mut b1);
    let b = sym_name(s, &mut b2);
    assert!(api_sort_field_name(a, b) == Ordering::Less);
}

pub fn dispatch<S: Src>(name: &str, s: &mut S) -> bool {
    match name {
        "order_antisymmetric" => order_antisymmetric(s),
        "longer_name_first" => longer_name_first(s),
        "order_transitive" => order_transitive(s),
        _ => return false,
    }
    true
}

#[cfg(kani)]
mod proofs {
    use super::*;
    #[kani::proof]
    #[kani::unwind(7)]
    fn order_antisymmetric() { super::order_antisymmetric(&mut KaniSrc) }
    #[kani::proof]
    #[kani::unwind(7)]
    fn longer_name_first() { super::longer_name_first(&mut KaniSrc) }
    #[kani::proof]
    #[kani::unwind(7)]
    fn order_transitive() { super::order_transitive(&mut KaniSrc) }
    #[kani::proof]
    #[kani::unwind(7)]
    fn canary_order() { super::canary_order(&mut KaniSrc) }
}
