// unit overload_order — extracted Kani crate. Real text of artifact_content::sort_field_name.
// R8 stand-in: an interned SelectableName is represented directly by its text (lookup() is
// the identity), which assumes the interning bijection (C05).
use std::cmp::Ordering;
#[derive(Clone, Copy)]
pub struct SelectableName<'a>(pub &'a str);
impl<'a> SelectableName<'a> { pub fn lookup(self) -> &'a str { self.0 } }

//@fn rel=crates/artifact_content/src/iso_overload_file.rs name=sort_field_name vis=pub serves=C24
//@end

pub fn api_sort_field_name(field_1: &str, field_2: &str) -> Ordering {
    sort_field_name(SelectableName(field_1), SelectableName(field_2))
}
