//! Contracts for the type-annotation kernels (C09, C16).
//!  C09.O-1  printing a declared variable type back as GraphQL denotes the declared type:
//!           graphql_type_annotation_from_type_annotation(from_graphql_type_annotation(t)) == t
//!           (ignoring source locations)
//!  C16.O-3  variable_type_satisfies_argument_type(from(V), from(L))  <=>  the GraphQL
//!           specification's AreTypesCompatible(V, L) (spec section 5.8.5), written here
//!           directly over a neutral type tree — the oracle is the spec text, not the code.
use super::src_kani::Src;
#[cfg(kani)]
use super::src_kani::KaniSrc;
use super::target::{
    api_satisfies, graphql_type_annotation_from_type_annotation, mk_loc, mk_name,
    GraphQLListTypeAnnotation, GraphQLNamedTypeAnnotation, GraphQLNonNullTypeAnnotation,
    GraphQLTypeAnnotation, TypeAnnotationDeclaration, WithEmbeddedLocation,
};

/// neutral GraphQL type tree: the oracle side never touches the code's own types
#[derive(Clone, PartialEq, Eq, Debug)]
pub enum Ty {
    Named(u8),
    List(Box<Ty>, u8), // item type, location tag of the list item
    NonNull(Box<Ty>),  // inner is Named or List
}

/// one of the 4 (depth 1) / 12 (depth 2) list shapes, with symbolic names and location tags
fn gen_shape<S: Src>(s: &mut S, shape: u8) -> Ty {
    let name = s.u8();
    let loc = s.u8();
    let loc2 = s.u8();
    s.assume(name < 2 && loc < 2 && loc2 < 2);
    let named = Ty::Named(name);
    let nn_named = Ty::NonNull(Box::new(Ty::Named(name)));
    match shape {
        0 => named,
        1 => nn_named,
        2 => Ty::List(Box::new(named), loc),
        3 => Ty::NonNull(Box::new(Ty::List(Box::new(named), loc))),
        4 => Ty::List(Box::new(nn_named), loc),
        5 => Ty::NonNull(Box::new(Ty::List(Box::new(nn_named), loc))),
        6 => Ty::List(Box::new(Ty::List(Box::new(named), loc2)), loc),
        _ => Ty::NonNull(Box::new(Ty::List(Box::new(Ty::NonNull(Box::new(Ty::List(Box::new(nn_named), loc2)))), loc))),
    }
}

fn gen_ty<S: Src>(s: &mut S, depth: u32) -> Ty {
    let kind = s.u8();
    let name = s.u8();
    let loc = s.u8();
    s.assume(kind < 4 && name < 2 && loc < 2);
    if depth == 0 || kind == 0 {
        Ty::Named(name)
    } else if kind == 1 {
        Ty::NonNull(Box::new(Ty::Named(name)))
    } else if kind == 2 {
        Ty::List(Box::new(gen_ty(s, depth - 1)), loc)
    } else {
        Ty::NonNull(Box::new(Ty::List(Box::new(gen_ty(s, depth - 1)), loc)))
    }
}

fn to_gql(t: &Ty) -> GraphQLTypeAnnotation {
    match t {
        Ty::Named(n) => GraphQLTypeAnnotation::Named(GraphQLNamedTypeAnnotation(mk_name(*n))),
        Ty::List(inner, loc) => GraphQLTypeAnnotation::List(Box::new(GraphQLListTypeAnnotation(
            WithEmbeddedLocation::new(to_gql(inner), mk_loc(*loc)),
        ))),
        Ty::NonNull(inner) => GraphQLTypeAnnotation::NonNull(Box::new(match &**inner {
            Ty::Named(n) => GraphQLNonNullTypeAnnotation::Named(GraphQLNamedTypeAnnotation(mk_name(*n))),
            Ty::List(i, loc) => GraphQLNonNullTypeAnnotation::List(GraphQLListTypeAnnotation(
                WithEmbeddedLocation::new(to_gql(i), mk_loc(*loc)),
            )),
            Ty::NonNull(_) => unreachable!(),
        })),
    }
}

/// structural equality of a printed annotation with a neutral tree, ignoring locations
fn denotes(g: &GraphQLTypeAnnotation, t: &Ty) -> bool {
    match (g, t) {
        (GraphQLTypeAnnotation::Named(n), Ty::Named(m)) => n.0 == mk_name(*m),
        (GraphQLTypeAnnotation::List(l), Ty::List(inner, _)) => denotes(&l.0.item, inner),
        (GraphQLTypeAnnotation::NonNull(nn), Ty::NonNull(inner)) => match (&**nn, &**inner) {
            (GraphQLNonNullTypeAnnotation::Named(n), Ty::Named(m)) => n.0 == mk_name(*m),
            (GraphQLNonNullTypeAnnotation::List(l), Ty::List(i, _)) => denotes(&l.0.item, i),
            _ => false,
        },
        _ => false,
    }
}

/// GraphQL spec 5.8.5 AreTypesCompatible(variableType, locationType)
fn compatible(v: &Ty, l: &Ty) -> bool {
    match (v, l) {
        (Ty::NonNull(vi), Ty::NonNull(li)) => compatible(vi, li),
        (_, Ty::NonNull(_)) => false,
        (Ty::NonNull(vi), _) => compatible(vi, l),
        (Ty::List(vi, _), Ty::List(li, _)) => compatible(vi, li),
        (_, Ty::List(..)) => false,
        (Ty::List(..), _) => false,
        (Ty::Named(a), Ty::Named(b)) => a == b,
    }
}

#[cfg(verif_deep)]
pub const DEPTH: u32 = 2;
#[cfg(not(verif_deep))]
pub const DEPTH: u32 = 1;

/// C09.O-1
pub fn print_denotes_declared_type<S: Src>(s: &mut S) {
    let t = gen_ty(s, DEPTH);
    let decl = TypeAnnotationDeclaration::from_graphql_type_annotation(to_gql(&t));
    let printed = graphql_type_annotation_from_type_annotation(&decl);
    assert!(denotes(&printed, &t));
}

/// C16.O-3a  every pair the specification calls compatible is accepted
pub fn compatible_types_accepted<S: Src>(s: &mut S) {
    let v = gen_ty(s, DEPTH);
    let l = gen_ty(s, DEPTH);
    s.assume(compatible(&v, &l));
    let vd = TypeAnnotationDeclaration::from_graphql_type_annotation(to_gql(&v));
    let ld = TypeAnnotationDeclaration::from_graphql_type_annotation(to_gql(&l));
    assert!(api_satisfies(&vd, &ld));
}

/// C16.O-3b  every pair the specification calls incompatible is rejected
pub fn incompatible_types_rejected<S: Src>(s: &mut S) {
    let v = gen_ty(s, DEPTH);
    let l = gen_ty(s, DEPTH);
    s.assume(!compatible(&v, &l));
    let vd = TypeAnnotationDeclaration::from_graphql_type_annotation(to_gql(&v));
    let ld = TypeAnnotationDeclaration::from_graphql_type_annotation(to_gql(&l));
    assert!(!api_satisfies(&vd, &ld));
}

/// shape-indexed variants (concrete list shape, symbolic names and locations)
pub fn shape_print<S: Src>(s: &mut S, a: u8) {
    let t = gen_shape(s, a);
    let decl = TypeAnnotationDeclaration::from_graphql_type_annotation(to_gql(&t));
    let printed = graphql_type_annotation_from_type_annotation(&decl);
    assert!(denotes(&printed, &t));
}
pub fn shape_compat<S: Src>(s: &mut S, a: u8, b: u8) {
    let v = gen_shape(s, a);
    let l = gen_shape(s, b);
    let vd = TypeAnnotationDeclaration::from_graphql_type_annotation(to_gql(&v));
    let ld = TypeAnnotationDeclaration::from_graphql_type_annotation(to_gql(&l));
    assert!(api_satisfies(&vd, &ld) == compatible(&v, &l));
}

pub fn canary_types<S: Src>(s: &mut S) {
    let v = gen_ty(s, DEPTH);
    let l = gen_ty(s, DEPTH);
    let vd = TypeAnnotationDeclaration::from_graphql_type_annotation(to_gql(&v));
    let ld = TypeAnnotationDeclaration::from_graphql_type_annotation(to_gql(&l));
    assert!(api_satisfies(&vd, &ld));
}

pub fn dispatch<S: Src>(name: &str, s: &mut S) -> bool {
    match name {
        "print_denotes_declared_type" => print_denotes_declared_type(s),
        "compatible_types_accepted" => compatible_types_accepted(s),
        "incompatible_types_rejected" => incompatible_types_rejected(s),
        _ => return false,
    }
    true
}

#[cfg(kani)]
mod proofs {
    use super::*;
    #[kani::proof]
    #[kani::unwind(5)]
    fn print_denotes_declared_type() { super::print_denotes_declared_type(&mut KaniSrc) }
    #[kani::proof]
    #[kani::unwind(5)]
    fn compatible_types_accepted() { super::compatible_types_accepted(&mut KaniSrc) }
    #[kani::proof]
    #[kani::unwind(5)]
    fn incompatible_types_rejected() { super::incompatible_types_rejected(&mut KaniSrc) }
    #[kani::proof]
    #[kani::unwind(5)]
    fn shape_print_3() { super::shape_print(&mut KaniSrc, 3) }
    #[kani::proof]
    #[kani::unwind(5)]
    fn shape_compat_2_2() { super::shape_compat(&mut KaniSrc, 2, 2) }
    #[kani::proof]
    #[kani::unwind(5)]
    fn canary_types() { super::canary_types(&mut KaniSrc) }
}
