// unit type_annotation — extracted Kani crate. Real text (pulled on every run) of
//   isograph_lang_types: TypeAnnotationDeclaration::{from_graphql_type_annotation,
//     from_non_null_type_annotation}, UnionTypeAnnotationDeclaration::new_nullable,
//     graphql_type_annotation_from_type_annotation / _from_union_variant, and the types
//   isograph_schema::validate_argument_types: variable_type_satisfies_argument_type,
//     union_variant_matches_scalar_arg, union_contains
//   graphql_lang_types: the GraphQL*TypeAnnotation types
//   common_lang_types: WithGenericLocation {new, map, as_ref} and its manual PartialOrd
// Stand-ins (R8): EntityName and EmbeddedLocation are small integers with the same derives.
use std::collections::BTreeSet;

#[derive(Copy, Clone, Debug, Eq, PartialEq, Ord, PartialOrd, Hash)]
pub struct EntityName(pub u8);
#[derive(Copy, Clone, Debug, Eq, PartialEq, Ord, PartialOrd, Hash)]
pub struct EmbeddedLocation(pub u8);
// define_wrapper!(EntityNameWrapper, EntityName, ..) expanded by hand (macro: not extractable)
#[derive(Debug, Copy, Clone, Eq, PartialEq, Hash, PartialOrd, Ord)]
pub struct EntityNameWrapper(pub EntityName);
impl From<EntityName> for EntityNameWrapper { fn from(value: EntityName) -> Self { Self(value) } }

//@item rel=crates/common_lang_types/src/location.rs kind=struct name=WithGenericLocation prefix="#[derive(Copy, Clone, Debug, Eq, PartialEq, Ord, Hash)] pub"
pub type WithEmbeddedLocation<TItem> = WithGenericLocation<TItem, EmbeddedLocation>;
impl<T, TLocation> WithGenericLocation<T, TLocation> {
//@fn rel=crates/common_lang_types/src/location.rs name=new within="impl<T, TLocation> WithGenericLocation<T, TLocation>" vis=pub
//@end
//@fn rel=crates/common_lang_types/src/location.rs name=map within="impl<T, TLocation> WithGenericLocation<T, TLocation>" vis=pub
//@end
//@fn rel=crates/common_lang_types/src/location.rs name=as_ref within="impl<T, TLocation> WithGenericLocation<T, TLocation>" vis=pub
//@end
}
impl<TValue: PartialOrd, TLocation: PartialOrd> PartialOrd for WithGenericLocation<TValue, TLocation> {
//@fn rel=crates/common_lang_types/src/location.rs name=partial_cmp within="PartialOrd for WithGenericLocation<TValue, TLocation>"
//@end
}

//@item rel=crates/graphql_lang_types/src/graphql_type_annotation.rs kind=enum name=GraphQLTypeAnnotation prefix="#[derive(Clone, Debug, Eq, PartialEq, Ord, PartialOrd, Hash)] pub"
//@item rel=crates/graphql_lang_types/src/graphql_type_annotation.rs kind=enum name=GraphQLNonNullTypeAnnotation prefix="#[derive(Clone, Debug, Eq, PartialEq, Ord, PartialOrd, Hash)] pub"
//@item rel=crates/graphql_lang_types/src/graphql_type_annotation.rs kind=struct name=GraphQLNamedTypeAnnotation prefix="#[derive(Copy, Clone, Debug, Eq, PartialEq, Ord, PartialOrd, Hash)] pub"
//@item rel=crates/graphql_lang_types/src/graphql_type_annotation.rs kind=struct name=GraphQLListTypeAnnotation prefix="#[derive(Clone, Debug, Eq, PartialEq, Ord, PartialOrd, Hash)] pub"

//@item rel=crates/isograph_lang_types/src/declarations/isograph_type_annotation_declaration.rs kind=enum name=TypeAnnotationDeclaration prefix="#[derive(PartialEq, PartialOrd, Ord, Eq, Clone, Debug, Hash)] pub"
//@item rel=crates/isograph_lang_types/src/declarations/isograph_type_annotation_declaration.rs kind=struct name=UnionTypeAnnotationDeclaration prefix="#[derive(Default, Ord, PartialEq, PartialOrd, Eq, Clone, Debug, Hash)] pub"
//@item rel=crates/isograph_lang_types/src/declarations/isograph_type_annotation_declaration.rs kind=enum name=UnionVariant prefix="#[derive(Ord, PartialEq, PartialOrd, Eq, Clone, Debug, Hash)] pub"

impl TypeAnnotationDeclaration {
//@fn rel=crates/isograph_lang_types/src/declarations/isograph_type_annotation_declaration.rs name=from_graphql_type_annotation within="impl TypeAnnotationDeclaration" vis=pub serves=C09,C16
//@rw R4
//@end
//@fn rel=crates/isograph_lang_types/src/declarations/isograph_type_annotation_declaration.rs name=from_non_null_type_annotation within="impl TypeAnnotationDeclaration" vis=pub serves=C09,C16
//@rw R4
//@end
}
impl UnionTypeAnnotationDeclaration {
//@fn rel=crates/isograph_lang_types/src/declarations/isograph_type_annotation_declaration.rs name=new_nullable within="impl UnionTypeAnnotationDeclaration" vis=pub serves=C09,C16
//@end
}
//@fn rel=crates/isograph_lang_types/src/declarations/isograph_type_annotation_declaration.rs name=graphql_type_annotation_from_union_variant vis=pub serves=C09
//@rw R4
//@end
//@fn rel=crates/isograph_lang_types/src/declarations/isograph_type_annotation_declaration.rs name=graphql_type_annotation_from_type_annotation vis=pub serves=C09
//@rw R4
//@end

//@fn rel=crates/isograph_schema/src/validate_argument_types.rs name=variable_type_satisfies_argument_type vis=pub serves=C16
//@rw R4
//@end
//@fn rel=crates/isograph_schema/src/validate_argument_types.rs name=union_variant_matches_scalar_arg vis=pub serves=C16
//@rw R4
//@end
//@fn rel=crates/isograph_schema/src/validate_argument_types.rs name=union_contains vis=pub serves=C16
//@end

pub fn mk_name(n: u8) -> EntityName { EntityName(n) }
pub fn mk_loc(n: u8) -> EmbeddedLocation { EmbeddedLocation(n) }
pub fn api_satisfies(supplied: &TypeAnnotationDeclaration, target: &TypeAnnotationDeclaration) -> bool {
    variable_type_satisfies_argument_type(supplied, target)
}
