// unit fs_state — Verus. Real bodies of artifact_content::FileSystemState::{recreate_all,
// diff} (extracted on every run) against vstd's HashMap/HashSet/Vec specs and an assumed
// contract for Path::join. Serves C18 (the planned operations turn the directory into
// exactly the artifact set) and, through recreate_all, C19 (repair from any directory).
use vstd::prelude::*;
use std::collections::{HashMap, HashSet};
use vstd::std_specs::iter::IteratorSpec;
verus! {
broadcast use vstd::std_specs::hash::group_hash_axioms;

// =====================================================================================
// Assumed contracts (trusted base; hand written)
// =====================================================================================
// R8: interned names are integers (assumes the interning bijection, C05; Display/AsRef<Path>
// of a name is an injective function of the id)
pub type EntityName = u64;
pub type SelectableName = u64;
pub type ArtifactFileName = u64;

// std::path::{Path, PathBuf}: a path is its sequence of components; `join(c)` with a
// separator-free single component appends one component (prefix preserving, injective)
#[verifier::external_body]
pub struct Path { p: core::marker::PhantomData<u8> }
pub type PathBuf = Path;
impl View for Path { type V = Seq<int>; uninterp spec fn view(&self) -> Seq<int>; }
pub trait PathComponent { spec fn comp(&self) -> int; }
impl PathComponent for u64 { open spec fn comp(&self) -> int { *self as int } }
impl PathComponent for &u64 { open spec fn comp(&self) -> int { **self as int } }
impl Path {
    #[verifier::external_body]
    pub fn join<T: PathComponent>(&self, c: T) -> (r: PathBuf) ensures r@ == self@.push(c.comp()) { unimplemented!() }
    #[verifier::external_body]
    pub fn to_path_buf(&self) -> (r: PathBuf) ensures r@ == self@ { unimplemented!() }
}
impl Clone for Path {
    #[verifier::external_body]
    fn clone(&self) -> (r: Path) ensures r@ == self@ { unimplemented!() }
}

#[verifier::external_body]
pub struct FileContent { p: core::marker::PhantomData<u8> }
/// md5 of the content as stored in the state; equality of hashes is what `diff` compares
#[derive(PartialEq, Eq, Structural)]
pub struct ArtifactHash(pub u128);
impl Clone for ArtifactHash { fn clone(&self) -> (r: Self) ensures r == *self { ArtifactHash(self.0) } }

// pico::Index<T> (real text) with the semantics of its derived Clone assumed
//@item rel=crates/pico/src/index.rs kind=struct name=Index prefix="pub"
use core::marker::PhantomData;
impl<T> Clone for Index<T> {
    fn clone(&self) -> (r: Self) ensures r.idx == self.idx { Index { idx: self.idx, phantom: PhantomData } }
}
impl<T> Index<T> {
//@fn rel=crates/pico/src/index.rs name=new within="impl<T> Index<T>" vis=pub ret=r
//@contract
        ensures r.idx == idx,
//@end
}

// =====================================================================================
// Extracted types
// =====================================================================================
//@item rel=crates/common_lang_types/src/file_system_operation.rs kind=enum name=FileSystemOperation prefix="pub"
//@item rel=crates/artifact_content/src/file_system_state.rs kind=struct name=FileSystemState prefix="pub"

// =====================================================================================
// Abstract view: the directory content a state stands for, and the meaning of a plan
// =====================================================================================
pub enum OpV {
    DeleteDirectory(Seq<int>),
    CreateDirectory(Seq<int>),
    WriteFile(Seq<int>, usize),
    DeleteFile(Seq<int>),
}
pub open spec fn opv(op: FileSystemOperation) -> OpV {
    match op {
        FileSystemOperation::DeleteDirectory(p) => OpV::DeleteDirectory(p@),
        FileSystemOperation::CreateDirectory(p) => OpV::CreateDirectory(p@),
        FileSystemOperation::WriteFile(p, i) => OpV::WriteFile(p@, i.idx),
        FileSystemOperation::DeleteFile(p) => OpV::DeleteFile(p@),
    }
}
/// op number i of the plan, abstractly
pub open spec fn at(ops: Seq<FileSystemOperation>, i: int) -> OpV { opv(ops[i]) }
pub open spec fn emits(ops: Seq<FileSystemOperation>, o: OpV) -> bool {
    exists|i: int| 0 <= i < ops.len() && #[trigger] at(ops, i) == o
}
/// `o` is emitted strictly before position `before`, and after the initial wipe at 0
pub open spec fn emits_between(ops: Seq<FileSystemOperation>, o: OpV, before: int) -> bool {
    exists|j: int| 0 < j < before && j < ops.len() && #[trigger] at(ops, j) == o
}

impl FileSystemState {
    pub open spec fn has_root(&self, f: u64) -> bool { self.root_files@.contains_key(f) }
    pub open spec fn root_idx(&self, f: u64) -> usize { self.root_files@[f].0.idx }
    pub open spec fn root_hash(&self, f: u64) -> ArtifactHash { self.root_files@[f].1 }
    pub open spec fn has_entity(&self, e: u64) -> bool { self.nested_files@.contains_key(e) }
    pub open spec fn has_sel(&self, e: u64, s: u64) -> bool {
        self.has_entity(e) && self.nested_files@[e]@.contains_key(s)
    }
    pub open spec fn has_nested(&self, e: u64, s: u64, f: u64) -> bool {
        self.has_sel(e, s) && self.nested_files@[e]@[s]@.contains_key(f)
    }
    pub open spec fn nested_idx(&self, e: u64, s: u64, f: u64) -> usize { self.nested_files@[e]@[s]@[f].0.idx }
    pub open spec fn nested_hash(&self, e: u64, s: u64, f: u64) -> ArtifactHash { self.nested_files@[e]@[s]@[f].1 }
}
pub open spec fn root_path(d: Seq<int>, f: u64) -> Seq<int> { d.push(f as int) }
pub open spec fn sel_dir(d: Seq<int>, e: u64, s: u64) -> Seq<int> { d.push(e as int).push(s as int) }
pub open spec fn nested_path(d: Seq<int>, e: u64, s: u64, f: u64) -> Seq<int> { d.push(e as int).push(s as int).push(f as int) }

/// every WriteFile of the plan writes a file of `st` to its own path with its own content
pub open spec fn writes_sound(ops: Seq<FileSystemOperation>, st: &FileSystemState, d: Seq<int>, with_root: bool) -> bool {
    forall|i: int| 0 <= i < ops.len() && (#[trigger] at(ops, i)) is WriteFile ==>
        (with_root && exists|f: u64| st.has_root(f) && at(ops, i) == OpV::WriteFile(root_path(d, f), st.root_idx(f)))
        || (exists|e: u64, s: u64, f: u64| st.has_nested(e, s, f) && at(ops, i) == OpV::WriteFile(nested_path(d, e, s, f), st.nested_idx(e, s, f)))
}
/// every WriteFile is preceded (after the wipe) by the creation of its parent directory
pub open spec fn parents_created(ops: Seq<FileSystemOperation>) -> bool {
    forall|i: int| 0 <= i < ops.len() && (#[trigger] at(ops, i)) is WriteFile ==>
        emits_between(ops, OpV::CreateDirectory(at(ops, i)->WriteFile_0.drop_last()), i)
}
/// the plan starts by wiping the directory and never deletes anything afterwards
pub open spec fn wipes_first(ops: Seq<FileSystemOperation>, d: Seq<int>) -> bool {
    &&& ops.len() > 0
    &&& at(ops, 0) == OpV::DeleteDirectory(d)
    &&& forall|i: int| 0 < i < ops.len() ==> (#[trigger] at(ops, i)) is WriteFile || at(ops, i) is CreateDirectory
}

pub proof fn lemma_push_emits(ops: Seq<FileSystemOperation>, op: FileSystemOperation, o: OpV)
    ensures
        emits(ops, o) ==> emits(ops.push(op), o),
        emits(ops.push(op), opv(op)),
{
    if emits(ops, o) {
        let i = choose|i: int| 0 <= i < ops.len() && #[trigger] at(ops, i) == o;
        assert(at(ops.push(op), i) == o);
    }
    assert(at(ops.push(op), ops.len() as int) == opv(op));
}

/// what iterating a HashMap yields (vstd's contract for HashMap::iter, restated over `seq()`)
pub open spec fn iter_ok<K, V>(seq: Seq<(&K, &V)>, m: Map<K, V>) -> bool {
    &&& seq.no_duplicates()
    &&& forall|k: int| 0 <= k < seq.len() ==> m.contains_key(*(#[trigger] seq[k]).0) && m[*seq[k].0] == *seq[k].1
    &&& forall|key: K| #[trigger] m.contains_key(key) ==> exists|k: int| 0 <= k < seq.len() && *seq[k].0 == key
}

pub type FileMap = Map<u64, (Index<FileContent>, ArtifactHash)>;
pub type SelMap = Map<u64, HashMap<u64, (Index<FileContent>, ArtifactHash)>>;
pub type EntMap = Map<u64, HashMap<u64, HashMap<u64, (Index<FileContent>, ArtifactHash)>>>;

pub open spec fn file_written(ops: Seq<FileSystemOperation>, d: Seq<int>, e: u64, s: u64, f: u64, v: (Index<FileContent>, ArtifactHash)) -> bool {
    emits(ops, OpV::WriteFile(nested_path(d, e, s, f), v.0.idx))
}
pub open spec fn files_written(ops: Seq<FileSystemOperation>, d: Seq<int>, e: u64, s: u64, fm: FileMap) -> bool {
    forall|f: u64| #[trigger] fm.contains_key(f) ==> file_written(ops, d, e, s, f, fm[f])
}
pub open spec fn sels_written(ops: Seq<FileSystemOperation>, d: Seq<int>, e: u64, sm: SelMap) -> bool {
    forall|s: u64| #[trigger] sm.contains_key(s) ==> files_written(ops, d, e, s, sm[s]@)
}
pub open spec fn ents_written(ops: Seq<FileSystemOperation>, d: Seq<int>, em: EntMap) -> bool {
    forall|e: u64| #[trigger] em.contains_key(e) ==> sels_written(ops, d, e, em[e]@)
}
pub open spec fn roots_written(ops: Seq<FileSystemOperation>, d: Seq<int>, fm: FileMap) -> bool {
    forall|f: u64| #[trigger] fm.contains_key(f) ==> emits(ops, OpV::WriteFile(root_path(d, f), fm[f].0.idx))
}

pub proof fn lemma_push_mono(ops: Seq<FileSystemOperation>, op: FileSystemOperation, d: Seq<int>)
    ensures
        forall|o: OpV| emits(ops, o) ==> #[trigger] emits(ops.push(op), o),
        forall|e: u64, s: u64, fm: FileMap| files_written(ops, d, e, s, fm) ==> #[trigger] files_written(ops.push(op), d, e, s, fm),
        forall|e: u64, sm: SelMap| sels_written(ops, d, e, sm) ==> #[trigger] sels_written(ops.push(op), d, e, sm),
        forall|em: EntMap| ents_written(ops, d, em) ==> #[trigger] ents_written(ops.push(op), d, em),
        forall|fm: FileMap| roots_written(ops, d, fm) ==> #[trigger] roots_written(ops.push(op), d, fm),
        forall|o: OpV| emits_between(ops, o, ops.len() as int) ==> #[trigger] emits_between(ops.push(op), o, ops.len() as int + 1),
{
    assert forall|o: OpV| emits(ops, o) implies #[trigger] emits(ops.push(op), o) by { lemma_push_emits(ops, op, o); }
    assert forall|o: OpV| emits_between(ops, o, ops.len() as int) implies #[trigger] emits_between(ops.push(op), o, ops.len() as int + 1) by {
        let j = choose|j: int| 0 < j < ops.len() && j < ops.len() && #[trigger] at(ops, j) == o;
        assert(at(ops.push(op), j) == o);
    }
}

/// appending an operation that deletes nothing keeps the three plan properties, provided a
/// WriteFile writes a file of the state and its parent directory was created before it
pub proof fn lemma_push_plan(ops: Seq<FileSystemOperation>, op: FileSystemOperation, st: &FileSystemState, d: Seq<int>, with_root: bool)
    requires
        wipes_first(ops, d), writes_sound(ops, st, d, with_root), parents_created(ops),
        opv(op) is CreateDirectory || opv(op) is WriteFile,
        opv(op) is WriteFile ==> emits_between(ops, OpV::CreateDirectory(opv(op)->WriteFile_0.drop_last()), ops.len() as int),
        opv(op) is WriteFile ==>
            (with_root && exists|f: u64| st.has_root(f) && opv(op) == OpV::WriteFile(root_path(d, f), st.root_idx(f)))
            || (exists|e: u64, s: u64, f: u64| st.has_nested(e, s, f) && opv(op) == OpV::WriteFile(nested_path(d, e, s, f), st.nested_idx(e, s, f))),
    ensures
        wipes_first(ops.push(op), d), writes_sound(ops.push(op), st, d, with_root), parents_created(ops.push(op)),
{
    let n = ops.push(op);
    assert forall|i: int| 0 <= i < n.len() implies at(n, i) == (if i < ops.len() { at(ops, i) } else { opv(op) }) by {}
    assert forall|i: int| 0 <= i < n.len() && (#[trigger] at(n, i)) is WriteFile implies
        emits_between(n, OpV::CreateDirectory(at(n, i)->WriteFile_0.drop_last()), i) by {
        let target = OpV::CreateDirectory(at(n, i)->WriteFile_0.drop_last());
        if i < ops.len() {
            assert(at(ops, i) is WriteFile);
            let j = choose|j: int| 0 < j < i && j < ops.len() && #[trigger] at(ops, j) == target;
            assert(at(n, j) == target);
        } else {
            let j = choose|j: int| 0 < j < ops.len() && j < ops.len() && #[trigger] at(ops, j) == target;
            assert(at(n, j) == target);
        }
    }
    assert forall|i: int| 0 <= i < n.len() && (#[trigger] at(n, i)) is WriteFile implies
        ((with_root && exists|f: u64| st.has_root(f) && at(n, i) == OpV::WriteFile(root_path(d, f), st.root_idx(f)))
        || (exists|e: u64, s: u64, f: u64| st.has_nested(e, s, f) && at(n, i) == OpV::WriteFile(nested_path(d, e, s, f), st.nested_idx(e, s, f)))) by {
        if i < ops.len() { assert(at(ops, i) is WriteFile); }
    }
    assert forall|i: int| 0 < i < n.len() implies (#[trigger] at(n, i)) is WriteFile || at(n, i) is CreateDirectory by {
        if i < ops.len() { assert(at(ops, i) is WriteFile || at(ops, i) is CreateDirectory); }
    }
    assert(at(n, 0) == at(ops, 0));
}

pub proof fn lemma_sound_weaken(ops: Seq<FileSystemOperation>, st: &FileSystemState, d: Seq<int>)
    requires writes_sound(ops, st, d, false)
    ensures writes_sound(ops, st, d, true)
{
    assert forall|i: int| 0 <= i < ops.len() && (#[trigger] at(ops, i)) is WriteFile implies
        ((true && exists|f: u64| st.has_root(f) && at(ops, i) == OpV::WriteFile(root_path(d, f), st.root_idx(f)))
        || (exists|e: u64, s: u64, f: u64| st.has_nested(e, s, f) && at(ops, i) == OpV::WriteFile(nested_path(d, e, s, f), st.nested_idx(e, s, f)))) by {}
}


// ---------------- diff: meaning of a plan relative to (old, new) ----------------
pub open spec fn root_needs_write(o: &FileSystemState, n: &FileSystemState, f: u64) -> bool {
    !o.has_root(f) || o.root_hash(f) != n.root_hash(f)
}
pub open spec fn nested_needs_write(o: &FileSystemState, n: &FileSystemState, e: u64, s: u64, f: u64) -> bool {
    !o.has_nested(e, s, f) || o.nested_hash(e, s, f) != n.nested_hash(e, s, f)
}
pub open spec fn ent_dir(d: Seq<int>, e: u64) -> Seq<int> { d.push(e as int) }
/// every planned operation is justified by a difference between the two states:
/// writes only for new/changed files (minimality), deletions only of things that vanished
pub open spec fn op_justified(x: OpV, o: &FileSystemState, n: &FileSystemState, d: Seq<int>) -> bool {
    match x {
        OpV::WriteFile(p, idx) =>
            (exists|f: u64| n.has_root(f) && root_needs_write(o, n, f) && x == OpV::WriteFile(root_path(d, f), n.root_idx(f)))
            || (exists|e: u64, s: u64, f: u64| n.has_nested(e, s, f) && nested_needs_write(o, n, e, s, f) && x == OpV::WriteFile(nested_path(d, e, s, f), n.nested_idx(e, s, f))),
        OpV::CreateDirectory(q) => exists|e: u64, s: u64| n.has_sel(e, s) && !o.has_sel(e, s) && x == OpV::CreateDirectory(sel_dir(d, e, s)),
        OpV::DeleteFile(p) =>
            (exists|f: u64| o.has_root(f) && !n.has_root(f) && x == OpV::DeleteFile(root_path(d, f)))
            || (exists|e: u64, s: u64, f: u64| o.has_nested(e, s, f) && n.has_sel(e, s) && !n.has_nested(e, s, f) && x == OpV::DeleteFile(nested_path(d, e, s, f))),
        OpV::DeleteDirectory(q) =>
            (exists|e: u64| o.has_entity(e) && !n.has_entity(e) && x == OpV::DeleteDirectory(ent_dir(d, e)))
            || (exists|e: u64, s: u64| o.has_sel(e, s) && n.has_entity(e) && !n.has_sel(e, s) && x == OpV::DeleteDirectory(sel_dir(d, e, s))),
    }
}
pub open spec fn all_justified(ops: Seq<FileSystemOperation>, o: &FileSystemState, n: &FileSystemState, d: Seq<int>) -> bool {
    forall|i: int| 0 <= i < ops.len() ==> op_justified(#[trigger] at(ops, i), o, n, d)
}
pub open spec fn emits_before(ops: Seq<FileSystemOperation>, x: OpV, before: int) -> bool {
    exists|j: int| 0 <= j < before && j < ops.len() && #[trigger] at(ops, j) == x
}
/// a nested write lands in a directory that already existed (old selectable) or that the
/// plan created earlier
pub open spec fn write_has_dir(ops: Seq<FileSystemOperation>, i: int, o: &FileSystemState, d: Seq<int>) -> bool {
    at(ops, i) is WriteFile ==> {
        let parent = at(ops, i)->WriteFile_0.drop_last();
        parent == d
        || (exists|e: u64, s: u64| o.has_sel(e, s) && parent == sel_dir(d, e, s))
        || emits_before(ops, OpV::CreateDirectory(parent), i)
    }
}
pub open spec fn writes_have_dirs(ops: Seq<FileSystemOperation>, o: &FileSystemState, d: Seq<int>) -> bool {
    forall|i: int| 0 <= i < ops.len() ==> #[trigger] write_has_dir(ops, i, o, d)
}
pub proof fn lemma_push_diff(ops: Seq<FileSystemOperation>, op: FileSystemOperation, o: &FileSystemState, n: &FileSystemState, d: Seq<int>)
    requires
        all_justified(ops, o, n, d), writes_have_dirs(ops, o, d),
        op_justified(opv(op), o, n, d),
        opv(op) is WriteFile ==> {
            let parent = opv(op)->WriteFile_0.drop_last();
            parent == d || (exists|e: u64, s: u64| o.has_sel(e, s) && parent == sel_dir(d, e, s)) || emits_before(ops, OpV::CreateDirectory(parent), ops.len() as int)
        },
    ensures
        all_justified(ops.push(op), o, n, d), writes_have_dirs(ops.push(op), o, d),
        forall|x: OpV| emits(ops, x) ==> #[trigger] emits(ops.push(op), x),
        emits(ops.push(op), opv(op)),
        forall|x: OpV| emits_before(ops, x, ops.len() as int) ==> #[trigger] emits_before(ops.push(op), x, ops.len() as int + 1),
        emits_before(ops.push(op), opv(op), ops.len() as int + 1),
{
    let m = ops.push(op);
    assert forall|i: int| 0 <= i < m.len() implies at(m, i) == (if i < ops.len() { at(ops, i) } else { opv(op) }) by {}
    assert forall|i: int| 0 <= i < m.len() implies op_justified(#[trigger] at(m, i), o, n, d) by {
        if i < ops.len() { assert(op_justified(at(ops, i), o, n, d)); }
    }
    assert forall|i: int| 0 <= i < m.len() implies #[trigger] write_has_dir(m, i, o, d) by {
        if i < ops.len() {
            assert(write_has_dir(ops, i, o, d));
            if at(ops, i) is WriteFile {
                let parent = at(ops, i)->WriteFile_0.drop_last();
                if emits_before(ops, OpV::CreateDirectory(parent), i) {
                    let j = choose|j: int| 0 <= j < i && j < ops.len() && #[trigger] at(ops, j) == OpV::CreateDirectory(parent);
                    assert(at(m, j) == OpV::CreateDirectory(parent));
                }
            }
        } else if opv(op) is WriteFile {
            let parent = opv(op)->WriteFile_0.drop_last();
            if emits_before(ops, OpV::CreateDirectory(parent), ops.len() as int) {
                let j = choose|j: int| 0 <= j < ops.len() && j < ops.len() && #[trigger] at(ops, j) == OpV::CreateDirectory(parent);
                assert(at(m, j) == OpV::CreateDirectory(parent));
            }
        }
    }
    assert forall|x: OpV| emits(ops, x) implies #[trigger] emits(m, x) by { lemma_push_emits(ops, op, x); }
    assert forall|x: OpV| emits_before(ops, x, ops.len() as int) implies #[trigger] emits_before(m, x, ops.len() as int + 1) by {
        let j = choose|j: int| 0 <= j < ops.len() && j < ops.len() && #[trigger] at(ops, j) == x;
        assert(at(m, j) == x);
    }
    assert(at(m, ops.len() as int) == opv(op));
}


// ---------------- diff: completeness predicates ----------------
pub open spec fn file_w(ops: Seq<FileSystemOperation>, o: &FileSystemState, n: &FileSystemState, d: Seq<int>, e: u64, s: u64, f: u64) -> bool {
    n.has_nested(e, s, f) && nested_needs_write(o, n, e, s, f) ==> emits(ops, OpV::WriteFile(nested_path(d, e, s, f), n.nested_idx(e, s, f)))
}
pub open spec fn sel_w(ops: Seq<FileSystemOperation>, o: &FileSystemState, n: &FileSystemState, d: Seq<int>, e: u64, s: u64) -> bool {
    n.has_sel(e, s) ==> {
        &&& !o.has_sel(e, s) ==> emits(ops, OpV::CreateDirectory(sel_dir(d, e, s)))
        &&& forall|f: u64| #[trigger] n.has_nested(e, s, f) ==> file_w(ops, o, n, d, e, s, f)
    }
}
pub open spec fn ent_w(ops: Seq<FileSystemOperation>, o: &FileSystemState, n: &FileSystemState, d: Seq<int>, e: u64) -> bool {
    forall|s: u64| #[trigger] n.has_sel(e, s) ==> sel_w(ops, o, n, d, e, s)
}
pub open spec fn all_w(ops: Seq<FileSystemOperation>, o: &FileSystemState, n: &FileSystemState, d: Seq<int>) -> bool {
    forall|e: u64| #[trigger] n.has_entity(e) ==> ent_w(ops, o, n, d, e)
}
pub open spec fn root_w(ops: Seq<FileSystemOperation>, o: &FileSystemState, n: &FileSystemState, d: Seq<int>, f: u64) -> bool {
    n.has_root(f) && root_needs_write(o, n, f) ==> emits(ops, OpV::WriteFile(root_path(d, f), n.root_idx(f)))
}
pub open spec fn roots_w(ops: Seq<FileSystemOperation>, o: &FileSystemState, n: &FileSystemState, d: Seq<int>) -> bool {
    forall|f: u64| #[trigger] n.has_root(f) ==> root_w(ops, o, n, d, f)
}
pub open spec fn file_d(ops: Seq<FileSystemOperation>, o: &FileSystemState, n: &FileSystemState, d: Seq<int>, e: u64, s: u64, f: u64) -> bool {
    o.has_nested(e, s, f) && n.has_sel(e, s) && !n.has_nested(e, s, f) ==> emits(ops, OpV::DeleteFile(nested_path(d, e, s, f)))
}
pub open spec fn sel_d(ops: Seq<FileSystemOperation>, o: &FileSystemState, n: &FileSystemState, d: Seq<int>, e: u64, s: u64) -> bool {
    o.has_sel(e, s) && n.has_entity(e) ==> {
        &&& !n.has_sel(e, s) ==> emits(ops, OpV::DeleteDirectory(sel_dir(d, e, s)))
        &&& n.has_sel(e, s) ==> forall|f: u64| #[trigger] o.has_nested(e, s, f) ==> file_d(ops, o, n, d, e, s, f)
    }
}
pub open spec fn ent_d(ops: Seq<FileSystemOperation>, o: &FileSystemState, n: &FileSystemState, d: Seq<int>, e: u64) -> bool {
    o.has_entity(e) ==> {
        &&& !n.has_entity(e) ==> emits(ops, OpV::DeleteDirectory(ent_dir(d, e)))
        &&& forall|s: u64| #[trigger] o.has_sel(e, s) ==> sel_d(ops, o, n, d, e, s)
    }
}
pub open spec fn all_d(ops: Seq<FileSystemOperation>, o: &FileSystemState, n: &FileSystemState, d: Seq<int>) -> bool {
    forall|e: u64| #[trigger] o.has_entity(e) ==> ent_d(ops, o, n, d, e)
}
pub open spec fn root_d(ops: Seq<FileSystemOperation>, o: &FileSystemState, n: &FileSystemState, d: Seq<int>, f: u64) -> bool {
    o.has_root(f) && !n.has_root(f) ==> emits(ops, OpV::DeleteFile(root_path(d, f)))
}
pub open spec fn roots_d(ops: Seq<FileSystemOperation>, o: &FileSystemState, n: &FileSystemState, d: Seq<int>) -> bool {
    forall|f: u64| #[trigger] o.has_root(f) ==> root_d(ops, o, n, d, f)
}
/// what iterating HashMap::keys yields
pub open spec fn keys_ok<K, V>(seq: Seq<&K>, m: Map<K, V>) -> bool {
    &&& seq.no_duplicates()
    &&& forall|k: int| 0 <= k < seq.len() ==> m.contains_key(*(#[trigger] seq[k]))
    &&& forall|key: K| #[trigger] m.contains_key(key) ==> exists|k: int| 0 <= k < seq.len() && *seq[k] == key
}

pub proof fn lemma_push_mono_diff(ops: Seq<FileSystemOperation>, op: FileSystemOperation, o: &FileSystemState, n: &FileSystemState, d: Seq<int>)
    ensures
        forall|e: u64, s: u64, f: u64| file_w(ops, o, n, d, e, s, f) ==> #[trigger] file_w(ops.push(op), o, n, d, e, s, f),
        forall|e: u64, s: u64| sel_w(ops, o, n, d, e, s) ==> #[trigger] sel_w(ops.push(op), o, n, d, e, s),
        forall|e: u64| ent_w(ops, o, n, d, e) ==> #[trigger] ent_w(ops.push(op), o, n, d, e),
        all_w(ops, o, n, d) ==> all_w(ops.push(op), o, n, d),
        forall|f: u64| root_w(ops, o, n, d, f) ==> #[trigger] root_w(ops.push(op), o, n, d, f),
        roots_w(ops, o, n, d) ==> roots_w(ops.push(op), o, n, d),
        forall|e: u64, s: u64, f: u64| file_d(ops, o, n, d, e, s, f) ==> #[trigger] file_d(ops.push(op), o, n, d, e, s, f),
        forall|e: u64, s: u64| sel_d(ops, o, n, d, e, s) ==> #[trigger] sel_d(ops.push(op), o, n, d, e, s),
        forall|e: u64| ent_d(ops, o, n, d, e) ==> #[trigger] ent_d(ops.push(op), o, n, d, e),
        all_d(ops, o, n, d) ==> all_d(ops.push(op), o, n, d),
        forall|f: u64| root_d(ops, o, n, d, f) ==> #[trigger] root_d(ops.push(op), o, n, d, f),
        roots_d(ops, o, n, d) ==> roots_d(ops.push(op), o, n, d),
{
    assert forall|x: OpV| emits(ops, x) implies #[trigger] emits(ops.push(op), x) by { lemma_push_emits(ops, op, x); }
}

/// std: tuples of integers hash and compare consistently (vstd provides the key model for
/// primitive integers only)
#[verifier::external_body]
pub proof fn axiom_tuple_key_model()
    ensures vstd::std_specs::hash::obeys_key_model::<(u64, u64)>()
{}

impl FileSystemState {
// ---- real code under contract ------------------------------------------------------

//@fn rel=crates/artifact_content/src/file_system_state.rs name=recreate_all within="impl FileSystemState" vis=pub ret=ops serves=C18,C19
//@sub "in &state\.nested_files \{" => "in it1: state.nested_files.iter() {" n=1
//@sub "in new_selectable_map \{" => "in it2: new_selectable_map.iter() {" n=1
//@sub "in new_files \{" => "in it3: new_files.iter() {" n=1
//@sub "in &state\.root_files \{" => "in it4: state.root_files.iter() {" n=1
//@contract
        ensures
            // whatever the directory held before is wiped first, nothing is deleted later
            wipes_first(ops@, artifact_directory@), //@O C18+C19.O-2a_recreate_all_wipes_first
            // only files of the state are written, each to its own path with its own content
            writes_sound(ops@, state, artifact_directory@, true), //@O C18.O-2b_recreate_all_writes_only_state_files
            // every file of the state is written
            roots_written(ops@, artifact_directory@, state.root_files@), //@O C18.O-2c_recreate_all_writes_every_root_file
            ents_written(ops@, artifact_directory@, state.nested_files@), //@O C18.O-2d_recreate_all_writes_every_nested_file
            // every write finds its parent directory: created after the wipe, before the write
            parents_created(ops@), //@O C18+C19.O-2e_recreate_all_creates_parent_directory_before_each_write
            // hence (lemma_recreate_all_correct, over the transcribed std::fs semantics): applied
            // to ANY directory, the plan succeeds and leaves exactly the files of the state
            forall|dir0: Dir, h: spec_fn(usize) -> ArtifactHash| state.hashes_match(h) ==>
                (#[trigger] apply_all(dir0, ops@, ops@.len() as int, h)) is Some
                && files_match(apply_all(dir0, ops@, ops@.len() as int, h)->Some_0, state, artifact_directory@), //@O C18+C19.O-2_from_scratch_plan_turns_any_directory_into_the_state
            // ... and every directory the state implies (the artifact directory, one per selectable)
            // exists afterwards, so that the next incremental plan finds them
            forall|dir0: Dir, h: spec_fn(usize) -> ArtifactHash| state.hashes_match(h) && state.sels_nonempty() && state.nonempty() ==>
                dirs_ok((#[trigger] apply_all(dir0, ops@, ops@.len() as int, h))->Some_0, state, artifact_directory@), //@O C18+C19.O-2f_from_scratch_plan_creates_every_directory_the_state_implies
//@after "operations.push(FileSystemOperation::DeleteDirectory("
        proof {
            assert(at(operations@, 0) == OpV::DeleteDirectory(artifact_directory@));
        }
//@loop 1
            invariant
                wipes_first(operations@, artifact_directory@),
                writes_sound(operations@, state, artifact_directory@, false),
                parents_created(operations@),
                iter_ok(it1.seq(), state.nested_files@),
                forall|k: int| 0 <= k < it1.index@ ==> sels_written(operations@, artifact_directory@, *(#[trigger] it1.seq()[k]).0, it1.seq()[k].1@),
//@loop 2
                invariant
                    wipes_first(operations@, artifact_directory@),
                    writes_sound(operations@, state, artifact_directory@, false),
                    parents_created(operations@),
                    iter_ok(it1.seq(), state.nested_files@),
                    0 <= it1.index@ < it1.seq().len(),
                    forall|k: int| 0 <= k < it1.index@ ==> sels_written(operations@, artifact_directory@, *(#[trigger] it1.seq()[k]).0, it1.seq()[k].1@),
                    state.nested_files@.contains_key(*new_server_object_entity_name),
                    state.nested_files@[*new_server_object_entity_name] == *new_selectable_map,
                    (*new_server_object_entity_name, new_selectable_map) == (*it1.seq()[it1.index@].0, it1.seq()[it1.index@].1),
                    new_server_object_path@ == artifact_directory@.push(*new_server_object_entity_name as int),
                    iter_ok(it2.seq(), new_selectable_map@),
                    forall|k: int| 0 <= k < it2.index@ ==> files_written(operations@, artifact_directory@, *new_server_object_entity_name, *(#[trigger] it2.seq()[k]).0, it2.seq()[k].1@),
//@loop 3
                    invariant
                        wipes_first(operations@, artifact_directory@),
                        writes_sound(operations@, state, artifact_directory@, false),
                        parents_created(operations@),
                        iter_ok(it1.seq(), state.nested_files@),
                        0 <= it1.index@ < it1.seq().len(),
                        forall|k: int| 0 <= k < it1.index@ ==> sels_written(operations@, artifact_directory@, *(#[trigger] it1.seq()[k]).0, it1.seq()[k].1@),
                        state.nested_files@.contains_key(*new_server_object_entity_name),
                        state.nested_files@[*new_server_object_entity_name] == *new_selectable_map,
                        new_server_object_path@ == artifact_directory@.push(*new_server_object_entity_name as int),
                        iter_ok(it2.seq(), new_selectable_map@),
                        0 <= it2.index@ < it2.seq().len(),
                        forall|k: int| 0 <= k < it2.index@ ==> files_written(operations@, artifact_directory@, *new_server_object_entity_name, *(#[trigger] it2.seq()[k]).0, it2.seq()[k].1@),
                        new_selectable_map@.contains_key(*new_selectable),
                        new_selectable_map@[*new_selectable] == *new_files,
                        new_selectable_path@ == sel_dir(artifact_directory@, *new_server_object_entity_name, *new_selectable),
                        emits_between(operations@, OpV::CreateDirectory(new_selectable_path@), operations@.len() as int),
                        iter_ok(it3.seq(), new_files@),
                        forall|k: int| 0 <= k < it3.index@ ==> file_written(operations@, artifact_directory@, *new_server_object_entity_name, *new_selectable, *(#[trigger] it3.seq()[k]).0, *it3.seq()[k].1),
//@before "operations.push(FileSystemOperation::CreateDirectory("
                let ghost old_ops = operations@;
//@after "operations.push(FileSystemOperation::CreateDirectory("
                proof {
                    let pushed = operations@[operations@.len() - 1];
                    assert(operations@ == old_ops.push(pushed));
                    assert(opv(pushed) == OpV::CreateDirectory(new_selectable_path@));
                    lemma_push_mono(old_ops, pushed, artifact_directory@);
                    lemma_push_plan(old_ops, pushed, state, artifact_directory@, false);
                    assert(at(operations@, operations@.len() - 1) == OpV::CreateDirectory(new_selectable_path@));
                }
//@before "operations.push(FileSystemOperation::WriteFile(" nth=0
                    let ghost old_ops3 = operations@;
//@after "operations.push(FileSystemOperation::WriteFile(" nth=0
                    proof {
                        let e = *new_server_object_entity_name; let s = *new_selectable; let f = *new_file_name;
                        let pushed = operations@[operations@.len() - 1];
                        assert(operations@ == old_ops3.push(pushed));
                        assert(new_files@.contains_key(f) && new_files@[f] == *it3.seq()[it3.index@].1);
                        assert(state.has_nested(e, s, f));
                        assert(new_file_path@ == nested_path(artifact_directory@, e, s, f));
                        assert(new_file_path@.drop_last() == new_selectable_path@);
                        assert(opv(pushed) == OpV::WriteFile(nested_path(artifact_directory@, e, s, f), state.nested_idx(e, s, f)));
                        lemma_push_mono(old_ops3, pushed, artifact_directory@);
                        lemma_push_plan(old_ops3, pushed, state, artifact_directory@, false);
                        lemma_push_emits(old_ops3, pushed, opv(pushed));
                        let c = choose|j: int| 0 < j < old_ops3.len() && j < old_ops3.len() && #[trigger] at(old_ops3, j) == OpV::CreateDirectory(new_selectable_path@);
                        assert(at(operations@, c) == OpV::CreateDirectory(new_selectable_path@));
                    }
//@after "for (new_server_object_entity_name, new_selectable_map) in"
        proof {
            lemma_sound_weaken(operations@, state, artifact_directory@);
        }
//@before "if !state.root_files.is_empty()" opt
        let ghost old_ops_r = operations@;
//@after "if !state.root_files.is_empty()" opt
        proof {
            if state.root_files@.len() != 0 {
                let pushed = operations@[operations@.len() - 1];
                assert(operations@ == old_ops_r.push(pushed));
                assert(opv(pushed) == OpV::CreateDirectory(artifact_directory@));
                lemma_push_mono(old_ops_r, pushed, artifact_directory@);
                lemma_push_plan(old_ops_r, pushed, state, artifact_directory@, true);
                assert(at(operations@, operations@.len() - 1) == OpV::CreateDirectory(artifact_directory@));
            }
        }
//@loop 4
            invariant
                wipes_first(operations@, artifact_directory@),
                writes_sound(operations@, state, artifact_directory@, true),
                parents_created(operations@),
                ents_written(operations@, artifact_directory@, state.nested_files@),
                iter_ok(it4.seq(), state.root_files@),
                forall|k: int| 0 <= k < it4.index@ ==> emits(operations@, OpV::WriteFile(root_path(artifact_directory@, *(#[trigger] it4.seq()[k]).0), it4.seq()[k].1.0.idx)),
                // the artifact directory itself exists again before any root file is written
                it4.seq().len() > 0 ==> emits_between(operations@, OpV::CreateDirectory(artifact_directory@), operations@.len() as int), //@O C18+C19.O-2e_artifact_directory_recreated_before_root_files
//@before "operations.push(FileSystemOperation::WriteFile(" nth=1
            let ghost old_ops4 = operations@;
//@after "operations.push(FileSystemOperation::WriteFile(" nth=1
            proof {
                let f = *new_file_name;
                let pushed = operations@[operations@.len() - 1];
                assert(operations@ == old_ops4.push(pushed));
                assert(state.root_files@.contains_key(f) && state.root_files@[f] == *it4.seq()[it4.index@].1);
                assert(state.has_root(f));
                assert(new_file_path@ == root_path(artifact_directory@, f));
                assert(new_file_path@.drop_last() == artifact_directory@);
                assert(opv(pushed) == OpV::WriteFile(root_path(artifact_directory@, f), state.root_idx(f)));
                lemma_push_mono(old_ops4, pushed, artifact_directory@);
                lemma_push_plan(old_ops4, pushed, state, artifact_directory@, true);
                lemma_push_emits(old_ops4, pushed, opv(pushed));
            }
//@atend
        proof {
            assert forall|dir0: Dir, h: spec_fn(usize) -> ArtifactHash| state.hashes_match(h) implies
                (#[trigger] apply_all(dir0, operations@, operations@.len() as int, h)) is Some
                && files_match(apply_all(dir0, operations@, operations@.len() as int, h)->Some_0, state, artifact_directory@) by {
                lemma_recreate_all_correct(dir0, operations@, state, artifact_directory@, h);
            }
            assert forall|dir0: Dir, h: spec_fn(usize) -> ArtifactHash| state.hashes_match(h) && state.sels_nonempty() && state.nonempty() implies
                dirs_ok((#[trigger] apply_all(dir0, operations@, operations@.len() as int, h))->Some_0, state, artifact_directory@) by {
                lemma_recreate_all_dirs(dir0, operations@, state, artifact_directory@, h);
            }
        }
//@end

//@fn rel=crates/artifact_content/src/file_system_state.rs name=diff within="impl FileSystemState" vis=pub ret=ops serves=C18
//@rw R6 R10
//@sub "in &new\.nested_files \{" => "in it1: new.nested_files.iter() {" n=1
//@sub "in new_selectable_map \{" => "in it2: new_selectable_map.iter() {" n=1
//@sub "in new_files \{" => "in it3: new_files.iter() {" n=1
//@sub "in &new\.root_files \{" => "in it4: new.root_files.iter() {" n=1
//@sub "in &old\.nested_files \{" => "in it5: old.nested_files.iter() {" n=1
//@sub "in old_selectable_map \{" => "in it6: old_selectable_map.iter() {" n=1
//@sub "for file_name in old_files\.keys\(\) \{" => "for (file_name, _) in it7: old_files.iter() {" n=1
//@sub "for file_name in old\.root_files\.keys\(\) \{" => "for (file_name, _) in it8: old.root_files.iter() {" n=1
//@sub "let mut new_server_object_entity_name_set = HashSet::new\(\);" => "let mut new_server_object_entity_name_set: HashSet<u64> = HashSet::new();" n=1
//@sub "let mut new_selectable_set = HashSet::new\(\);" => "let mut new_selectable_set: HashSet<(u64, u64)> = HashSet::new();" n=1
//@contract
        ensures
            // writes only for new or changed files (minimality), deletions only of what vanished
            all_justified(ops@, old, new, artifact_directory@), //@O C18.O-3a_diff_every_operation_is_justified_by_a_difference
            // every write lands in a directory that exists at that point of the plan
            writes_have_dirs(ops@, old, artifact_directory@), //@O C18.O-3b_diff_directory_exists_before_each_write
            // every new or changed file is written; directories of new selectables are created
            all_w(ops@, old, new, artifact_directory@), //@O C18.O-3c_diff_writes_every_new_or_changed_nested_file
            roots_w(ops@, old, new, artifact_directory@), //@O C18.O-3d_diff_writes_every_new_or_changed_root_file
            // everything that vanished is deleted
            all_d(ops@, old, new, artifact_directory@), //@O C18.O-3e_diff_deletes_every_vanished_nested_file_and_directory
            roots_d(ops@, old, new, artifact_directory@), //@O C18.O-3f_diff_deletes_every_vanished_root_file
            // hence (lemma_diff_correct, over the transcribed std::fs semantics): if the directory
            // held exactly the files of the old state and applying the plan does not fail, it
            // holds exactly the files of the new state
            // the plan writes first and deletes afterwards
            phased(ops@), //@O C18+C19.O-3g_diff_plan_writes_before_it_deletes
            // ... and deletes no file twice
            deletes_once(ops@), //@O C18+C19.O-3h_diff_plan_deletes_no_file_twice
            forall|dir0: Dir, h: spec_fn(usize) -> ArtifactHash|
                files_match(dir0, old, artifact_directory@) && names_disjoint(old, new) && new.hashes_match(h)
                && (#[trigger] apply_all(dir0, ops@, ops@.len() as int, h)) is Some
                ==> files_match(apply_all(dir0, ops@, ops@.len() as int, h)->Some_0, new, artifact_directory@), //@O C18.O-3_diff_plan_turns_the_old_directory_into_the_new_state
            // and it CANNOT fail by itself: on a directory that holds what the old state says (files
            // and directories), no operation hits a missing directory or a missing file; afterwards
            // the directories the new state implies exist
            forall|dir0: Dir, h: spec_fn(usize) -> ArtifactHash|
                files_match(dir0, old, artifact_directory@) && dirs_ok(dir0, old, artifact_directory@)
                && names_disjoint(old, new) && names_disjoint(old, old) && new.hashes_match(h)
                ==> (#[trigger] apply_all(dir0, ops@, ops@.len() as int, h)) is Some
                    && dirs_ok(apply_all(dir0, ops@, ops@.len() as int, h)->Some_0, new, artifact_directory@), //@O C18+C19.O-3s_diff_plan_cannot_fail_on_the_remembered_directory
//@before "let mut new_server_object_entity_name_set"
        proof { axiom_tuple_key_model(); }
//@loop 1
            invariant
                no_del(operations@),
                all_justified(operations@, old, new, artifact_directory@),
                writes_have_dirs(operations@, old, artifact_directory@),
                iter_ok(it1.seq(), new.nested_files@),
                forall|e: u64| #[trigger] new_server_object_entity_name_set@.contains(e) <==> (exists|k: int| 0 <= k < it1.index@ && *it1.seq()[k].0 == e),
                forall|e: u64, s: u64| #[trigger] new_selectable_set@.contains((e, s)) <==> (exists|k: int| 0 <= k < it1.index@ && *it1.seq()[k].0 == e && it1.seq()[k].1@.contains_key(s)),
                forall|k: int| 0 <= k < it1.index@ ==> ent_w(operations@, old, new, artifact_directory@, *(#[trigger] it1.seq()[k]).0),
//@loop 2
                invariant
                    no_del(operations@),
                    all_justified(operations@, old, new, artifact_directory@),
                    writes_have_dirs(operations@, old, artifact_directory@),
                    iter_ok(it1.seq(), new.nested_files@),
                    0 <= it1.index@ < it1.seq().len(),
                    *new_server_object_entity_name == *it1.seq()[it1.index@].0,
                    new.nested_files@.contains_key(*new_server_object_entity_name),
                    new.nested_files@[*new_server_object_entity_name] == *new_selectable_map,
                    new_server_object_path@ == ent_dir(artifact_directory@, *new_server_object_entity_name),
                    match old_selectables_for_object {
                        Some(m) => old.nested_files@.contains_key(*new_server_object_entity_name) && old.nested_files@[*new_server_object_entity_name] == *m,
                        None => !old.nested_files@.contains_key(*new_server_object_entity_name),
                    },
                    forall|e: u64| #[trigger] new_server_object_entity_name_set@.contains(e) <==> (exists|k: int| 0 <= k <= it1.index@ && *it1.seq()[k].0 == e),
                    forall|e: u64, s: u64| #[trigger] new_selectable_set@.contains((e, s)) <==>
                        ((exists|k: int| 0 <= k < it1.index@ && *it1.seq()[k].0 == e && it1.seq()[k].1@.contains_key(s))
                         || (e == *new_server_object_entity_name && exists|k2: int| 0 <= k2 < it2.index@ && *it2.seq()[k2].0 == s)),
                    forall|k: int| 0 <= k < it1.index@ ==> ent_w(operations@, old, new, artifact_directory@, *(#[trigger] it1.seq()[k]).0),
                    iter_ok(it2.seq(), new_selectable_map@),
                    forall|k2: int| 0 <= k2 < it2.index@ ==> sel_w(operations@, old, new, artifact_directory@, *new_server_object_entity_name, *(#[trigger] it2.seq()[k2]).0),
//@loop 3
                    invariant
                        no_del(operations@),
                        all_justified(operations@, old, new, artifact_directory@),
                        writes_have_dirs(operations@, old, artifact_directory@),
                        new.nested_files@.contains_key(*new_server_object_entity_name),
                        new.nested_files@[*new_server_object_entity_name] == *new_selectable_map,
                        new_selectable_map@.contains_key(*new_selectable),
                        new_selectable_map@[*new_selectable] == *new_files,
                        new_selectable_path@ == sel_dir(artifact_directory@, *new_server_object_entity_name, *new_selectable),
                        match old_files_for_selectable {
                            Some(m) => old.has_sel(*new_server_object_entity_name, *new_selectable) && old.nested_files@[*new_server_object_entity_name]@[*new_selectable] == *m,
                            None => !old.has_sel(*new_server_object_entity_name, *new_selectable),
                        },
                        !old.has_sel(*new_server_object_entity_name, *new_selectable) ==>
                            emits_before(operations@, OpV::CreateDirectory(new_selectable_path@), operations@.len() as int),
                        !old.has_sel(*new_server_object_entity_name, *new_selectable) ==>
                            emits(operations@, OpV::CreateDirectory(new_selectable_path@)),
                        forall|k: int| 0 <= k < it1.index@ ==> ent_w(operations@, old, new, artifact_directory@, *(#[trigger] it1.seq()[k]).0),
                        forall|k2: int| 0 <= k2 < it2.index@ ==> sel_w(operations@, old, new, artifact_directory@, *new_server_object_entity_name, *(#[trigger] it2.seq()[k2]).0),
                        iter_ok(it3.seq(), new_files@),
                        forall|k3: int| 0 <= k3 < it3.index@ ==> file_w(operations@, old, new, artifact_directory@, *new_server_object_entity_name, *new_selectable, *(#[trigger] it3.seq()[k3]).0),
//@before "new_selectable_set.insert("
                    proof { axiom_tuple_key_model(); }
                    let ghost set2_before = new_selectable_set@;
//@after "new_selectable_set.insert("
                    proof {
                        let e0 = *new_server_object_entity_name; let s0 = *new_selectable;
                        assert(new_selectable_set@ == set2_before.insert((e0, s0)));
                        assert(*it2.seq()[it2.index@].0 == s0);
                    }
//@before "if !new_selectable_set.contains("
                    proof { axiom_tuple_key_model(); }
//@before "operations.push(FileSystemOperation::CreateDirectory("
                    let ghost o1 = operations@;
//@after "operations.push(FileSystemOperation::CreateDirectory("
                    proof {
                        let pushed = operations@[operations@.len() - 1];
                        assert(operations@ == o1.push(pushed));
                        assert(new.has_sel(*new_server_object_entity_name, *new_selectable));
                        assert(opv(pushed) == OpV::CreateDirectory(sel_dir(artifact_directory@, *new_server_object_entity_name, *new_selectable)));
                        lemma_push_diff(o1, pushed, old, new, artifact_directory@);
                        lemma_push_mono_diff(o1, pushed, old, new, artifact_directory@);
                        lemma_push_phase(o1, pushed);
                        lemma_push_once(o1, pushed);
                    }
//@before "operations.push(FileSystemOperation::WriteFile(" nth=0
                        let ghost o2 = operations@;
//@after "operations.push(FileSystemOperation::WriteFile(" nth=0
                        proof {
                            let e = *new_server_object_entity_name; let s = *new_selectable; let f = *new_file_name;
                            let pushed = operations@[operations@.len() - 1];
                            assert(operations@ == o2.push(pushed));
                            assert(new.has_nested(e, s, f));
                            assert(nested_needs_write(old, new, e, s, f));
                            assert(new_file_path@ == nested_path(artifact_directory@, e, s, f));
                            assert(new_file_path@.drop_last() == new_selectable_path@);
                            assert(opv(pushed) == OpV::WriteFile(nested_path(artifact_directory@, e, s, f), new.nested_idx(e, s, f)));
                            lemma_push_diff(o2, pushed, old, new, artifact_directory@);
                            lemma_push_mono_diff(o2, pushed, old, new, artifact_directory@);
                            lemma_push_phase(o2, pushed);
                            lemma_push_once(o2, pushed);
                        }
//@loop 4
            invariant
                no_del(operations@),
                all_justified(operations@, old, new, artifact_directory@),
                writes_have_dirs(operations@, old, artifact_directory@),
                all_w(operations@, old, new, artifact_directory@),
                forall|e: u64| #[trigger] new_server_object_entity_name_set@.contains(e) <==> new.has_entity(e),
                forall|e: u64, s: u64| #[trigger] new_selectable_set@.contains((e, s)) <==> new.has_sel(e, s),
                iter_ok(it4.seq(), new.root_files@),
                forall|k: int| 0 <= k < it4.index@ ==> root_w(operations@, old, new, artifact_directory@, *(#[trigger] it4.seq()[k]).0),
//@before "operations.push(FileSystemOperation::WriteFile(" nth=1
                let ghost o3 = operations@;
//@after "operations.push(FileSystemOperation::WriteFile(" nth=1
                proof {
                    let f = *new_file_name;
                    let pushed = operations@[operations@.len() - 1];
                    assert(operations@ == o3.push(pushed));
                    assert(new.has_root(f) && root_needs_write(old, new, f));
                    assert(new_file_path@ == root_path(artifact_directory@, f));
                    assert(new_file_path@.drop_last() == artifact_directory@);
                    assert(opv(pushed) == OpV::WriteFile(root_path(artifact_directory@, f), new.root_idx(f)));
                    lemma_push_diff(o3, pushed, old, new, artifact_directory@);
                    lemma_push_mono_diff(o3, pushed, old, new, artifact_directory@);
                    lemma_push_phase(o3, pushed);
                    lemma_push_once(o3, pushed);
                }
//@loop 5
            invariant
                deletes_once(operations@),
                forall|i: int| 0 <= i < operations@.len() && (#[trigger] at(operations@, i)) is DeleteFile ==>
                    del3(at(operations@, i), artifact_directory@) && vis(it5.seq(), it5.index@, dcomp(at(operations@, i), artifact_directory@, 0)),
                phased(operations@),
                all_justified(operations@, old, new, artifact_directory@),
                writes_have_dirs(operations@, old, artifact_directory@),
                all_w(operations@, old, new, artifact_directory@),
                roots_w(operations@, old, new, artifact_directory@),
                forall|e: u64| #[trigger] new_server_object_entity_name_set@.contains(e) <==> new.has_entity(e),
                forall|e: u64, s: u64| #[trigger] new_selectable_set@.contains((e, s)) <==> new.has_sel(e, s),
                iter_ok(it5.seq(), old.nested_files@),
                forall|k: int| 0 <= k < it5.index@ ==> ent_d(operations@, old, new, artifact_directory@, *(#[trigger] it5.seq()[k]).0),
//@loop 6
                invariant
                    deletes_once(operations@),
                    iter_ok(it5.seq(), old.nested_files@), 0 <= it5.index@ < it5.seq().len(),
                    *old_server_object_entity_name == *it5.seq()[it5.index@].0,
                    forall|i: int| 0 <= i < operations@.len() && (#[trigger] at(operations@, i)) is DeleteFile ==>
                        del3(at(operations@, i), artifact_directory@) && (vis(it5.seq(), it5.index@, dcomp(at(operations@, i), artifact_directory@, 0))
                            || (dcomp(at(operations@, i), artifact_directory@, 0) == *old_server_object_entity_name as int && vis(it6.seq(), it6.index@, dcomp(at(operations@, i), artifact_directory@, 1)))),
                    phased(operations@),
                    all_justified(operations@, old, new, artifact_directory@),
                    writes_have_dirs(operations@, old, artifact_directory@),
                    all_w(operations@, old, new, artifact_directory@),
                    roots_w(operations@, old, new, artifact_directory@),
                    forall|e: u64| #[trigger] new_server_object_entity_name_set@.contains(e) <==> new.has_entity(e),
                    forall|e: u64, s: u64| #[trigger] new_selectable_set@.contains((e, s)) <==> new.has_sel(e, s),
                    old.nested_files@.contains_key(*old_server_object_entity_name),
                    old.nested_files@[*old_server_object_entity_name] == *old_selectable_map,
                    new.has_entity(*old_server_object_entity_name),
                    old_server_object_path@ == ent_dir(artifact_directory@, *old_server_object_entity_name),
                    match new_selectable_map_for_object {
                        Some(m) => new.nested_files@[*old_server_object_entity_name] == *m,
                        None => false,
                    },
                    forall|k: int| 0 <= k < it5.index@ ==> ent_d(operations@, old, new, artifact_directory@, *(#[trigger] it5.seq()[k]).0),
                    iter_ok(it6.seq(), old_selectable_map@),
                    forall|k2: int| 0 <= k2 < it6.index@ ==> sel_d(operations@, old, new, artifact_directory@, *old_server_object_entity_name, *(#[trigger] it6.seq()[k2]).0),
//@loop 7
                    invariant
                        deletes_once(operations@),
                        iter_ok(it5.seq(), old.nested_files@), 0 <= it5.index@ < it5.seq().len(),
                        *old_server_object_entity_name == *it5.seq()[it5.index@].0,
                        iter_ok(it6.seq(), old_selectable_map@), 0 <= it6.index@ < it6.seq().len(),
                        *old_selectable == *it6.seq()[it6.index@].0,
                        forall|i: int| 0 <= i < operations@.len() && (#[trigger] at(operations@, i)) is DeleteFile ==>
                            del3(at(operations@, i), artifact_directory@) && (vis(it5.seq(), it5.index@, dcomp(at(operations@, i), artifact_directory@, 0))
                                || (dcomp(at(operations@, i), artifact_directory@, 0) == *old_server_object_entity_name as int && (vis(it6.seq(), it6.index@, dcomp(at(operations@, i), artifact_directory@, 1))
                                    || (dcomp(at(operations@, i), artifact_directory@, 1) == *old_selectable as int && vis(it7.seq(), it7.index@, dcomp(at(operations@, i), artifact_directory@, 2)))))),
                        phased(operations@),
                        all_justified(operations@, old, new, artifact_directory@),
                        writes_have_dirs(operations@, old, artifact_directory@),
                        all_w(operations@, old, new, artifact_directory@),
                        roots_w(operations@, old, new, artifact_directory@),
                        old.nested_files@.contains_key(*old_server_object_entity_name),
                        old.nested_files@[*old_server_object_entity_name] == *old_selectable_map,
                        old_selectable_map@.contains_key(*old_selectable),
                        old_selectable_map@[*old_selectable] == *old_files,
                        new.has_sel(*old_server_object_entity_name, *old_selectable),
                        old_selectable_path@ == sel_dir(artifact_directory@, *old_server_object_entity_name, *old_selectable),
                        match new_files_for_selectable {
                            Some(m) => new.nested_files@[*old_server_object_entity_name]@[*old_selectable] == *m,
                            None => false,
                        },
                        forall|k: int| 0 <= k < it5.index@ ==> ent_d(operations@, old, new, artifact_directory@, *(#[trigger] it5.seq()[k]).0),
                        forall|k2: int| 0 <= k2 < it6.index@ ==> sel_d(operations@, old, new, artifact_directory@, *old_server_object_entity_name, *(#[trigger] it6.seq()[k2]).0),
                        iter_ok(it7.seq(), old_files@),
                        forall|k3: int| 0 <= k3 < it7.index@ ==> file_d(operations@, old, new, artifact_directory@, *old_server_object_entity_name, *old_selectable, *(#[trigger] it7.seq()[k3]).0),
//@before "operations.push(FileSystemOperation::DeleteDirectory(old_server_object_path)"
                let ghost o4 = operations@;
//@after "operations.push(FileSystemOperation::DeleteDirectory(old_server_object_path)"
                proof {
                    let e = *old_server_object_entity_name;
                    let pushed = operations@[operations@.len() - 1];
                    assert(operations@ == o4.push(pushed));
                    assert(old.has_entity(e) && !new.has_entity(e));
                    assert(opv(pushed) == OpV::DeleteDirectory(ent_dir(artifact_directory@, e)));
                    lemma_push_diff(o4, pushed, old, new, artifact_directory@);
                    lemma_push_mono_diff(o4, pushed, old, new, artifact_directory@);
                    lemma_push_phase(o4, pushed);
                    lemma_push_once(o4, pushed);
                }
//@before "operations.push(FileSystemOperation::DeleteDirectory(old_selectable_path)"
                    let ghost o5 = operations@;
//@after "operations.push(FileSystemOperation::DeleteDirectory(old_selectable_path)"
                    proof {
                        let e = *old_server_object_entity_name; let s = *old_selectable;
                        let pushed = operations@[operations@.len() - 1];
                        assert(operations@ == o5.push(pushed));
                        assert(old.has_sel(e, s) && new.has_entity(e) && !new.has_sel(e, s));
                        assert(opv(pushed) == OpV::DeleteDirectory(sel_dir(artifact_directory@, e, s)));
                        lemma_push_diff(o5, pushed, old, new, artifact_directory@);
                        lemma_push_mono_diff(o5, pushed, old, new, artifact_directory@);
                        lemma_push_phase(o5, pushed);
                        lemma_push_once(o5, pushed);
                    }
//@before "operations.push(FileSystemOperation::DeleteFile(" nth=0
                            let ghost o6 = operations@;
//@after "operations.push(FileSystemOperation::DeleteFile(" nth=0
                            proof {
                                let e = *old_server_object_entity_name; let s = *old_selectable; let f = *file_name;
                                let pushed = operations@[operations@.len() - 1];
                                assert(operations@ == o6.push(pushed));
                                assert(old.has_nested(e, s, f) && new.has_sel(e, s) && !new.has_nested(e, s, f));
                                assert(opv(pushed) == OpV::DeleteFile(nested_path(artifact_directory@, e, s, f)));
                                lemma_push_diff(o6, pushed, old, new, artifact_directory@);
                                lemma_push_mono_diff(o6, pushed, old, new, artifact_directory@);
                                lemma_push_phase(o6, pushed);
                                lemma_paths(artifact_directory@, e, s, f);
                                assert forall|i: int| 0 <= i < o6.len() && (#[trigger] at(o6, i)) is DeleteFile implies at(o6, i)->DeleteFile_0 != nested_path(artifact_directory@, e, s, f) by {
                                    if at(o6, i)->DeleteFile_0 == nested_path(artifact_directory@, e, s, f) {
                                        let x = at(o6, i);
                                        assert(dcomp(x, artifact_directory@, 0) == e as int && dcomp(x, artifact_directory@, 1) == s as int && dcomp(x, artifact_directory@, 2) == f as int);
                                        if vis(it5.seq(), it5.index@, e as int) {
                                            lemma_vis_fresh(it5.seq(), old.nested_files@, it5.index@);
                                        } else if vis(it6.seq(), it6.index@, s as int) {
                                            lemma_vis_fresh(it6.seq(), old_selectable_map@, it6.index@);
                                        } else {
                                            lemma_vis_fresh(it7.seq(), old_files@, it7.index@);
                                        }
                                    }
                                }
                                lemma_push_once(o6, pushed);
                                assert(vis(it7.seq(), it7.index@ + 1, f as int)) by { assert(*it7.seq()[it7.index@].0 as int == f as int); }
                                assert forall|i: int| 0 <= i < operations@.len() && (#[trigger] at(operations@, i)) is DeleteFile implies
                                    del3(at(operations@, i), artifact_directory@) && (vis(it5.seq(), it5.index@, dcomp(at(operations@, i), artifact_directory@, 0))
                                        || (dcomp(at(operations@, i), artifact_directory@, 0) == e as int && (vis(it6.seq(), it6.index@, dcomp(at(operations@, i), artifact_directory@, 1))
                                            || (dcomp(at(operations@, i), artifact_directory@, 1) == s as int && vis(it7.seq(), it7.index@ + 1, dcomp(at(operations@, i), artifact_directory@, 2)))))) by {
                                    if i < o6.len() { assert(at(operations@, i) == at(o6, i)); lemma_vis_mono(it7.seq(), it7.index@, dcomp(at(o6, i), artifact_directory@, 2)); }
                                }
                            }
//@loop 8
            invariant
                deletes_once(operations@),
                forall|i: int| 0 <= i < operations@.len() && (#[trigger] at(operations@, i)) is DeleteFile ==>
                    del3(at(operations@, i), artifact_directory@) || (del1(at(operations@, i), artifact_directory@) && vis(it8.seq(), it8.index@, at(operations@, i)->DeleteFile_0.last())),
                phased(operations@),
                all_justified(operations@, old, new, artifact_directory@),
                writes_have_dirs(operations@, old, artifact_directory@),
                all_w(operations@, old, new, artifact_directory@),
                roots_w(operations@, old, new, artifact_directory@),
                all_d(operations@, old, new, artifact_directory@),
                iter_ok(it8.seq(), old.root_files@),
                forall|k: int| 0 <= k < it8.index@ ==> root_d(operations@, old, new, artifact_directory@, *(#[trigger] it8.seq()[k]).0),
//@before "operations.push(FileSystemOperation::DeleteFile(" nth=1
                let ghost o7 = operations@;
//@after "operations.push(FileSystemOperation::DeleteFile(" nth=1
                proof {
                    let f = *file_name;
                    let pushed = operations@[operations@.len() - 1];
                    assert(operations@ == o7.push(pushed));
                    assert(old.has_root(f) && !new.has_root(f));
                    assert(opv(pushed) == OpV::DeleteFile(root_path(artifact_directory@, f)));
                    lemma_push_diff(o7, pushed, old, new, artifact_directory@);
                    lemma_push_mono_diff(o7, pushed, old, new, artifact_directory@);
                    lemma_push_phase(o7, pushed);
                    lemma_paths(artifact_directory@, 0, 0, f);
                    assert forall|i: int| 0 <= i < o7.len() && (#[trigger] at(o7, i)) is DeleteFile implies at(o7, i)->DeleteFile_0 != root_path(artifact_directory@, f) by {
                        if at(o7, i)->DeleteFile_0 == root_path(artifact_directory@, f) {
                            assert(del1(at(o7, i), artifact_directory@));
                            lemma_vis_fresh(it8.seq(), old.root_files@, it8.index@);
                        }
                    }
                    lemma_push_once(o7, pushed);
                    assert(vis(it8.seq(), it8.index@ + 1, f as int)) by { assert(*it8.seq()[it8.index@].0 as int == f as int); }
                    assert forall|i: int| 0 <= i < operations@.len() && (#[trigger] at(operations@, i)) is DeleteFile implies
                        del3(at(operations@, i), artifact_directory@) || (del1(at(operations@, i), artifact_directory@) && vis(it8.seq(), it8.index@ + 1, at(operations@, i)->DeleteFile_0.last())) by {
                        if i < o7.len() { assert(at(operations@, i) == at(o7, i)); if !del3(at(o7, i), artifact_directory@) { lemma_vis_mono(it8.seq(), it8.index@, at(o7, i)->DeleteFile_0.last()); } }
                    }
                }
//@atend
        proof {
            assert forall|dir0: Dir, h: spec_fn(usize) -> ArtifactHash|
                files_match(dir0, old, artifact_directory@) && names_disjoint(old, new) && new.hashes_match(h)
                && (#[trigger] apply_all(dir0, operations@, operations@.len() as int, h)) is Some
                implies files_match(apply_all(dir0, operations@, operations@.len() as int, h)->Some_0, new, artifact_directory@) by {
                lemma_diff_correct(dir0, operations@, old, new, artifact_directory@, h);
            }
            assert forall|dir0: Dir, h: spec_fn(usize) -> ArtifactHash|
                files_match(dir0, old, artifact_directory@) && dirs_ok(dir0, old, artifact_directory@)
                && names_disjoint(old, new) && names_disjoint(old, old) && new.hashes_match(h)
                implies (#[trigger] apply_all(dir0, operations@, operations@.len() as int, h)) is Some
                    && dirs_ok(apply_all(dir0, operations@, operations@.len() as int, h)->Some_0, new, artifact_directory@) by {
                lemma_diff_dirs(dir0, operations@, old, new, artifact_directory@, h);
            }
        }
//@end

}

// ---------------- From<&[ArtifactPathAndContent]>: the state reflects the artifact list ----------------
//@item rel=crates/common_lang_types/src/entity_and_selectable_name.rs kind=struct name=EntityNameAndSelectableName prefix="#[derive(Clone, Copy)] pub"
//@item rel=crates/common_lang_types/src/path_and_content.rs kind=struct name=ArtifactPath prefix="pub"
//@item rel=crates/common_lang_types/src/path_and_content.rs kind=struct name=ArtifactPathAndContent prefix="pub"
pub enum PersistedDocumentsHashAlgorithm { Md5, Sha256 }
/// md5 of the content (operation_text::hash + ArtifactHash::from): an uninterpreted
/// function of the content; equal hashes are taken to mean equal contents (assumption)
pub uninterp spec fn content_hash(c: FileContent) -> ArtifactHash;
pub struct HashString { pub h: ArtifactHash }
#[verifier::external_body]
pub fn hash(data: &FileContent, algorithm: PersistedDocumentsHashAlgorithm) -> (r: HashString)
    ensures r.h == content_hash(*data)
{ unimplemented!() }
impl ArtifactHash {
    pub fn from(s: HashString) -> (r: ArtifactHash) ensures r == s.h { s.h }
}
/// std HashMap::entry(k).or_default() for the two nesting levels of `nested_files`
#[verifier::external_body]
pub fn entry_or_default_1<'a>(m: &'a mut HashMap<u64, HashMap<u64, HashMap<u64, (Index<FileContent>, ArtifactHash)>>>, k: u64)
    -> (r: &'a mut HashMap<u64, HashMap<u64, (Index<FileContent>, ArtifactHash)>>)
    ensures
        old(m)@.contains_key(k) ==> *r == old(m)@[k],
        !old(m)@.contains_key(k) ==> r@ == Map::<u64, HashMap<u64, (Index<FileContent>, ArtifactHash)>>::empty(),
        final(m)@ == old(m)@.insert(k, *final(r)),
{ unimplemented!() }
#[verifier::external_body]
pub fn entry_or_default_2<'a>(m: &'a mut HashMap<u64, HashMap<u64, (Index<FileContent>, ArtifactHash)>>, k: u64)
    -> (r: &'a mut HashMap<u64, (Index<FileContent>, ArtifactHash)>)
    ensures
        old(m)@.contains_key(k) ==> *r == old(m)@[k],
        !old(m)@.contains_key(k) ==> r@ == Map::<u64, (Index<FileContent>, ArtifactHash)>::empty(),
        final(m)@ == old(m)@.insert(k, *final(r)),
{ unimplemented!() }

pub open spec fn art_root(a: ArtifactPathAndContent) -> bool { a.artifact_path.type_and_field is None }
pub open spec fn art_e(a: ArtifactPathAndContent) -> u64 { a.artifact_path.type_and_field->Some_0.parent_entity_name }
pub open spec fn art_s(a: ArtifactPathAndContent) -> u64 { a.artifact_path.type_and_field->Some_0.selectable_name }
pub open spec fn art_f(a: ArtifactPathAndContent) -> u64 { a.artifact_path.file_name }
pub open spec fn same_path(a: ArtifactPathAndContent, b: ArtifactPathAndContent) -> bool {
    art_f(a) == art_f(b) && art_root(a) == art_root(b) && (!art_root(a) ==> art_e(a) == art_e(b) && art_s(a) == art_s(b))
}
/// artifact i is the last one with its path among the first n (later duplicates win)
pub open spec fn last_of_path(arts: Seq<ArtifactPathAndContent>, n: int, i: int) -> bool {
    0 <= i < n && forall|j: int| i < j < n ==> !same_path(arts[i], #[trigger] arts[j])
}
/// Rust: a slice never has more than usize::MAX elements
#[verifier::external_body]
pub proof fn axiom_slice_len<T>(s: &[T]) ensures s@.len() <= usize::MAX {}

pub open spec fn nhas(nf: EntMap, e: u64, s: u64, f: u64) -> bool {
    nf.contains_key(e) && nf[e]@.contains_key(s) && nf[e]@[s]@.contains_key(f)
}
pub open spec fn nval(nf: EntMap, e: u64, s: u64, f: u64) -> (Index<FileContent>, ArtifactHash) { nf[e]@[s]@[f] }
/// effect of `nested.entry(e).or_default().entry(s).or_default().insert(f, v)` on the
/// three-level map, stated for all keys
pub proof fn lemma_nested_insert(o: EntMap, n: EntMap, e: u64, s: u64, f: u64, v: (Index<FileContent>, ArtifactHash),
    m1: HashMap<u64, HashMap<u64, (Index<FileContent>, ArtifactHash)>>, m2: HashMap<u64, (Index<FileContent>, ArtifactHash)>)
    requires
        n == o.insert(e, m1),
        m1@ == (if o.contains_key(e) { o[e]@ } else { Map::empty() }).insert(s, m2),
        m2@ == (if o.contains_key(e) && o[e]@.contains_key(s) { o[e]@[s]@ } else { Map::empty() }).insert(f, v),
    ensures
        forall|e2: u64, s2: u64, f2: u64| #[trigger] nhas(n, e2, s2, f2) <==> (nhas(o, e2, s2, f2) || (e2 == e && s2 == s && f2 == f)),
        forall|e2: u64, s2: u64, f2: u64| nhas(o, e2, s2, f2) && !(e2 == e && s2 == s && f2 == f) ==> #[trigger] nval(n, e2, s2, f2) == nval(o, e2, s2, f2),
        nval(n, e, s, f) == v,
        forall|e2: u64, s2: u64| (n.contains_key(e2) && #[trigger] n[e2]@.contains_key(s2)) <==> ((o.contains_key(e2) && o[e2]@.contains_key(s2)) || (e2 == e && s2 == s)),
{
    assert forall|e2: u64, s2: u64| (n.contains_key(e2) && #[trigger] n[e2]@.contains_key(s2)) <==> ((o.contains_key(e2) && o[e2]@.contains_key(s2)) || (e2 == e && s2 == s)) by {
        if e2 == e { assert(n[e2] == m1); }
    }
    assert forall|e2: u64, s2: u64, f2: u64| #[trigger] nhas(n, e2, s2, f2) <==> (nhas(o, e2, s2, f2) || (e2 == e && s2 == s && f2 == f)) by {
        if e2 == e {
            assert(n[e2] == m1);
            if s2 == s { assert(m1@[s2] == m2); }
        }
    }
    assert forall|e2: u64, s2: u64, f2: u64| nhas(o, e2, s2, f2) && !(e2 == e && s2 == s && f2 == f) implies #[trigger] nval(n, e2, s2, f2) == nval(o, e2, s2, f2) by {
        if e2 == e {
            assert(n[e2] == m1);
            if s2 == s { assert(m1@[s2] == m2); }
        }
    }
    assert(n[e] == m1 && m1@[s] == m2);
}

impl FileSystemState {
    /// the state holds exactly the (last) artifact of every path among the first n, with its
    /// index in the artifact list and the hash of its content
    pub open spec fn reflects(&self, arts: Seq<ArtifactPathAndContent>, n: int) -> bool {
        &&& forall|f: u64| #[trigger] self.has_root(f) ==> {
                let i = self.root_idx(f) as int;
                last_of_path(arts, n, i) && art_root(arts[i]) && art_f(arts[i]) == f && self.root_hash(f) == content_hash(arts[i].file_content)
            }
        &&& forall|e: u64, s: u64, f: u64| #[trigger] self.has_nested(e, s, f) ==> {
                let i = self.nested_idx(e, s, f) as int;
                last_of_path(arts, n, i) && !art_root(arts[i]) && art_e(arts[i]) == e && art_s(arts[i]) == s && art_f(arts[i]) == f
                    && self.nested_hash(e, s, f) == content_hash(arts[i].file_content)
            }
        &&& forall|i: int| #[trigger] last_of_path(arts, n, i) ==>
                (art_root(arts[i]) ==> self.has_root(art_f(arts[i])) && self.root_idx(art_f(arts[i])) == i)
                && (!art_root(arts[i]) ==> self.has_nested(art_e(arts[i]), art_s(arts[i]), art_f(arts[i]))
                    && self.nested_idx(art_e(arts[i]), art_s(arts[i]), art_f(arts[i])) == i)
    }
    /// no selectable without a file (the state is built from files; an empty selectable would
    /// stand for a directory nobody created)
    pub open spec fn sels_nonempty(&self) -> bool {
        forall|e: u64, s: u64| #[trigger] self.has_sel(e, s) ==> exists|f: u64| self.has_nested(e, s, f)
    }
    /// the state holds at least one file
    pub open spec fn nonempty(&self) -> bool {
        (exists|f: u64| self.has_root(f)) || (exists|e: u64, s: u64, f: u64| self.has_nested(e, s, f))
    }
    /// every content index stored in the state addresses the artifact list
    pub open spec fn indices_below(&self, n: int) -> bool {
        &&& forall|f: u64| #[trigger] self.has_root(f) ==> self.root_idx(f) < n
        &&& forall|e: u64, s: u64, f: u64| #[trigger] self.has_nested(e, s, f) ==> self.nested_idx(e, s, f) < n
    }

//@fn rel=crates/artifact_content/src/file_system_state.rs name=from within="impl From<&[ArtifactPathAndContent]> for FileSystemState" vis=pub ret=r rename=from_artifacts serves=C18
//@rw R14 R4
//@hsub "-> Self" => "-> FileSystemState"
//@sub "let mut root_files = HashMap::new\(\);" => "let mut root_files: HashMap<u64, (Index<FileContent>, ArtifactHash)> = HashMap::new();" n=1
//@sub "for artifact in artifacts\.iter\(\) \{" => "for artifact in ita: artifacts.iter() {" n=1
//@sub "nested_files\s*\.entry\(type_and_field\.parent_entity_name\)\s*\.or_default\(\)\s*\.entry\(type_and_field\.selectable_name\)\s*\.or_default\(\)\s*\.insert\(" => "entry_or_default_2(entry_or_default_1(&mut nested_files, type_and_field.parent_entity_name), type_and_field.selectable_name).insert(" n=1
//@contract
        ensures
            r.reflects(artifacts@, artifacts@.len() as int), //@O C18.O-1_state_reflects_the_artifact_list
            r.indices_below(artifacts@.len() as int), //@O C18.O-1_state_indices_address_the_artifact_list
            r.sels_nonempty(), //@O C18.O-1_every_selectable_of_the_state_holds_a_file
//@loop 1
            invariant
                index == ita.index@,
                ita.seq().len() == artifacts@.len(),
                forall|k: int| 0 <= k < ita.seq().len() ==> *(#[trigger] ita.seq()[k]) == artifacts@[k],
                index <= artifacts@.len(), artifacts@.len() <= usize::MAX,
                (FileSystemState { root_files, nested_files }).reflects(artifacts@, index as int),
                (FileSystemState { root_files, nested_files }).sels_nonempty(),
//@before "let mut root_files"
        proof { axiom_slice_len(artifacts); }
//@bodystart 1
            let ghost rf0 = root_files@;
            let ghost nf0 = nested_files@;
            let ghost st0 = FileSystemState { root_files, nested_files };
            proof { assert(index < artifacts@.len()); assert(*artifact == artifacts@[index as int]); }
//@after "root_files.insert(artifact.artifact_path.file_name, value);" opt
                    proof { assert(root_files@ == rf0.insert(artifact.artifact_path.file_name, value)); assert(nested_files@ == nf0); }
//@after "entry_or_default_2(entry_or_default_1(" opt
                    proof {
                        let e = type_and_field.parent_entity_name; let s = type_and_field.selectable_name; let f = artifact.artifact_path.file_name;
                        let m1 = nested_files@[e]; let m2 = m1@[s];
                        assert(root_files@ == rf0);
                        lemma_nested_insert(nf0, nested_files@, e, s, f, value, m1, m2);
                    }
//@before "index += 1;"
            proof {
                let arts = artifacts@; let k = index as int; let a = arts[k];
                let st = FileSystemState { root_files, nested_files };
                assert(st0.reflects(arts, k));
                assert(value.0.idx == k && value.1 == content_hash(a.file_content));
                if art_root(a) {
                    assert(st.root_files@ == st0.root_files@.insert(art_f(a), value));
                    assert(st.nested_files@ == st0.nested_files@);
                    assert forall|e2: u64, s2: u64, f2: u64| st.has_nested(e2, s2, f2) == st0.has_nested(e2, s2, f2) by {}
                } else {
                    assert(st.root_files@ == st0.root_files@);
                    assert forall|e2: u64, s2: u64, f2: u64| st.has_nested(e2, s2, f2) == nhas(st.nested_files@, e2, s2, f2) by {}
                    assert forall|e2: u64, s2: u64, f2: u64| st0.has_nested(e2, s2, f2) == nhas(st0.nested_files@, e2, s2, f2) by {}
                }
                // later artifacts never disturb an entry of a different path
                assert forall|i: int| 0 <= i < k && last_of_path(arts, k, i) && !same_path(arts[i], a) implies #[trigger] last_of_path(arts, k + 1, i) by {
                    assert forall|j: int| i < j < k + 1 implies !same_path(arts[i], #[trigger] arts[j]) by {}
                }
                assert(last_of_path(arts, k + 1, k));
                assert forall|i: int| #[trigger] last_of_path(arts, k + 1, i) implies (i == k || (last_of_path(arts, k, i) && !same_path(arts[i], a))) by {
                    if i != k {
                        assert(!same_path(arts[i], arts[k]));
                        assert forall|j: int| i < j < k implies !same_path(arts[i], #[trigger] arts[j]) by {}
                    }
                }
                // roots
                assert forall|f2: u64| #[trigger] st.has_root(f2) implies ({
                        let i = st.root_idx(f2) as int;
                        last_of_path(arts, k + 1, i) && art_root(arts[i]) && art_f(arts[i]) == f2 && st.root_hash(f2) == content_hash(arts[i].file_content)
                    }) by {
                    if art_root(a) && f2 == art_f(a) {
                    } else {
                        assert(st0.has_root(f2));
                        let i = st0.root_idx(f2) as int;
                        assert(!same_path(arts[i], a));
                    }
                }
                // nested
                assert forall|e2: u64, s2: u64, f2: u64| #[trigger] st.has_nested(e2, s2, f2) implies ({
                        let i = st.nested_idx(e2, s2, f2) as int;
                        last_of_path(arts, k + 1, i) && !art_root(arts[i]) && art_e(arts[i]) == e2 && art_s(arts[i]) == s2 && art_f(arts[i]) == f2
                            && st.nested_hash(e2, s2, f2) == content_hash(arts[i].file_content)
                    }) by {
                    if !art_root(a) && e2 == art_e(a) && s2 == art_s(a) && f2 == art_f(a) {
                        assert(nval(st.nested_files@, e2, s2, f2) == value);
                    } else {
                        assert(st0.has_nested(e2, s2, f2));
                        if !art_root(a) { assert(nval(st.nested_files@, e2, s2, f2) == nval(st0.nested_files@, e2, s2, f2)); }
                        let i = st0.nested_idx(e2, s2, f2) as int;
                        assert(!same_path(arts[i], a));
                    }
                }
                // completeness
                assert forall|i: int| #[trigger] last_of_path(arts, k + 1, i) implies
                    ((art_root(arts[i]) ==> st.has_root(art_f(arts[i])) && st.root_idx(art_f(arts[i])) == i)
                    && (!art_root(arts[i]) ==> st.has_nested(art_e(arts[i]), art_s(arts[i]), art_f(arts[i]))
                        && st.nested_idx(art_e(arts[i]), art_s(arts[i]), art_f(arts[i])) == i)) by {
                    if i == k {
                        if !art_root(a) { assert(nval(st.nested_files@, art_e(a), art_s(a), art_f(a)) == value); }
                    } else {
                        assert(last_of_path(arts, k, i) && !same_path(arts[i], a));
                        if !art_root(arts[i]) {
                            assert(st0.has_nested(art_e(arts[i]), art_s(arts[i]), art_f(arts[i])));
                            if !art_root(a) { assert(nval(st.nested_files@, art_e(arts[i]), art_s(arts[i]), art_f(arts[i])) == nval(st0.nested_files@, art_e(arts[i]), art_s(arts[i]), art_f(arts[i]))); }
                        }
                    }
                }
                assert(st.reflects(arts, k + 1));
                assert forall|e2: u64, s2: u64| #[trigger] st.has_sel(e2, s2) implies exists|f2: u64| st.has_nested(e2, s2, f2) by {
                    if !art_root(a) && e2 == art_e(a) && s2 == art_s(a) {
                        assert(st.has_nested(e2, s2, art_f(a)));
                    } else {
                        assert(st0.has_sel(e2, s2));
                        let f2 = choose|f2: u64| st0.has_nested(e2, s2, f2);
                        assert(st.has_nested(e2, s2, f2));
                    }
                }
            }
//@end
}

// ---------------- apply_file_system_operations (write_artifacts.rs): std::fs calls assumed ----------------
#[verifier::external_body]
pub struct IoError { p: core::marker::PhantomData<u8> }
impl IoError {
    /// `&e.to_string()`
    #[verifier::external_body]
    pub fn message(&self) -> (r: &str) { unimplemented!() }
}
#[verifier::external_body]
pub struct LocationFreeDiagnostic { p: core::marker::PhantomData<u8> }
pub type LocationFreeDiagnosticResult<T> = Result<T, LocationFreeDiagnostic>;
#[verifier::external_body]
pub fn unable_to_do_something_at_path_diagnostic(path: &PathBuf, message: &str, what: &str) -> LocationFreeDiagnostic { unimplemented!() }
impl Path {
    #[verifier::external_body]
    pub fn exists(&self) -> bool { unimplemented!() }
}
impl FileContent {
    #[verifier::external_body]
    pub fn as_bytes(&self) -> (r: &[u8]) { unimplemented!() }
}
/// std::fs — effects on the real file system are outside the verifier; only the
/// control flow around these calls is under contract
pub mod fs {
    use super::*;
    #[verifier::external_body]
    pub fn remove_dir_all(p: PathBuf) -> Result<(), IoError> { unimplemented!() }
    #[verifier::external_body]
    pub fn create_dir_all(p: PathBuf) -> Result<(), IoError> { unimplemented!() }
    #[verifier::external_body]
    pub fn write(p: PathBuf, contents: &[u8]) -> Result<(), IoError> { unimplemented!() }
    #[verifier::external_body]
    pub fn remove_file(p: PathBuf) -> Result<(), IoError> { unimplemented!() }
}
/// every WriteFile of the plan addresses an artifact of the list it is applied with
pub open spec fn ops_indices_below(ops: Seq<FileSystemOperation>, n: int) -> bool {
    forall|i: int| 0 <= i < ops.len() && (#[trigger] at(ops, i)) is WriteFile ==> at(ops, i)->WriteFile_1 < n
}
/// number of WriteFile / DeleteFile operations among the first k
pub open spec fn count_rw(ops: Seq<FileSystemOperation>, k: int) -> nat
    decreases k
{
    if k <= 0 { 0 } else {
        count_rw(ops, k - 1) + (if at(ops, k - 1) is WriteFile || at(ops, k - 1) is DeleteFile { 1nat } else { 0nat })
    }
}
pub proof fn lemma_count_rw_bound(ops: Seq<FileSystemOperation>, k: int)
    requires 0 <= k
    ensures count_rw(ops, k) <= k
    decreases k
{
    if k > 0 { lemma_count_rw_bound(ops, k - 1); }
}
/// writes_sound / all_justified plans only carry indices stored in the state
pub proof fn lemma_plan_indices_from_scratch(ops: Seq<FileSystemOperation>, st: &FileSystemState, d: Seq<int>, n: int)
    requires writes_sound(ops, st, d, true), st.indices_below(n)
    ensures ops_indices_below(ops, n)
{
    assert forall|i: int| 0 <= i < ops.len() && (#[trigger] at(ops, i)) is WriteFile implies at(ops, i)->WriteFile_1 < n by {
        if exists|f: u64| st.has_root(f) && at(ops, i) == OpV::WriteFile(root_path(d, f), st.root_idx(f)) {
            let f = choose|f: u64| st.has_root(f) && at(ops, i) == OpV::WriteFile(root_path(d, f), st.root_idx(f));
            assert(st.has_root(f));
        } else {
            let (e, s, f) = choose|e: u64, s: u64, f: u64| st.has_nested(e, s, f) && at(ops, i) == OpV::WriteFile(nested_path(d, e, s, f), st.nested_idx(e, s, f));
            assert(st.has_nested(e, s, f));
        }
    }
}
pub proof fn lemma_plan_indices_from_diff(ops: Seq<FileSystemOperation>, o: &FileSystemState, st: &FileSystemState, d: Seq<int>, n: int)
    requires all_justified(ops, o, st, d), st.indices_below(n)
    ensures ops_indices_below(ops, n)
{
    assert forall|i: int| 0 <= i < ops.len() && (#[trigger] at(ops, i)) is WriteFile implies at(ops, i)->WriteFile_1 < n by {
        assert(op_justified(at(ops, i), o, st, d));
        let x = at(ops, i);
        if exists|f: u64| st.has_root(f) && root_needs_write(o, st, f) && x == OpV::WriteFile(root_path(d, f), st.root_idx(f)) {
            let f = choose|f: u64| st.has_root(f) && root_needs_write(o, st, f) && x == OpV::WriteFile(root_path(d, f), st.root_idx(f));
            assert(st.has_root(f));
        } else {
            let (e, s, f) = choose|e: u64, s: u64, f: u64| st.has_nested(e, s, f) && nested_needs_write(o, st, e, s, f) && x == OpV::WriteFile(nested_path(d, e, s, f), st.nested_idx(e, s, f));
            assert(st.has_nested(e, s, f));
        }
    }
}

//@fn rel=crates/isograph_compiler/src/write_artifacts.rs name=apply_file_system_operations vis=pub ret=r serves=C18,C19
//@rw R2 R6b
//@sub "for operation in operations \{" => "for operation in ito: operations.iter() {" n=1
//@sub "&e\.to_string\(\)" => "e.message()" n=*
//@sub "let mut count = 0;" => "let mut count: usize = 0;" n=1
//@contract
    requires
        // the plan was computed for exactly this artifact list (C18: the index of every
        // planned write addresses it; otherwise `expect("index should be valid")` fires)
        ops_indices_below(operations@, artifacts@.len() as int),
    ensures
        r is Ok ==> r->Ok_0 == count_rw(operations@, operations@.len() as int), //@O C18.O-4_apply_reports_number_of_written_or_deleted_files
//@loop 1
        invariant
            ito.seq().len() == operations@.len(),
            forall|k: int| 0 <= k < ito.seq().len() ==> *(#[trigger] ito.seq()[k]) == operations@[k],
            count == count_rw(operations@, ito.index@ as int),
            count <= ito.index@,
            operations@.len() <= usize::MAX,
            ops_indices_below(operations@, artifacts@.len() as int),
//@before "let mut count"
    proof { axiom_slice_len(operations); }
//@bodystart 1
        proof {
            assert(ito.index@ < operations@.len());
            assert(*operation == operations@[ito.index@ as int]);
            assert(at(operations@, ito.index@ as int) == opv(*operation));
            lemma_count_rw_bound(operations@, ito.index@ as int);
        }
//@end

// ---------------- get_file_system_operations (write_artifacts.rs) against the VERIFIED contracts above ----------------
//@fn rel=crates/isograph_compiler/src/write_artifacts.rs name=get_file_system_operations vis=pub ret=ops serves=C18,C19
//@sub "paths_and_contents\.into\(\)" => "FileSystemState::from_artifacts(paths_and_contents)" n=*
//@sub "let new_file_system_state =" => "let new_file_system_state: FileSystemState =" n=*
//@rw R1 R4
//@contract
    ensures
        // the state remembered for the next compile reflects exactly these artifacts
        *final(file_system_state) is Some
            && (*final(file_system_state))->Some_0.reflects(paths_and_contents@, paths_and_contents@.len() as int), //@O C18.O-5_remembered_state_reflects_the_new_artifacts
        // every planned write addresses this artifact list (precondition of apply)
        ops_indices_below(ops@, paths_and_contents@.len() as int), //@O C18.O-4_planned_writes_address_the_artifact_list
        // nothing known about the directory: the from-scratch plan of the new state
        *old(file_system_state) is None ==> {
            let st = (*final(file_system_state))->Some_0;
            wipes_first(ops@, artifact_directory@) && writes_sound(ops@, &st, artifact_directory@, true) && parents_created(ops@)
                && roots_written(ops@, artifact_directory@, st.root_files@) && ents_written(ops@, artifact_directory@, st.nested_files@)
        }, //@O C18+C19.O-2_unknown_directory_gets_the_from_scratch_plan
        // otherwise: the diff between the remembered state and the new one
        *old(file_system_state) is Some ==> {
            let o = (*old(file_system_state))->Some_0;
            let st = (*final(file_system_state))->Some_0;
            all_justified(ops@, &o, &st, artifact_directory@) && writes_have_dirs(ops@, &o, artifact_directory@)
                && all_w(ops@, &o, &st, artifact_directory@) && roots_w(ops@, &o, &st, artifact_directory@)
                && all_d(ops@, &o, &st, artifact_directory@) && roots_d(ops@, &o, &st, artifact_directory@)
        }, //@O C18.O-3_known_directory_gets_the_diff_plan
        // C18 in terms of the directory (transcribed std::fs semantics, content = hash of the
        // artifact the index addresses): first compile of a session, whatever the directory held
        *old(file_system_state) is None ==> forall|dir0: Dir|
            (#[trigger] apply_all(dir0, ops@, ops@.len() as int, contents_of(paths_and_contents@))) is Some
            && files_match(apply_all(dir0, ops@, ops@.len() as int, contents_of(paths_and_contents@))->Some_0,
                   &(*final(file_system_state))->Some_0, artifact_directory@), //@O C18.O-6_first_compile_leaves_exactly_the_artifacts_whatever_the_directory_held
        // later compiles, as long as nothing else edited the directory
        *old(file_system_state) is Some ==> forall|dir0: Dir|
            files_match(dir0, &(*old(file_system_state))->Some_0, artifact_directory@)
            && names_disjoint(&(*old(file_system_state))->Some_0, &(*final(file_system_state))->Some_0)
            && (#[trigger] apply_all(dir0, ops@, ops@.len() as int, contents_of(paths_and_contents@))) is Some
            ==> files_match(apply_all(dir0, ops@, ops@.len() as int, contents_of(paths_and_contents@))->Some_0,
                   &(*final(file_system_state))->Some_0, artifact_directory@), //@O C18.O-7_later_compile_leaves_exactly_the_artifacts_if_nothing_else_edited_the_directory
        // C18 / C19: a later compile's plan cannot fail by itself. If the directory holds what the
        // session remembers (files and the directories they imply), every operation of the plan
        // finds what it needs; afterwards the directories of the new state exist
        *old(file_system_state) is Some ==> forall|dir0: Dir|
            files_match(dir0, &(*old(file_system_state))->Some_0, artifact_directory@)
            && dirs_ok(dir0, &(*old(file_system_state))->Some_0, artifact_directory@)
            && names_disjoint(&(*old(file_system_state))->Some_0, &(*final(file_system_state))->Some_0)
            && names_disjoint(&(*old(file_system_state))->Some_0, &(*old(file_system_state))->Some_0)
            ==> (#[trigger] apply_all(dir0, ops@, ops@.len() as int, contents_of(paths_and_contents@))) is Some
                && dirs_ok(apply_all(dir0, ops@, ops@.len() as int, contents_of(paths_and_contents@))->Some_0,
                       &(*final(file_system_state))->Some_0, artifact_directory@), //@O C18+C19.O-7s_later_compile_cannot_fail_on_the_remembered_directory
        // the same facts as ONE predicate: what the session lemma below is stated over
        *final(file_system_state) is Some
            && planned(*old(file_system_state), paths_and_contents@, artifact_directory@, ops@, (*final(file_system_state))->Some_0), //@O C18.O-8_planner_contract_as_used_by_the_session_lemma
//@before "*file_system_state ="
    proof {
        let n = paths_and_contents@.len() as int;
        if *file_system_state is None {
            lemma_plan_indices_from_scratch(operations@, &new_file_system_state, artifact_directory@, n);
        } else {
            let o = (*file_system_state)->Some_0;
            lemma_plan_indices_from_diff(operations@, &o, &new_file_system_state, artifact_directory@, n);
        }
        lemma_reflects_hashes(&new_file_system_state, paths_and_contents@);
    }
//@end

// =====================================================================================
// From plan properties to the directory: a hand-written semantics of the four operations
// (transcribed from apply_file_system_operations' std::fs calls: remove_dir_all guarded by
// exists, create_dir_all, write, remove_file) and lemmas showing that a plan with the
// properties proved above, applied op by op, turns the directory into exactly the state.
// The semantics is a SPECIFICATION (trusted transcription); the lemmas are about contracts.
// A file's content is identified by its hash (content_hash: equal hashes are taken to mean
// equal contents - the same assumption the compiler's own skip-if-unchanged logic makes).
// =====================================================================================
pub struct Dir {
    /// content (hash) of the file at a path, if there is one
    pub files: spec_fn(Seq<int>) -> Option<ArtifactHash>,
    /// directories that exist
    pub dirs: spec_fn(Seq<int>) -> bool,
}
pub open spec fn is_prefix(a: Seq<int>, b: Seq<int>) -> bool {
    a.len() <= b.len() && b.subrange(0, a.len() as int) == a
}
/// effect of one operation; None = the std::fs call fails. `h` gives the content (hash)
/// of the artifact a WriteFile index addresses: |i| content_hash(artifacts[i].file_content)
pub open spec fn apply_op(dir: Dir, x: OpV, h: spec_fn(usize) -> ArtifactHash) -> Option<Dir> {
    match x {
        OpV::DeleteDirectory(q) => Some(Dir {
            files: |p: Seq<int>| if is_prefix(q, p) { None } else { (dir.files)(p) },
            dirs: |p: Seq<int>| (dir.dirs)(p) && !is_prefix(q, p),
        }),
        OpV::CreateDirectory(q) => Some(Dir {
            files: dir.files,
            dirs: |p: Seq<int>| (dir.dirs)(p) || is_prefix(p, q),
        }),
        OpV::WriteFile(p0, idx) =>
            if p0.len() > 0 && (dir.dirs)(p0.drop_last()) {
                Some(Dir { files: |p: Seq<int>| if p == p0 { Some(h(idx)) } else { (dir.files)(p) }, dirs: dir.dirs })
            } else { None },
        OpV::DeleteFile(p0) =>
            if (dir.files)(p0) is Some {
                Some(Dir { files: |p: Seq<int>| if p == p0 { None } else { (dir.files)(p) }, dirs: dir.dirs })
            } else { None },
    }
}
/// the first k operations applied in order
pub open spec fn apply_all(dir: Dir, ops: Seq<FileSystemOperation>, k: int, h: spec_fn(usize) -> ArtifactHash) -> Option<Dir>
    decreases k
{
    if k <= 0 { Some(dir) } else {
        match apply_all(dir, ops, k - 1, h) {
            Some(d1) => apply_op(d1, at(ops, k - 1), h),
            None => None,
        }
    }
}
impl FileSystemState {
    /// the directory content this state stands for, below artifact directory `d`
    pub open spec fn file_at(&self, d: Seq<int>, p: Seq<int>) -> Option<ArtifactHash> {
        if p.len() == d.len() + 1 && is_prefix(d, p) && self.has_root(p.last() as u64) && 0 <= p.last() <= u64::MAX {
            Some(self.root_hash(p.last() as u64))
        } else if p.len() == d.len() + 3 && is_prefix(d, p)
            && 0 <= p[d.len() as int] <= u64::MAX && 0 <= p[d.len() as int + 1] <= u64::MAX && 0 <= p[d.len() as int + 2] <= u64::MAX
            && self.has_nested(p[d.len() as int] as u64, p[d.len() as int + 1] as u64, p[d.len() as int + 2] as u64) {
            Some(self.nested_hash(p[d.len() as int] as u64, p[d.len() as int + 1] as u64, p[d.len() as int + 2] as u64))
        } else { None }
    }
    /// the hash the state records for a file is the hash of the artifact its index addresses
    pub open spec fn hashes_match(&self, h: spec_fn(usize) -> ArtifactHash) -> bool {
        &&& forall|f: u64| #[trigger] self.has_root(f) ==> h(self.root_idx(f)) == self.root_hash(f)
        &&& forall|e: u64, s: u64, f: u64| #[trigger] self.has_nested(e, s, f) ==> h(self.nested_idx(e, s, f)) == self.nested_hash(e, s, f)
    }
}
/// the artifact list's own content function
pub open spec fn contents_of(arts: Seq<ArtifactPathAndContent>) -> spec_fn(usize) -> ArtifactHash {
    |i: usize| content_hash(arts[i as int].file_content)
}
/// a state built from an artifact list records the hashes of that list
pub proof fn lemma_reflects_hashes(st: &FileSystemState, arts: Seq<ArtifactPathAndContent>)
    requires st.reflects(arts, arts.len() as int)
    ensures st.hashes_match(contents_of(arts))
{
    assert forall|f: u64| #[trigger] st.has_root(f) implies contents_of(arts)(st.root_idx(f)) == st.root_hash(f) by {}
    assert forall|e: u64, s: u64, f: u64| #[trigger] st.has_nested(e, s, f) implies contents_of(arts)(st.nested_idx(e, s, f)) == st.nested_hash(e, s, f) by {}
}

pub proof fn lemma_paths(d: Seq<int>, e: u64, s: u64, f: u64)
    ensures
        root_path(d, f).len() == d.len() + 1, is_prefix(d, root_path(d, f)), root_path(d, f).last() == f as int,
        root_path(d, f).drop_last() == d,
        nested_path(d, e, s, f).len() == d.len() + 3, is_prefix(d, nested_path(d, e, s, f)),
        nested_path(d, e, s, f)[d.len() as int] == e as int, nested_path(d, e, s, f)[d.len() as int + 1] == s as int,
        nested_path(d, e, s, f)[d.len() as int + 2] == f as int,
        nested_path(d, e, s, f).drop_last() == sel_dir(d, e, s),
        is_prefix(d, sel_dir(d, e, s)), is_prefix(d, d),
{
    assert(root_path(d, f).subrange(0, d.len() as int) =~= d);
    assert(root_path(d, f).drop_last() =~= d);
    assert(nested_path(d, e, s, f).subrange(0, d.len() as int) =~= d);
    assert(nested_path(d, e, s, f).drop_last() =~= sel_dir(d, e, s));
    assert(sel_dir(d, e, s).subrange(0, d.len() as int) =~= d);
    assert(d.subrange(0, d.len() as int) =~= d);
}
/// what the state says about its own paths, and that it says nothing about other paths
pub proof fn lemma_file_at(st: &FileSystemState, d: Seq<int>, e: u64, s: u64, f: u64)
    ensures
        st.file_at(d, root_path(d, f)) == (if st.has_root(f) { Some(st.root_hash(f)) } else { None::<ArtifactHash> }),
        st.file_at(d, nested_path(d, e, s, f)) == (if st.has_nested(e, s, f) { Some(st.nested_hash(e, s, f)) } else { None::<ArtifactHash> }),
{
    lemma_paths(d, e, s, f);
}
pub proof fn lemma_file_at_inv(st: &FileSystemState, d: Seq<int>, p: Seq<int>)
    requires st.file_at(d, p) is Some
    ensures
        (p.len() == d.len() + 1 && 0 <= p.last() <= u64::MAX && st.has_root(p.last() as u64) && p == root_path(d, p.last() as u64))
        || (p.len() == d.len() + 3
            && 0 <= p[d.len() as int] <= u64::MAX && 0 <= p[d.len() as int + 1] <= u64::MAX && 0 <= p[d.len() as int + 2] <= u64::MAX
            && st.has_nested(p[d.len() as int] as u64, p[d.len() as int + 1] as u64, p[d.len() as int + 2] as u64)
            && p == nested_path(d, p[d.len() as int] as u64, p[d.len() as int + 1] as u64, p[d.len() as int + 2] as u64)),
{
    if p.len() == d.len() + 1 {
        assert(root_path(d, p.last() as u64) =~= p);
    } else {
        assert(nested_path(d, p[d.len() as int] as u64, p[d.len() as int + 1] as u64, p[d.len() as int + 2] as u64) =~= p);
    }
}
/// which planned directories lie above which planned files
pub proof fn lemma_prefixes(d: Seq<int>, e1: u64, s1: u64, e: u64, s: u64, f: u64)
    ensures
        is_prefix(ent_dir(d, e1), root_path(d, f)) ==> e1 == f,
        !is_prefix(sel_dir(d, e1, s1), root_path(d, f)),
        is_prefix(ent_dir(d, e1), nested_path(d, e, s, f)) <==> e1 == e,
        is_prefix(sel_dir(d, e1, s1), nested_path(d, e, s, f)) <==> (e1 == e && s1 == s),
        nested_path(d, e1, s1, f) == nested_path(d, e, s, f) ==> e1 == e && s1 == s,
        root_path(d, e1) == root_path(d, f) ==> e1 == f,
        root_path(d, e1) != nested_path(d, e, s, f),
{
    let dl = d.len() as int;
    if is_prefix(ent_dir(d, e1), root_path(d, f)) {
        assert(root_path(d, f).subrange(0, dl + 1)[dl] == ent_dir(d, e1)[dl]);
    }
    if is_prefix(ent_dir(d, e1), nested_path(d, e, s, f)) {
        assert(nested_path(d, e, s, f).subrange(0, dl + 1)[dl] == ent_dir(d, e1)[dl]);
    }
    if e1 == e {
        assert(nested_path(d, e, s, f).subrange(0, dl + 1) =~= ent_dir(d, e1));
    }
    if is_prefix(sel_dir(d, e1, s1), nested_path(d, e, s, f)) {
        assert(nested_path(d, e, s, f).subrange(0, dl + 2)[dl] == sel_dir(d, e1, s1)[dl]);
        assert(nested_path(d, e, s, f).subrange(0, dl + 2)[dl + 1] == sel_dir(d, e1, s1)[dl + 1]);
    }
    if e1 == e && s1 == s {
        assert(nested_path(d, e, s, f).subrange(0, dl + 2) =~= sel_dir(d, e1, s1));
    }
    if nested_path(d, e1, s1, f) == nested_path(d, e, s, f) {
        assert(nested_path(d, e1, s1, f)[dl] == nested_path(d, e, s, f)[dl]);
        assert(nested_path(d, e1, s1, f)[dl + 1] == nested_path(d, e, s, f)[dl + 1]);
    }
    if root_path(d, e1) == root_path(d, f) {
        assert(root_path(d, e1)[dl] == root_path(d, f)[dl]);
    }
    assert(root_path(d, e1).len() != nested_path(d, e, s, f).len());
}

// ---------------- the from-scratch plan (recreate_all) ----------------
/// some WriteFile to path p among operations 1..k
pub open spec fn written(ops: Seq<FileSystemOperation>, k: int, p: Seq<int>) -> bool {
    exists|i: int| 0 < i < k && i < ops.len() && (#[trigger] at(ops, i)) is WriteFile && at(ops, i)->WriteFile_0 == p
}
/// a from-scratch plan writes to a path exactly the content the state has there
pub proof fn lemma_write_determines(ops: Seq<FileSystemOperation>, st: &FileSystemState, d: Seq<int>, h: spec_fn(usize) -> ArtifactHash, i: int)
    requires writes_sound(ops, st, d, true), st.hashes_match(h), 0 <= i < ops.len(), at(ops, i) is WriteFile,
    ensures
        st.file_at(d, at(ops, i)->WriteFile_0) == Some(h(at(ops, i)->WriteFile_1)),
        at(ops, i)->WriteFile_0.len() > 0,
{
    if exists|f: u64| st.has_root(f) && at(ops, i) == OpV::WriteFile(root_path(d, f), st.root_idx(f)) {
        let f = choose|f: u64| st.has_root(f) && at(ops, i) == OpV::WriteFile(root_path(d, f), st.root_idx(f));
        lemma_paths(d, 0, 0, f);
    } else {
        let (e, s, f) = choose|e: u64, s: u64, f: u64| st.has_nested(e, s, f) && at(ops, i) == OpV::WriteFile(nested_path(d, e, s, f), st.nested_idx(e, s, f));
        lemma_paths(d, e, s, f);
    }
}
/// state of the directory after the first k >= 1 operations of a from-scratch plan
pub open spec fn scratch_inv(dk: Dir, ops: Seq<FileSystemOperation>, k: int, st: &FileSystemState, d: Seq<int>) -> bool {
    // below d there is exactly what the plan has written so far, with the state's content
    &&& forall|p: Seq<int>| is_prefix(d, p) ==>
            #[trigger] (dk.files)(p) == (if written(ops, k, p) { st.file_at(d, p) } else { None::<ArtifactHash> })
    // every directory the plan created exists
    &&& forall|j: int| 0 < j < k && (#[trigger] at(ops, j)) is CreateDirectory ==> (dk.dirs)(at(ops, j)->CreateDirectory_0)
}
pub proof fn lemma_scratch(dir0: Dir, ops: Seq<FileSystemOperation>, st: &FileSystemState, d: Seq<int>, h: spec_fn(usize) -> ArtifactHash, k: int)
    requires
        wipes_first(ops, d), writes_sound(ops, st, d, true), parents_created(ops), st.hashes_match(h),
        1 <= k <= ops.len(),
    ensures
        apply_all(dir0, ops, k, h) is Some,
        scratch_inv(apply_all(dir0, ops, k, h)->Some_0, ops, k, st, d),
    decreases k
{
    if k == 1 {
        assert(apply_all(dir0, ops, 0, h) == Some(dir0));
        let d1 = apply_all(dir0, ops, 1, h)->Some_0;
        assert forall|p: Seq<int>| is_prefix(d, p) implies #[trigger] (d1.files)(p) == (if written(ops, 1, p) { st.file_at(d, p) } else { None::<ArtifactHash> }) by {
            assert(!written(ops, 1, p));
        }
    } else {
        lemma_scratch(dir0, ops, st, d, h, k - 1);
        let dk = apply_all(dir0, ops, k - 1, h)->Some_0;
        let x = at(ops, k - 1);
        assert(x is WriteFile || x is CreateDirectory);
        if x is CreateDirectory {
            let q = x->CreateDirectory_0;
            let dn = apply_op(dk, x, h)->Some_0;
            assert(is_prefix(q, q)) by { assert(q.subrange(0, q.len() as int) =~= q); }
            assert forall|p: Seq<int>| is_prefix(d, p) implies #[trigger] (dn.files)(p) == (if written(ops, k, p) { st.file_at(d, p) } else { None::<ArtifactHash> }) by {
                assert(written(ops, k, p) == written(ops, k - 1, p)) by {
                    if written(ops, k, p) {
                        let i = choose|i: int| 0 < i < k && i < ops.len() && (#[trigger] at(ops, i)) is WriteFile && at(ops, i)->WriteFile_0 == p;
                        assert(i != k - 1);
                    }
                }
            }
        } else {
            let p0 = x->WriteFile_0; let idx = x->WriteFile_1;
            lemma_write_determines(ops, st, d, h, k - 1);
            // the parent directory was created earlier
            let j = choose|j: int| 0 < j < k - 1 && j < ops.len() && #[trigger] at(ops, j) == OpV::CreateDirectory(p0.drop_last());
            assert((dk.dirs)(p0.drop_last()));
            let dn = apply_op(dk, x, h)->Some_0;
            assert forall|p: Seq<int>| is_prefix(d, p) implies #[trigger] (dn.files)(p) == (if written(ops, k, p) { st.file_at(d, p) } else { None::<ArtifactHash> }) by {
                if p == p0 {
                    assert(written(ops, k, p));
                } else {
                    assert(written(ops, k, p) == written(ops, k - 1, p)) by {
                        if written(ops, k, p) {
                            let i = choose|i: int| 0 < i < k && i < ops.len() && (#[trigger] at(ops, i)) is WriteFile && at(ops, i)->WriteFile_0 == p;
                            assert(i != k - 1);
                        }
                    }
                }
            }
        }
    }
}
/// C18, first compile / C19, repair: the from-scratch plan applied to ANY directory succeeds
/// and leaves, below the artifact directory, exactly the files of the state
pub proof fn lemma_recreate_all_correct(dir0: Dir, ops: Seq<FileSystemOperation>, st: &FileSystemState, d: Seq<int>, h: spec_fn(usize) -> ArtifactHash)
    requires
        wipes_first(ops, d), writes_sound(ops, st, d, true), parents_created(ops),
        roots_written(ops, d, st.root_files@), ents_written(ops, d, st.nested_files@),
        st.hashes_match(h),
    ensures
        apply_all(dir0, ops, ops.len() as int, h) is Some,
        forall|p: Seq<int>| is_prefix(d, p) ==> #[trigger] (apply_all(dir0, ops, ops.len() as int, h)->Some_0.files)(p) == st.file_at(d, p),
{
    let n = ops.len() as int;
    lemma_scratch(dir0, ops, st, d, h, n);
    let dn = apply_all(dir0, ops, n, h)->Some_0;
    assert forall|p: Seq<int>| is_prefix(d, p) implies #[trigger] (dn.files)(p) == st.file_at(d, p) by {
        if st.file_at(d, p) is Some && !written(ops, n, p) {
            // completeness: the plan writes every file of the state
            if p.len() == d.len() + 1 {
                let f = p.last() as u64;
                lemma_paths(d, 0, 0, f);
                assert(root_path(d, f) =~= p);
                assert(emits(ops, OpV::WriteFile(root_path(d, f), st.root_files@[f].0.idx)));
                let i = choose|i: int| 0 <= i < ops.len() && #[trigger] at(ops, i) == OpV::WriteFile(root_path(d, f), st.root_files@[f].0.idx);
                assert(i != 0);
                assert(written(ops, n, p));
            } else {
                let e = p[d.len() as int] as u64; let s = p[d.len() as int + 1] as u64; let f = p[d.len() as int + 2] as u64;
                lemma_paths(d, e, s, f);
                assert(nested_path(d, e, s, f) =~= p);
                assert(st.nested_files@.contains_key(e));
                assert(sels_written(ops, d, e, st.nested_files@[e]@));
                assert(files_written(ops, d, e, s, st.nested_files@[e]@[s]@));
                assert(file_written(ops, d, e, s, f, st.nested_files@[e]@[s]@[f]));
                let i = choose|i: int| 0 <= i < ops.len() && #[trigger] at(ops, i) == OpV::WriteFile(nested_path(d, e, s, f), st.nested_files@[e]@[s]@[f].0.idx);
                assert(i != 0);
                assert(written(ops, n, p));
            }
        }
    }
}

/// every directory a from-scratch plan created so far exists, with all its ancestors
pub open spec fn created_closed(dk: Dir, ops: Seq<FileSystemOperation>, k: int) -> bool {
    forall|j: int, p: Seq<int>| 0 < j < k && j < ops.len() && (#[trigger] at(ops, j)) is CreateDirectory
        && #[trigger] is_prefix(p, at(ops, j)->CreateDirectory_0) ==> (dk.dirs)(p)
}
pub proof fn lemma_scratch_dirs(dir0: Dir, ops: Seq<FileSystemOperation>, d: Seq<int>, h: spec_fn(usize) -> ArtifactHash, k: int)
    requires wipes_first(ops, d), 1 <= k <= ops.len(), apply_all(dir0, ops, k, h) is Some,
    ensures created_closed(apply_all(dir0, ops, k, h)->Some_0, ops, k),
    decreases k
{
    if k > 1 {
        assert(apply_all(dir0, ops, k - 1, h) is Some);
        lemma_scratch_dirs(dir0, ops, d, h, k - 1);
        let dk = apply_all(dir0, ops, k - 1, h)->Some_0;
        let x = at(ops, k - 1);
        assert(x is WriteFile || x is CreateDirectory);
        let dn = apply_op(dk, x, h)->Some_0;
        assert(apply_all(dir0, ops, k, h) == apply_op(dk, x, h));
        assert forall|j: int, p: Seq<int>| 0 < j < k && j < ops.len() && (#[trigger] at(ops, j)) is CreateDirectory
            && #[trigger] is_prefix(p, at(ops, j)->CreateDirectory_0) implies (dn.dirs)(p) by {
            if j < k - 1 { assert((dk.dirs)(p)); }
        }
    }
}
/// the directories the state implies exist after the from-scratch plan
pub proof fn lemma_recreate_all_dirs(dir0: Dir, ops: Seq<FileSystemOperation>, st: &FileSystemState, d: Seq<int>, h: spec_fn(usize) -> ArtifactHash)
    requires
        wipes_first(ops, d), writes_sound(ops, st, d, true), parents_created(ops),
        roots_written(ops, d, st.root_files@), ents_written(ops, d, st.nested_files@),
        st.hashes_match(h), st.sels_nonempty(), st.nonempty(),
    ensures
        apply_all(dir0, ops, ops.len() as int, h) is Some,
        dirs_ok(apply_all(dir0, ops, ops.len() as int, h)->Some_0, st, d),
{
    let n = ops.len() as int;
    lemma_scratch(dir0, ops, st, d, h, n);
    lemma_scratch_dirs(dir0, ops, d, h, n);
    let dn = apply_all(dir0, ops, n, h)->Some_0;
    assert forall|e: u64, s: u64| #[trigger] st.has_sel(e, s) implies (dn.dirs)(sel_dir(d, e, s)) by {
        let f = choose|f: u64| st.has_nested(e, s, f);
        lemma_paths(d, e, s, f);
        assert(st.nested_files@.contains_key(e));
        assert(sels_written(ops, d, e, st.nested_files@[e]@));
        assert(files_written(ops, d, e, s, st.nested_files@[e]@[s]@));
        assert(file_written(ops, d, e, s, f, st.nested_files@[e]@[s]@[f]));
        let i = choose|i: int| 0 <= i < ops.len() && #[trigger] at(ops, i) == OpV::WriteFile(nested_path(d, e, s, f), st.nested_files@[e]@[s]@[f].0.idx);
        assert(at(ops, i) is WriteFile);
        assert(emits_between(ops, OpV::CreateDirectory(at(ops, i)->WriteFile_0.drop_last()), i));
        let j = choose|j: int| 0 < j < i && j < ops.len() && #[trigger] at(ops, j) == OpV::CreateDirectory(sel_dir(d, e, s));
        assert(at(ops, j) is CreateDirectory);
        assert(is_prefix(sel_dir(d, e, s), at(ops, j)->CreateDirectory_0)) by { assert(sel_dir(d, e, s).subrange(0, sel_dir(d, e, s).len() as int) =~= sel_dir(d, e, s)); }
    }
    if exists|f: u64| st.has_root(f) {
        let f = choose|f: u64| st.has_root(f);
        lemma_paths(d, 0, 0, f);
        assert(emits(ops, OpV::WriteFile(root_path(d, f), st.root_files@[f].0.idx)));
        let i = choose|i: int| 0 <= i < ops.len() && #[trigger] at(ops, i) == OpV::WriteFile(root_path(d, f), st.root_files@[f].0.idx);
        assert(at(ops, i) is WriteFile);
        assert(emits_between(ops, OpV::CreateDirectory(at(ops, i)->WriteFile_0.drop_last()), i));
        let j = choose|j: int| 0 < j < i && j < ops.len() && #[trigger] at(ops, j) == OpV::CreateDirectory(d);
        assert(at(ops, j) is CreateDirectory);
        assert(is_prefix(d, at(ops, j)->CreateDirectory_0));
    } else {
        let (e, s, f) = choose|e: u64, s: u64, f: u64| st.has_nested(e, s, f);
        lemma_paths(d, e, s, f);
        assert(st.has_sel(e, s));
        assert((dn.dirs)(sel_dir(d, e, s)));
        assert(st.nested_files@.contains_key(e));
        assert(sels_written(ops, d, e, st.nested_files@[e]@));
        assert(files_written(ops, d, e, s, st.nested_files@[e]@[s]@));
        assert(file_written(ops, d, e, s, f, st.nested_files@[e]@[s]@[f]));
        let i = choose|i: int| 0 <= i < ops.len() && #[trigger] at(ops, i) == OpV::WriteFile(nested_path(d, e, s, f), st.nested_files@[e]@[s]@[f].0.idx);
        assert(at(ops, i) is WriteFile);
        assert(emits_between(ops, OpV::CreateDirectory(at(ops, i)->WriteFile_0.drop_last()), i));
        let j = choose|j: int| 0 < j < i && j < ops.len() && #[trigger] at(ops, j) == OpV::CreateDirectory(sel_dir(d, e, s));
        assert(at(ops, j) is CreateDirectory);
        assert(is_prefix(d, at(ops, j)->CreateDirectory_0));
    }
}

// ---------------- the incremental plan (diff) ----------------
pub open spec fn wr_hit(x: OpV, p: Seq<int>) -> bool { x is WriteFile && x->WriteFile_0 == p }
pub open spec fn del_hit(x: OpV, p: Seq<int>) -> bool {
    (x is DeleteFile && x->DeleteFile_0 == p) || (x is DeleteDirectory && is_prefix(x->DeleteDirectory_0, p))
}
/// some WriteFile to p / some deletion covering p among the first k operations
pub open spec fn written_d(ops: Seq<FileSystemOperation>, k: int, p: Seq<int>) -> bool {
    exists|i: int| 0 <= i < k && i < ops.len() && wr_hit(#[trigger] at(ops, i), p)
}
pub open spec fn deleted_d(ops: Seq<FileSystemOperation>, k: int, p: Seq<int>) -> bool {
    exists|i: int| 0 <= i < k && i < ops.len() && del_hit(#[trigger] at(ops, i), p)
}
pub proof fn lemma_wd_step(ops: Seq<FileSystemOperation>, k: int, p: Seq<int>)
    requires 1 <= k <= ops.len()
    ensures
        written_d(ops, k, p) == (written_d(ops, k - 1, p) || wr_hit(at(ops, k - 1), p)),
        deleted_d(ops, k, p) == (deleted_d(ops, k - 1, p) || del_hit(at(ops, k - 1), p)),
{
    if written_d(ops, k, p) {
        let i = choose|i: int| 0 <= i < k && i < ops.len() && wr_hit(#[trigger] at(ops, i), p);
        if i != k - 1 { assert(0 <= i < k - 1 && wr_hit(at(ops, i), p)); }
    }
    if written_d(ops, k - 1, p) {
        let i = choose|i: int| 0 <= i < k - 1 && i < ops.len() && wr_hit(#[trigger] at(ops, i), p);
        assert(0 <= i < k && wr_hit(at(ops, i), p));
    }
    if wr_hit(at(ops, k - 1), p) { assert(0 <= k - 1 < k && wr_hit(at(ops, k - 1), p)); }
    if deleted_d(ops, k, p) {
        let i = choose|i: int| 0 <= i < k && i < ops.len() && del_hit(#[trigger] at(ops, i), p);
        if i != k - 1 { assert(0 <= i < k - 1 && del_hit(at(ops, i), p)); }
    }
    if deleted_d(ops, k - 1, p) {
        let i = choose|i: int| 0 <= i < k - 1 && i < ops.len() && del_hit(#[trigger] at(ops, i), p);
        assert(0 <= i < k && del_hit(at(ops, i), p));
    }
    if del_hit(at(ops, k - 1), p) { assert(0 <= k - 1 < k && del_hit(at(ops, k - 1), p)); }
}
/// the directory holds exactly the files of the state below d ("nothing else edited it")
pub open spec fn files_match(dir: Dir, st: &FileSystemState, d: Seq<int>) -> bool {
    forall|p: Seq<int>| is_prefix(d, p) ==> #[trigger] (dir.files)(p) == st.file_at(d, p)
}
/// the model has one name space per directory: a root file of the new state is not named
/// like an entity directory of the old one (entity names are GraphQL names, root files carry
/// an extension)
pub open spec fn names_disjoint(o: &FileSystemState, n: &FileSystemState) -> bool {
    forall|f: u64| #[trigger] n.has_root(f) ==> !o.has_entity(f)
}
/// a justified write goes to a path of the new state and carries its content
pub proof fn lemma_diff_write(x: OpV, o: &FileSystemState, n: &FileSystemState, d: Seq<int>, h: spec_fn(usize) -> ArtifactHash)
    requires op_justified(x, o, n, d), x is WriteFile, n.hashes_match(h),
    ensures
        n.file_at(d, x->WriteFile_0) == Some(h(x->WriteFile_1)),
        (exists|f: u64| n.has_root(f) && x->WriteFile_0 == root_path(d, f))
            || (exists|e: u64, s: u64, f: u64| n.has_nested(e, s, f) && x->WriteFile_0 == nested_path(d, e, s, f)),
{
    if exists|f: u64| n.has_root(f) && root_needs_write(o, n, f) && x == OpV::WriteFile(root_path(d, f), n.root_idx(f)) {
        let f = choose|f: u64| n.has_root(f) && root_needs_write(o, n, f) && x == OpV::WriteFile(root_path(d, f), n.root_idx(f));
        lemma_file_at(n, d, 0, 0, f);
        assert(n.has_root(f) && x->WriteFile_0 == root_path(d, f));
    } else {
        let (e, s, f) = choose|e: u64, s: u64, f: u64| n.has_nested(e, s, f) && nested_needs_write(o, n, e, s, f) && x == OpV::WriteFile(nested_path(d, e, s, f), n.nested_idx(e, s, f));
        lemma_file_at(n, d, e, s, f);
        assert(n.has_nested(e, s, f) && x->WriteFile_0 == nested_path(d, e, s, f));
    }
}
/// a justified deletion never covers a path of the new state
pub proof fn lemma_diff_delete(x: OpV, p: Seq<int>, o: &FileSystemState, n: &FileSystemState, d: Seq<int>)
    requires op_justified(x, o, n, d), del_hit(x, p), names_disjoint(o, n),
    ensures n.file_at(d, p) is None,
{
    if n.file_at(d, p) is Some {
        lemma_file_at_inv(n, d, p);
        let dl = d.len() as int;
        if p.len() == d.len() + 1 {
            let f = p.last() as u64;
            if x is DeleteFile {
                if exists|f1: u64| o.has_root(f1) && !n.has_root(f1) && x == OpV::DeleteFile(root_path(d, f1)) {
                    let f1 = choose|f1: u64| o.has_root(f1) && !n.has_root(f1) && x == OpV::DeleteFile(root_path(d, f1));
                    lemma_prefixes(d, f1, 0, 0, 0, f);
                } else {
                    let (e1, s1, f1) = choose|e1: u64, s1: u64, f1: u64| o.has_nested(e1, s1, f1) && n.has_sel(e1, s1) && !n.has_nested(e1, s1, f1) && x == OpV::DeleteFile(nested_path(d, e1, s1, f1));
                    lemma_prefixes(d, f, 0, e1, s1, f1);
                }
            } else {
                if exists|e1: u64| o.has_entity(e1) && !n.has_entity(e1) && x == OpV::DeleteDirectory(ent_dir(d, e1)) {
                    let e1 = choose|e1: u64| o.has_entity(e1) && !n.has_entity(e1) && x == OpV::DeleteDirectory(ent_dir(d, e1));
                    lemma_prefixes(d, e1, 0, 0, 0, f);
                    assert(n.has_root(f) && o.has_entity(f));
                } else {
                    let (e1, s1) = choose|e1: u64, s1: u64| o.has_sel(e1, s1) && n.has_entity(e1) && !n.has_sel(e1, s1) && x == OpV::DeleteDirectory(sel_dir(d, e1, s1));
                    lemma_prefixes(d, e1, s1, 0, 0, f);
                }
            }
        } else {
            let e = p[dl] as u64; let s = p[dl + 1] as u64; let f = p[dl + 2] as u64;
            if x is DeleteFile {
                if exists|f1: u64| o.has_root(f1) && !n.has_root(f1) && x == OpV::DeleteFile(root_path(d, f1)) {
                    let f1 = choose|f1: u64| o.has_root(f1) && !n.has_root(f1) && x == OpV::DeleteFile(root_path(d, f1));
                    lemma_prefixes(d, f1, 0, e, s, f);
                } else {
                    let (e1, s1, f1) = choose|e1: u64, s1: u64, f1: u64| o.has_nested(e1, s1, f1) && n.has_sel(e1, s1) && !n.has_nested(e1, s1, f1) && x == OpV::DeleteFile(nested_path(d, e1, s1, f1));
                    lemma_paths(d, e1, s1, f1);
                    lemma_paths(d, e, s, f);
                    assert(e1 == e && s1 == s && f1 == f);
                }
            } else {
                if exists|e1: u64| o.has_entity(e1) && !n.has_entity(e1) && x == OpV::DeleteDirectory(ent_dir(d, e1)) {
                    let e1 = choose|e1: u64| o.has_entity(e1) && !n.has_entity(e1) && x == OpV::DeleteDirectory(ent_dir(d, e1));
                    lemma_prefixes(d, e1, 0, e, s, f);
                } else {
                    let (e1, s1) = choose|e1: u64, s1: u64| o.has_sel(e1, s1) && n.has_entity(e1) && !n.has_sel(e1, s1) && x == OpV::DeleteDirectory(sel_dir(d, e1, s1));
                    lemma_prefixes(d, e1, s1, e, s, f);
                }
            }
        }
    }
}
/// content of the directory after the first k operations of a diff plan that did not fail
pub open spec fn diff_inv(dk: Dir, ops: Seq<FileSystemOperation>, k: int, o: &FileSystemState, n: &FileSystemState, d: Seq<int>) -> bool {
    forall|p: Seq<int>| is_prefix(d, p) ==> #[trigger] (dk.files)(p) ==
        (if written_d(ops, k, p) { n.file_at(d, p) } else if deleted_d(ops, k, p) { None::<ArtifactHash> } else { o.file_at(d, p) })
}
pub proof fn lemma_diff_fold(dir0: Dir, ops: Seq<FileSystemOperation>, o: &FileSystemState, n: &FileSystemState, d: Seq<int>, h: spec_fn(usize) -> ArtifactHash, k: int)
    requires
        all_justified(ops, o, n, d), names_disjoint(o, n), n.hashes_match(h),
        files_match(dir0, o, d),
        0 <= k <= ops.len(),
        apply_all(dir0, ops, k, h) is Some,
    ensures
        diff_inv(apply_all(dir0, ops, k, h)->Some_0, ops, k, o, n, d),
    decreases k
{
    if k == 0 {
        assert forall|p: Seq<int>| is_prefix(d, p) implies #[trigger] (dir0.files)(p) ==
            (if written_d(ops, 0, p) { n.file_at(d, p) } else if deleted_d(ops, 0, p) { None::<ArtifactHash> } else { o.file_at(d, p) }) by {
            assert(!written_d(ops, 0, p) && !deleted_d(ops, 0, p));
        }
    } else {
        assert(apply_all(dir0, ops, k - 1, h) is Some);
        lemma_diff_fold(dir0, ops, o, n, d, h, k - 1);
        let dk = apply_all(dir0, ops, k - 1, h)->Some_0;
        let x = at(ops, k - 1);
        assert(op_justified(x, o, n, d));
        let dn = apply_op(dk, x, h)->Some_0;
        assert(apply_all(dir0, ops, k, h) == apply_op(dk, x, h));
        if x is WriteFile { lemma_diff_write(x, o, n, d, h); }
        assert forall|p: Seq<int>| is_prefix(d, p) implies #[trigger] (dn.files)(p) ==
            (if written_d(ops, k, p) { n.file_at(d, p) } else if deleted_d(ops, k, p) { None::<ArtifactHash> } else { o.file_at(d, p) }) by {
            lemma_wd_step(ops, k, p);
            assert((dk.files)(p) == (if written_d(ops, k - 1, p) { n.file_at(d, p) } else if deleted_d(ops, k - 1, p) { None::<ArtifactHash> } else { o.file_at(d, p) }));
            if del_hit(x, p) {
                // whatever was there is gone, and the new state has nothing there either
                lemma_diff_delete(x, p, o, n, d);
            }
        }
    }
}
// ---------------- the incremental plan cannot fail (given what the session remembers is true) ----------------
pub open spec fn is_del(x: OpV) -> bool { x is DeleteFile || x is DeleteDirectory }
/// the plan first writes (and creates directories), then deletes
pub open spec fn phased(ops: Seq<FileSystemOperation>) -> bool {
    forall|i: int, j: int| 0 <= i < j < ops.len() && is_del(#[trigger] at(ops, i)) ==> is_del(#[trigger] at(ops, j))
}
pub open spec fn no_del(ops: Seq<FileSystemOperation>) -> bool {
    forall|i: int| 0 <= i < ops.len() ==> !is_del(#[trigger] at(ops, i))
}
pub proof fn lemma_push_phase(ops: Seq<FileSystemOperation>, op: FileSystemOperation)
    requires phased(ops), !is_del(opv(op)) ==> no_del(ops),
    ensures phased(ops.push(op)), (no_del(ops) && !is_del(opv(op))) ==> no_del(ops.push(op)),
{
    let m = ops.push(op);
    assert forall|i: int| 0 <= i < m.len() implies at(m, i) == (if i < ops.len() { at(ops, i) } else { opv(op) }) by {}
    assert forall|i: int, j: int| 0 <= i < j < m.len() && is_del(#[trigger] at(m, i)) implies is_del(#[trigger] at(m, j)) by {
        if j < ops.len() { assert(is_del(at(ops, i))); assert(is_del(at(ops, j))); }
        else { assert(is_del(at(ops, i))); }
    }
}
/// no file is deleted twice (remove_file on a missing file is an error)
pub open spec fn deletes_once(ops: Seq<FileSystemOperation>) -> bool {
    forall|i: int, j: int| 0 <= i < j < ops.len() && (#[trigger] at(ops, i)) is DeleteFile && (#[trigger] at(ops, j)) is DeleteFile
        ==> at(ops, i)->DeleteFile_0 != at(ops, j)->DeleteFile_0
}
/// the directories the remembered state implies exist: the artifact directory itself and
/// one directory per selectable
pub open spec fn dirs_ok(dir: Dir, st: &FileSystemState, d: Seq<int>) -> bool {
    (dir.dirs)(d) && forall|e: u64, s: u64| #[trigger] st.has_sel(e, s) ==> (dir.dirs)(sel_dir(d, e, s))
}
/// directories while only writes / creates have been applied: nothing disappeared, every
/// created directory exists
pub open spec fn dirs_grow(dk: Dir, dir0: Dir, ops: Seq<FileSystemOperation>, k: int) -> bool {
    &&& forall|q: Seq<int>| (dir0.dirs)(q) ==> #[trigger] (dk.dirs)(q)
    &&& forall|j: int| 0 <= j < k && j < ops.len() && (#[trigger] at(ops, j)) is CreateDirectory ==> (dk.dirs)(at(ops, j)->CreateDirectory_0)
}
/// a justified file deletion is of a file the old state has and the new one has not
pub proof fn lemma_diff_delete_target(x: OpV, o: &FileSystemState, n: &FileSystemState, d: Seq<int>)
    requires op_justified(x, o, n, d), x is DeleteFile,
    ensures
        is_prefix(d, x->DeleteFile_0), o.file_at(d, x->DeleteFile_0) is Some, n.file_at(d, x->DeleteFile_0) is None,
{
    if exists|f: u64| o.has_root(f) && !n.has_root(f) && x == OpV::DeleteFile(root_path(d, f)) {
        let f = choose|f: u64| o.has_root(f) && !n.has_root(f) && x == OpV::DeleteFile(root_path(d, f));
        lemma_paths(d, 0, 0, f); lemma_file_at(o, d, 0, 0, f); lemma_file_at(n, d, 0, 0, f);
    } else {
        let (e, s, f) = choose|e: u64, s: u64, f: u64| o.has_nested(e, s, f) && n.has_sel(e, s) && !n.has_nested(e, s, f) && x == OpV::DeleteFile(nested_path(d, e, s, f));
        lemma_paths(d, e, s, f); lemma_file_at(o, d, e, s, f); lemma_file_at(n, d, e, s, f);
    }
}
/// a justified directory deletion never covers a file that the plan deletes individually
pub proof fn lemma_diff_dir_vs_file(x: OpV, y: OpV, o: &FileSystemState, n: &FileSystemState, d: Seq<int>)
    requires op_justified(x, o, n, d), x is DeleteDirectory, op_justified(y, o, n, d), y is DeleteFile, names_disjoint(o, o),
    ensures !is_prefix(x->DeleteDirectory_0, y->DeleteFile_0),
{
    if is_prefix(x->DeleteDirectory_0, y->DeleteFile_0) {
        if exists|f: u64| o.has_root(f) && !n.has_root(f) && y == OpV::DeleteFile(root_path(d, f)) {
            let f = choose|f: u64| o.has_root(f) && !n.has_root(f) && y == OpV::DeleteFile(root_path(d, f));
            if exists|e1: u64| o.has_entity(e1) && !n.has_entity(e1) && x == OpV::DeleteDirectory(ent_dir(d, e1)) {
                let e1 = choose|e1: u64| o.has_entity(e1) && !n.has_entity(e1) && x == OpV::DeleteDirectory(ent_dir(d, e1));
                lemma_prefixes(d, e1, 0, 0, 0, f);
                assert(o.has_root(f) && o.has_entity(f));
            } else {
                let (e1, s1) = choose|e1: u64, s1: u64| o.has_sel(e1, s1) && n.has_entity(e1) && !n.has_sel(e1, s1) && x == OpV::DeleteDirectory(sel_dir(d, e1, s1));
                lemma_prefixes(d, e1, s1, 0, 0, f);
            }
        } else {
            let (e, s, f) = choose|e: u64, s: u64, f: u64| o.has_nested(e, s, f) && n.has_sel(e, s) && !n.has_nested(e, s, f) && y == OpV::DeleteFile(nested_path(d, e, s, f));
            if exists|e1: u64| o.has_entity(e1) && !n.has_entity(e1) && x == OpV::DeleteDirectory(ent_dir(d, e1)) {
                let e1 = choose|e1: u64| o.has_entity(e1) && !n.has_entity(e1) && x == OpV::DeleteDirectory(ent_dir(d, e1));
                lemma_prefixes(d, e1, 0, e, s, f);
                assert(n.has_entity(e));
            } else {
                let (e1, s1) = choose|e1: u64, s1: u64| o.has_sel(e1, s1) && n.has_entity(e1) && !n.has_sel(e1, s1) && x == OpV::DeleteDirectory(sel_dir(d, e1, s1));
                lemma_prefixes(d, e1, s1, e, s, f);
            }
        }
    }
}
/// key c was produced by one of the first idx steps of an iteration
pub open spec fn vis<V>(seq: Seq<(&u64, &V)>, idx: int, c: int) -> bool {
    exists|k: int| 0 <= k < idx && k < seq.len() && (*(#[trigger] seq[k]).0) as int == c
}
pub open spec fn del3(x: OpV, d: Seq<int>) -> bool { x is DeleteFile && x->DeleteFile_0.len() == d.len() + 3 }
pub open spec fn del1(x: OpV, d: Seq<int>) -> bool { x is DeleteFile && x->DeleteFile_0.len() == d.len() + 1 }
pub open spec fn dcomp(x: OpV, d: Seq<int>, j: int) -> int { x->DeleteFile_0[d.len() as int + j] }
pub proof fn lemma_vis_mono<V>(seq: Seq<(&u64, &V)>, idx: int, c: int)
    ensures vis(seq, idx, c) ==> vis(seq, idx + 1, c)
{
    if vis(seq, idx, c) { let k = choose|k: int| 0 <= k < idx && k < seq.len() && (*(#[trigger] seq[k]).0) as int == c; assert(0 <= k < idx + 1 && (*seq[k].0) as int == c); }
}
/// a HashMap iteration yields every key once: the current key was not seen before
pub proof fn lemma_vis_fresh<V>(seq: Seq<(&u64, &V)>, m: Map<u64, V>, idx: int)
    requires iter_ok(seq, m), 0 <= idx < seq.len(),
    ensures !vis(seq, idx, (*seq[idx].0) as int)
{
    if vis(seq, idx, (*seq[idx].0) as int) {
        let k = choose|k: int| 0 <= k < idx && k < seq.len() && (*(#[trigger] seq[k]).0) as int == (*seq[idx].0) as int;
        assert(*seq[k].0 == *seq[idx].0);
        assert(*seq[k].1 == *seq[idx].1);
        assert(seq[k] == seq[idx]);
    }
}
pub proof fn lemma_push_once(ops: Seq<FileSystemOperation>, op: FileSystemOperation)
    requires deletes_once(ops),
        opv(op) is DeleteFile ==> forall|i: int| 0 <= i < ops.len() && (#[trigger] at(ops, i)) is DeleteFile ==> at(ops, i)->DeleteFile_0 != opv(op)->DeleteFile_0,
    ensures deletes_once(ops.push(op)),
        forall|i: int| 0 <= i < ops.len() ==> #[trigger] at(ops.push(op), i) == at(ops, i),
        at(ops.push(op), ops.len() as int) == opv(op),
{
    let m = ops.push(op);
    assert forall|i: int| 0 <= i < m.len() implies at(m, i) == (if i < ops.len() { at(ops, i) } else { opv(op) }) by {}
    assert forall|i: int, j: int| 0 <= i < j < m.len() && (#[trigger] at(m, i)) is DeleteFile && (#[trigger] at(m, j)) is DeleteFile
        implies at(m, i)->DeleteFile_0 != at(m, j)->DeleteFile_0 by {
        if j < ops.len() { assert(at(ops, i) is DeleteFile && at(ops, j) is DeleteFile); }
        else { assert(at(ops, i) is DeleteFile); }
    }
}
/// C18 / C19, later compiles: applied to a directory that holds what the session remembers,
/// the incremental plan does not fail (no std::fs call in it can hit a missing directory or a
/// missing file), whatever the two states are
pub proof fn lemma_diff_succeeds(dir0: Dir, ops: Seq<FileSystemOperation>, o: &FileSystemState, n: &FileSystemState, d: Seq<int>, h: spec_fn(usize) -> ArtifactHash, k: int)
    requires
        all_justified(ops, o, n, d), writes_have_dirs(ops, o, d), phased(ops), deletes_once(ops),
        names_disjoint(o, n), names_disjoint(o, o), n.hashes_match(h),
        files_match(dir0, o, d), dirs_ok(dir0, o, d),
        0 <= k <= ops.len(),
    ensures
        apply_all(dir0, ops, k, h) is Some,
        (forall|j: int| 0 <= j < k ==> !is_del(#[trigger] at(ops, j))) ==> dirs_grow(apply_all(dir0, ops, k, h)->Some_0, dir0, ops, k),
    decreases k
{
    if k == 0 {
    } else {
        lemma_diff_succeeds(dir0, ops, o, n, d, h, k - 1);
        lemma_diff_fold(dir0, ops, o, n, d, h, k - 1);
        let dk = apply_all(dir0, ops, k - 1, h)->Some_0;
        let x = at(ops, k - 1);
        assert(op_justified(x, o, n, d));
        assert(apply_all(dir0, ops, k, h) == apply_op(dk, x, h));
        if x is WriteFile {
            // everything before a write is a write or a create: directories only grew
            assert forall|j: int| 0 <= j < k - 1 implies !is_del(#[trigger] at(ops, j)) by {
                if is_del(at(ops, j)) { assert(is_del(at(ops, k - 1))); }
            }
            assert(dirs_grow(dk, dir0, ops, k - 1));
            lemma_diff_write(x, o, n, d, h);
            let p0 = x->WriteFile_0;
            assert(p0.len() > 0) by {
                if exists|f: u64| n.has_root(f) && p0 == root_path(d, f) {
                    let f = choose|f: u64| n.has_root(f) && p0 == root_path(d, f); lemma_paths(d, 0, 0, f);
                } else {
                    let (e, s, f) = choose|e: u64, s: u64, f: u64| n.has_nested(e, s, f) && p0 == nested_path(d, e, s, f); lemma_paths(d, e, s, f);
                }
            }
            assert(write_has_dir(ops, k - 1, o, d));
            let parent = p0.drop_last();
            if parent == d {
                assert((dir0.dirs)(d));
            } else if exists|e: u64, s: u64| o.has_sel(e, s) && parent == sel_dir(d, e, s) {
                let (e, s) = choose|e: u64, s: u64| o.has_sel(e, s) && parent == sel_dir(d, e, s);
                assert((dir0.dirs)(sel_dir(d, e, s)));
            } else {
                let j = choose|j: int| 0 <= j < k - 1 && j < ops.len() && #[trigger] at(ops, j) == OpV::CreateDirectory(parent);
                assert(at(ops, j) is CreateDirectory);
            }
            assert((dk.dirs)(parent));
        } else if x is CreateDirectory {
            assert forall|j: int| 0 <= j < k - 1 implies !is_del(#[trigger] at(ops, j)) by {
                if is_del(at(ops, j)) { assert(is_del(at(ops, k - 1))); }
            }
            let q = x->CreateDirectory_0;
            assert(is_prefix(q, q)) by { assert(q.subrange(0, q.len() as int) =~= q); }
        } else if x is DeleteFile {
            let p0 = x->DeleteFile_0;
            lemma_diff_delete_target(x, o, n, d);
            // not rewritten by the plan (writes go to paths of the new state) ...
            if written_d(ops, k - 1, p0) {
                let i = choose|i: int| 0 <= i < k - 1 && i < ops.len() && wr_hit(#[trigger] at(ops, i), p0);
                assert(op_justified(at(ops, i), o, n, d));
                lemma_diff_write(at(ops, i), o, n, d, h);
            }
            // ... and not deleted before: not as a file (deletes_once), not with a directory
            if deleted_d(ops, k - 1, p0) {
                let i = choose|i: int| 0 <= i < k - 1 && i < ops.len() && del_hit(#[trigger] at(ops, i), p0);
                assert(op_justified(at(ops, i), o, n, d));
                if at(ops, i) is DeleteFile {
                    assert(at(ops, i)->DeleteFile_0 != at(ops, k - 1)->DeleteFile_0);
                } else {
                    lemma_diff_dir_vs_file(at(ops, i), x, o, n, d);
                }
            }
            assert(diff_inv(dk, ops, k - 1, o, n, d));
            assert((dk.files)(p0) == o.file_at(d, p0));
        } else {
        }
        if forall|j: int| 0 <= j < k ==> !is_del(#[trigger] at(ops, j)) {
            assert(!is_del(at(ops, k - 1)));
            assert forall|j: int| 0 <= j < k - 1 implies !is_del(#[trigger] at(ops, j)) by {}
            let dn = apply_op(dk, x, h)->Some_0;
            assert(dirs_grow(dk, dir0, ops, k - 1));
            assert forall|j: int| 0 <= j < k && j < ops.len() && (#[trigger] at(ops, j)) is CreateDirectory implies (dn.dirs)(at(ops, j)->CreateDirectory_0) by {
                if j < k - 1 { assert((dk.dirs)(at(ops, j)->CreateDirectory_0)); }
                else { let q = x->CreateDirectory_0; assert(q.subrange(0, q.len() as int) =~= q); }
            }
        }
    }
}
pub open spec fn created_d(ops: Seq<FileSystemOperation>, k: int, q: Seq<int>) -> bool {
    exists|j: int| 0 <= j < k && j < ops.len() && (#[trigger] at(ops, j)) is CreateDirectory && is_prefix(q, at(ops, j)->CreateDirectory_0)
}
pub open spec fn dirdel_d(ops: Seq<FileSystemOperation>, k: int, q: Seq<int>) -> bool {
    exists|j: int| 0 <= j < k && j < ops.len() && (#[trigger] at(ops, j)) is DeleteDirectory && is_prefix(at(ops, j)->DeleteDirectory_0, q)
}
/// the directories after the first k operations of a phased plan that did not fail
pub open spec fn dirs_fold(dk: Dir, dir0: Dir, ops: Seq<FileSystemOperation>, k: int) -> bool {
    forall|q: Seq<int>| #[trigger] (dk.dirs)(q) == (((dir0.dirs)(q) || created_d(ops, k, q)) && !dirdel_d(ops, k, q))
}
pub proof fn lemma_cd_step(ops: Seq<FileSystemOperation>, k: int, q: Seq<int>)
    requires 1 <= k <= ops.len()
    ensures
        created_d(ops, k, q) == (created_d(ops, k - 1, q) || (at(ops, k - 1) is CreateDirectory && is_prefix(q, at(ops, k - 1)->CreateDirectory_0))),
        dirdel_d(ops, k, q) == (dirdel_d(ops, k - 1, q) || (at(ops, k - 1) is DeleteDirectory && is_prefix(at(ops, k - 1)->DeleteDirectory_0, q))),
{
    if created_d(ops, k, q) {
        let j = choose|j: int| 0 <= j < k && j < ops.len() && (#[trigger] at(ops, j)) is CreateDirectory && is_prefix(q, at(ops, j)->CreateDirectory_0);
        if j != k - 1 { assert(0 <= j < k - 1 && at(ops, j) is CreateDirectory); }
    }
    if created_d(ops, k - 1, q) {
        let j = choose|j: int| 0 <= j < k - 1 && j < ops.len() && (#[trigger] at(ops, j)) is CreateDirectory && is_prefix(q, at(ops, j)->CreateDirectory_0);
        assert(0 <= j < k && at(ops, j) is CreateDirectory);
    }
    if at(ops, k - 1) is CreateDirectory && is_prefix(q, at(ops, k - 1)->CreateDirectory_0) { assert(0 <= k - 1 < k && at(ops, k - 1) is CreateDirectory); }
    if dirdel_d(ops, k, q) {
        let j = choose|j: int| 0 <= j < k && j < ops.len() && (#[trigger] at(ops, j)) is DeleteDirectory && is_prefix(at(ops, j)->DeleteDirectory_0, q);
        if j != k - 1 { assert(0 <= j < k - 1 && at(ops, j) is DeleteDirectory); }
    }
    if dirdel_d(ops, k - 1, q) {
        let j = choose|j: int| 0 <= j < k - 1 && j < ops.len() && (#[trigger] at(ops, j)) is DeleteDirectory && is_prefix(at(ops, j)->DeleteDirectory_0, q);
        assert(0 <= j < k && at(ops, j) is DeleteDirectory);
    }
    if at(ops, k - 1) is DeleteDirectory && is_prefix(at(ops, k - 1)->DeleteDirectory_0, q) { assert(0 <= k - 1 < k && at(ops, k - 1) is DeleteDirectory); }
}
pub proof fn lemma_diff_dirs_fold(dir0: Dir, ops: Seq<FileSystemOperation>, h: spec_fn(usize) -> ArtifactHash, k: int)
    requires phased(ops), 0 <= k <= ops.len(), apply_all(dir0, ops, k, h) is Some,
    ensures dirs_fold(apply_all(dir0, ops, k, h)->Some_0, dir0, ops, k),
    decreases k
{
    if k == 0 {
        assert forall|q: Seq<int>| #[trigger] (dir0.dirs)(q) == (((dir0.dirs)(q) || created_d(ops, 0, q)) && !dirdel_d(ops, 0, q)) by {
            assert(!created_d(ops, 0, q) && !dirdel_d(ops, 0, q));
        }
    } else {
        assert(apply_all(dir0, ops, k - 1, h) is Some);
        lemma_diff_dirs_fold(dir0, ops, h, k - 1);
        let dk = apply_all(dir0, ops, k - 1, h)->Some_0;
        let x = at(ops, k - 1);
        let dn = apply_op(dk, x, h)->Some_0;
        assert(apply_all(dir0, ops, k, h) == apply_op(dk, x, h));
        assert forall|q: Seq<int>| #[trigger] (dn.dirs)(q) == (((dir0.dirs)(q) || created_d(ops, k, q)) && !dirdel_d(ops, k, q)) by {
            lemma_cd_step(ops, k, q);
            assert((dk.dirs)(q) == (((dir0.dirs)(q) || created_d(ops, k - 1, q)) && !dirdel_d(ops, k - 1, q)));
            if x is CreateDirectory {
                // a phased plan has not deleted anything before it creates
                if dirdel_d(ops, k - 1, q) {
                    let j = choose|j: int| 0 <= j < k - 1 && j < ops.len() && (#[trigger] at(ops, j)) is DeleteDirectory && is_prefix(at(ops, j)->DeleteDirectory_0, q);
                    assert(is_del(at(ops, j))); assert(is_del(at(ops, k - 1)));
                }
            }
        }
    }
}
pub proof fn lemma_dir_prefixes(d: Seq<int>, e1: u64, s1: u64, e: u64, s: u64)
    ensures
        !is_prefix(ent_dir(d, e1), d), !is_prefix(sel_dir(d, e1, s1), d),
        is_prefix(ent_dir(d, e1), sel_dir(d, e, s)) ==> e1 == e,
        is_prefix(sel_dir(d, e1, s1), sel_dir(d, e, s)) ==> e1 == e && s1 == s,
        is_prefix(sel_dir(d, e, s), sel_dir(d, e, s)),
{
    let dl = d.len() as int;
    if is_prefix(ent_dir(d, e1), sel_dir(d, e, s)) {
        assert(sel_dir(d, e, s).subrange(0, dl + 1)[dl] == ent_dir(d, e1)[dl]);
    }
    if is_prefix(sel_dir(d, e1, s1), sel_dir(d, e, s)) {
        assert(sel_dir(d, e, s).subrange(0, dl + 2)[dl] == sel_dir(d, e1, s1)[dl]);
        assert(sel_dir(d, e, s).subrange(0, dl + 2)[dl + 1] == sel_dir(d, e1, s1)[dl + 1]);
    }
    assert(sel_dir(d, e, s).subrange(0, dl + 2) =~= sel_dir(d, e, s));
}
/// after the incremental plan, every directory the NEW state implies exists (so the next
/// incremental plan finds what it expects)
pub proof fn lemma_diff_dirs(dir0: Dir, ops: Seq<FileSystemOperation>, o: &FileSystemState, n: &FileSystemState, d: Seq<int>, h: spec_fn(usize) -> ArtifactHash)
    requires
        all_justified(ops, o, n, d), writes_have_dirs(ops, o, d), phased(ops), deletes_once(ops),
        all_w(ops, o, n, d),
        names_disjoint(o, n), names_disjoint(o, o), n.hashes_match(h),
        files_match(dir0, o, d), dirs_ok(dir0, o, d),
    ensures
        apply_all(dir0, ops, ops.len() as int, h) is Some,
        dirs_ok(apply_all(dir0, ops, ops.len() as int, h)->Some_0, n, d),
{
    let len = ops.len() as int;
    lemma_diff_succeeds(dir0, ops, o, n, d, h, len);
    lemma_diff_dirs_fold(dir0, ops, h, len);
    let dn = apply_all(dir0, ops, len, h)->Some_0;
    assert(!dirdel_d(ops, len, d)) by {
        if dirdel_d(ops, len, d) {
            let j = choose|j: int| 0 <= j < len && j < ops.len() && (#[trigger] at(ops, j)) is DeleteDirectory && is_prefix(at(ops, j)->DeleteDirectory_0, d);
            assert(op_justified(at(ops, j), o, n, d));
            if exists|e1: u64| o.has_entity(e1) && !n.has_entity(e1) && at(ops, j) == OpV::DeleteDirectory(ent_dir(d, e1)) {
                let e1 = choose|e1: u64| o.has_entity(e1) && !n.has_entity(e1) && at(ops, j) == OpV::DeleteDirectory(ent_dir(d, e1));
                lemma_dir_prefixes(d, e1, 0, 0, 0);
            } else {
                let (e1, s1) = choose|e1: u64, s1: u64| o.has_sel(e1, s1) && n.has_entity(e1) && !n.has_sel(e1, s1) && at(ops, j) == OpV::DeleteDirectory(sel_dir(d, e1, s1));
                lemma_dir_prefixes(d, e1, s1, 0, 0);
            }
        }
    }
    assert((dn.dirs)(d));
    assert forall|e: u64, s: u64| #[trigger] n.has_sel(e, s) implies (dn.dirs)(sel_dir(d, e, s)) by {
        let q = sel_dir(d, e, s);
        lemma_dir_prefixes(d, 0, 0, e, s);
        if !o.has_sel(e, s) {
            assert(n.has_entity(e));
            assert(ent_w(ops, o, n, d, e)); assert(sel_w(ops, o, n, d, e, s));
            let j = choose|j: int| 0 <= j < ops.len() && #[trigger] at(ops, j) == OpV::CreateDirectory(q);
            assert(at(ops, j) is CreateDirectory && is_prefix(q, at(ops, j)->CreateDirectory_0));
            assert(created_d(ops, len, q));
        }
        if dirdel_d(ops, len, q) {
            let j = choose|j: int| 0 <= j < len && j < ops.len() && (#[trigger] at(ops, j)) is DeleteDirectory && is_prefix(at(ops, j)->DeleteDirectory_0, q);
            assert(op_justified(at(ops, j), o, n, d));
            if exists|e1: u64| o.has_entity(e1) && !n.has_entity(e1) && at(ops, j) == OpV::DeleteDirectory(ent_dir(d, e1)) {
                let e1 = choose|e1: u64| o.has_entity(e1) && !n.has_entity(e1) && at(ops, j) == OpV::DeleteDirectory(ent_dir(d, e1));
                lemma_dir_prefixes(d, e1, 0, e, s);
                assert(n.has_entity(e));
            } else {
                let (e1, s1) = choose|e1: u64, s1: u64| o.has_sel(e1, s1) && n.has_entity(e1) && !n.has_sel(e1, s1) && at(ops, j) == OpV::DeleteDirectory(sel_dir(d, e1, s1));
                lemma_dir_prefixes(d, e1, s1, e, s);
            }
        }
    }
}
/// C18, later compiles: if the directory held exactly the files of the remembered state and
/// the diff plan was applied without an error, it holds exactly the files of the new state
pub proof fn lemma_diff_correct(dir0: Dir, ops: Seq<FileSystemOperation>, o: &FileSystemState, n: &FileSystemState, d: Seq<int>, h: spec_fn(usize) -> ArtifactHash)
    requires
        all_justified(ops, o, n, d),
        all_w(ops, o, n, d), roots_w(ops, o, n, d), all_d(ops, o, n, d), roots_d(ops, o, n, d),
        names_disjoint(o, n), n.hashes_match(h),
        files_match(dir0, o, d),
        apply_all(dir0, ops, ops.len() as int, h) is Some,
    ensures
        files_match(apply_all(dir0, ops, ops.len() as int, h)->Some_0, n, d),
{
    let len = ops.len() as int;
    lemma_diff_fold(dir0, ops, o, n, d, h, len);
    let dn = apply_all(dir0, ops, len, h)->Some_0;
    let dl = d.len() as int;
    assert forall|p: Seq<int>| is_prefix(d, p) implies #[trigger] (dn.files)(p) == n.file_at(d, p) by {
        if !written_d(ops, len, p) {
            if deleted_d(ops, len, p) {
                let i = choose|i: int| 0 <= i < len && i < ops.len() && del_hit(#[trigger] at(ops, i), p);
                assert(op_justified(at(ops, i), o, n, d));
                lemma_diff_delete(at(ops, i), p, o, n, d);
            } else if n.file_at(d, p) is Some {
                // unchanged file: not rewritten, so the old state has it with the same content
                lemma_file_at_inv(n, d, p);
                if p.len() == d.len() + 1 {
                    let f = p.last() as u64;
                    lemma_file_at(n, d, 0, 0, f); lemma_file_at(o, d, 0, 0, f);
                    assert(root_w(ops, o, n, d, f));
                    if root_needs_write(o, n, f) {
                        let i = choose|i: int| 0 <= i < ops.len() && #[trigger] at(ops, i) == OpV::WriteFile(root_path(d, f), n.root_idx(f));
                        assert(wr_hit(at(ops, i), p));
                    }
                } else {
                    let e = p[dl] as u64; let s = p[dl + 1] as u64; let f = p[dl + 2] as u64;
                    lemma_file_at(n, d, e, s, f); lemma_file_at(o, d, e, s, f);
                    assert(n.has_entity(e) && n.has_sel(e, s));
                    assert(ent_w(ops, o, n, d, e)); assert(sel_w(ops, o, n, d, e, s)); assert(file_w(ops, o, n, d, e, s, f));
                    if nested_needs_write(o, n, e, s, f) {
                        let i = choose|i: int| 0 <= i < ops.len() && #[trigger] at(ops, i) == OpV::WriteFile(nested_path(d, e, s, f), n.nested_idx(e, s, f));
                        assert(wr_hit(at(ops, i), p));
                    }
                }
            } else if o.file_at(d, p) is Some {
                // vanished file: the plan deletes it, or a directory above it
                lemma_file_at_inv(o, d, p);
                if p.len() == d.len() + 1 {
                    let f = p.last() as u64;
                    lemma_file_at(n, d, 0, 0, f);
                    assert(root_d(ops, o, n, d, f));
                    let i = choose|i: int| 0 <= i < ops.len() && #[trigger] at(ops, i) == OpV::DeleteFile(root_path(d, f));
                    assert(del_hit(at(ops, i), p));
                } else {
                    let e = p[dl] as u64; let s = p[dl + 1] as u64; let f = p[dl + 2] as u64;
                    lemma_file_at(n, d, e, s, f);
                    lemma_prefixes(d, e, s, e, s, f);
                    assert(o.has_entity(e) && o.has_sel(e, s));
                    assert(ent_d(ops, o, n, d, e));
                    if !n.has_entity(e) {
                        let i = choose|i: int| 0 <= i < ops.len() && #[trigger] at(ops, i) == OpV::DeleteDirectory(ent_dir(d, e));
                        assert(del_hit(at(ops, i), p));
                    } else {
                        assert(sel_d(ops, o, n, d, e, s));
                        if !n.has_sel(e, s) {
                            let i = choose|i: int| 0 <= i < ops.len() && #[trigger] at(ops, i) == OpV::DeleteDirectory(sel_dir(d, e, s));
                            assert(del_hit(at(ops, i), p));
                        } else {
                            assert(file_d(ops, o, n, d, e, s, f));
                            let i = choose|i: int| 0 <= i < ops.len() && #[trigger] at(ops, i) == OpV::DeleteFile(nested_path(d, e, s, f));
                            assert(del_hit(at(ops, i), p));
                        }
                    }
                }
            }
        }
    }
}

// ---------------- the artifact list is never empty (generate_artifacts.rs, ts_config.rs) ----------------
/// `"{ .. }".to_string().into()` / `"tsconfig.json".intern().into()`: a content / a file name
/// built from a literal
#[verifier::external_body]
pub fn file_content_of_literal() -> FileContent { unimplemented!() }
#[verifier::external_body]
pub fn file_name_of_literal() -> ArtifactFileName { unimplemented!() }
//@fn rel=crates/artifact_content/src/ts_config.rs name=generate_ts_config vis=pub ret=r serves=C18,C19
//@sub "file_content: [\s\S]*?\.to_string\(\)\s*\.into\(\)" => "file_content: file_content_of_literal()" n=1
//@sub "file_name: [^,]*\.intern\(\)\.into\(\)" => "file_name: file_name_of_literal()" n=1
//@contract
    ensures art_root(r), //@O C18+C19.O-0_tsconfig_is_a_root_artifact
//@end
#[verifier::external_body]
pub struct IsographDb { p: core::marker::PhantomData<u8> }
pub struct ArtifactOptions { pub include_file_extensions_in_import_statements: bool, pub no_babel_transform: bool }
pub struct ArtifactConfig { pub options: ArtifactOptions }
#[verifier::external_body]
pub struct PersistedDocuments { p: core::marker::PhantomData<u8> }
impl PersistedDocuments {
    #[verifier::external_body]
    pub fn path_and_content(self) -> ArtifactPathAndContent { unimplemented!() }
}
/// iso.ts (no contract: whatever it returns)
#[verifier::external_body]
pub fn build_iso_overload_artifact(db: &IsographDb, include_file_extensions: bool, no_babel_transform: bool) -> ArtifactPathAndContent { unimplemented!() }
pub open spec fn has_root_artifact(arts: Seq<ArtifactPathAndContent>) -> bool {
    exists|i: int| 0 <= i < arts.len() && art_root(#[trigger] arts[i])
}
/// the LAST statements of the real get_artifact_path_and_content (extracted; everything before
/// them only fills `path_and_contents`): whatever was collected, iso.ts and tsconfig.json are
/// appended, so no artifact list is empty and every list holds a root file
pub fn artifact_list_tail(path_and_contents: Vec<ArtifactPathAndContent>, db: &IsographDb, config: &ArtifactConfig,
    persisted_documents: Option<PersistedDocuments>) -> (r: Vec<ArtifactPathAndContent>)
    ensures has_root_artifact(r@), //@O C18+C19.O-0_every_artifact_list_holds_a_root_file
{
    let mut path_and_contents = path_and_contents;
    let ghost n0 = path_and_contents@.len();
//@expr rel=crates/artifact_content/src/generate_artifacts.rs fn=get_artifact_path_and_content_impl start="path_and_contents.push(build_iso_overload_artifact(" until="$" block=artifact_list_tail serves=C18,C19 sub="path_and_contents\.push\(generate_ts_config\(\)\);=>path_and_contents.push(generate_ts_config()); proof { assert(art_root(path_and_contents@[n0 as int + 1])); }" sub2="\}\s*path_and_contents\s*$=>} proof { assert(art_root(path_and_contents@[n0 as int + 1])); } path_and_contents"
}
/// among the artifacts with the path of artifact i there is a last one
pub proof fn lemma_last_exists(arts: Seq<ArtifactPathAndContent>, i: int, k: int)
    requires 0 <= i <= k < arts.len(), same_path(arts[i], arts[k]),
    ensures exists|j: int| k <= j < arts.len() && #[trigger] last_of_path(arts, arts.len() as int, j) && same_path(arts[i], arts[j]),
    decreases arts.len() - k
{
    if forall|j: int| k < j < arts.len() ==> !same_path(arts[k], #[trigger] arts[j]) {
        assert(last_of_path(arts, arts.len() as int, k));
    } else {
        let j = choose|j: int| k < j < arts.len() && same_path(arts[k], #[trigger] arts[j]);
        assert(same_path(arts[i], arts[j]));
        lemma_last_exists(arts, i, j);
    }
}
/// a state built from a list that holds a root file is not empty
pub proof fn lemma_root_artifact_nonempty(st: &FileSystemState, arts: Seq<ArtifactPathAndContent>)
    requires st.reflects(arts, arts.len() as int), has_root_artifact(arts),
    ensures st.nonempty(),
{
    let i = choose|i: int| 0 <= i < arts.len() && art_root(#[trigger] arts[i]);
    lemma_last_exists(arts, i, i);
    let j = choose|j: int| i <= j < arts.len() && #[trigger] last_of_path(arts, arts.len() as int, j) && same_path(arts[i], arts[j]);
    assert(art_root(arts[j]));
    assert(st.has_root(art_f(arts[j])));
}

// =====================================================================================
// Sessions: from the per-call contracts to "for every history of compiles" (C17/C18/C19)
// =====================================================================================
/// what get_file_system_operations guarantees about its plan, in terms of the directory
/// (postcondition C18.O-8 of the real function; O-5/O-6/O-7 folded into one predicate)
pub open spec fn planned(o: Option<FileSystemState>, arts: Seq<ArtifactPathAndContent>, d: Seq<int>,
    ops: Seq<FileSystemOperation>, st: FileSystemState) -> bool {
    &&& st.reflects(arts, arts.len() as int)
    &&& st.sels_nonempty()
    &&& o is None ==> forall|dir0: Dir| (#[trigger] apply_all(dir0, ops, ops.len() as int, contents_of(arts))) is Some
            && files_match(apply_all(dir0, ops, ops.len() as int, contents_of(arts))->Some_0, &st, d)
            && (st.nonempty() ==> dirs_ok(apply_all(dir0, ops, ops.len() as int, contents_of(arts))->Some_0, &st, d))
    &&& o is Some ==> forall|dir0: Dir| files_match(dir0, &o->Some_0, d) && dirs_ok(dir0, &o->Some_0, d)
            && names_disjoint(&o->Some_0, &st) && names_disjoint(&o->Some_0, &o->Some_0)
            ==> (#[trigger] apply_all(dir0, ops, ops.len() as int, contents_of(arts))) is Some
                && dirs_ok(apply_all(dir0, ops, ops.len() as int, contents_of(arts))->Some_0, &st, d)
    &&& o is Some ==> forall|dir0: Dir| files_match(dir0, &o->Some_0, d) && names_disjoint(&o->Some_0, &st)
            && (#[trigger] apply_all(dir0, ops, ops.len() as int, contents_of(arts))) is Some
            ==> files_match(apply_all(dir0, ops, ops.len() as int, contents_of(arts))->Some_0, &st, d)
}
/// how one call of compile() ended, as its contract (unit compile_driver) distinguishes it
pub enum Outcome {
    /// an error before anything was planned (C17: nothing written, remembered state untouched)
    FailedBeforePlanning,
    /// apply_file_system_operations returned Err: the directory is in SOME state, and compile
    /// forgets what it knew about it (C18+C19.O-1)
    FailedInApply(Dir),
    /// the plan was applied completely; the planner's state is remembered
    Succeeded,
}
pub struct CompileRec {
    pub arts: Seq<ArtifactPathAndContent>,
    pub ops: Seq<FileSystemOperation>,
    pub st: FileSystemState,
    pub outcome: Outcome,
}
/// the artifact directory (under the transcribed std::fs semantics) and what the compiler
/// remembers about it
pub struct World { pub dir: Dir, pub state: Option<FileSystemState> }
pub open spec fn step(w: World, r: CompileRec) -> World {
    match r.outcome {
        Outcome::FailedBeforePlanning => w,
        Outcome::FailedInApply(dir2) => World { dir: dir2, state: None },
        Outcome::Succeeded => World {
            dir: apply_all(w.dir, r.ops, r.ops.len() as int, contents_of(r.arts))->Some_0,
            state: Some(r.st),
        },
    }
}
/// the record is what the contracts allow in world w
pub open spec fn rec_ok(w: World, r: CompileRec, d: Seq<int>) -> bool {
    r.outcome is FailedBeforePlanning || {
        &&& planned(w.state, r.arts, d, r.ops, r.st)
        &&& w.state is Some ==> names_disjoint(&w.state->Some_0, &r.st)
        // about the artifact lists: a root file is never named like an entity directory (assumed),
        // and every list holds a root file (C18+C19.O-0: proved for the last statements of the real
        // get_artifact_path_and_content, which appends iso.ts and tsconfig.json to whatever it
        // collected; that compile() plans exactly that list is compile's contract, unit compile_driver)
        &&& names_disjoint(&r.st, &r.st)
        &&& has_root_artifact(r.arts)
        // apply returned Ok only if every operation succeeded
        &&& r.outcome is Succeeded ==> apply_all(w.dir, r.ops, r.ops.len() as int, contents_of(r.arts)) is Some
    }
}
pub open spec fn run(w0: World, recs: Seq<CompileRec>, k: int) -> World
    decreases k
{
    if k <= 0 { w0 } else { step(run(w0, recs, k - 1), recs[k - 1]) }
}
pub open spec fn all_ok(w0: World, recs: Seq<CompileRec>, k: int, d: Seq<int>) -> bool {
    forall|i: int| 0 <= i < k ==> rec_ok(run(w0, recs, i), #[trigger] recs[i], d)
}
/// the session invariant: whenever the compiler remembers a state, the directory holds
/// exactly the files of that state
pub open spec fn world_inv(w: World, d: Seq<int>) -> bool {
    w.state is Some ==> files_match(w.dir, &w.state->Some_0, d) && dirs_ok(w.dir, &w.state->Some_0, d)
        && names_disjoint(&w.state->Some_0, &w.state->Some_0)
}
/// C17 + C18 + C19 for every history: a session starts knowing nothing about the directory
/// (whatever it holds); after ANY sequence of compiles - failing before planning, failing
/// half-way through the writes, or succeeding - the invariant holds, and after every
/// successful compile the directory holds exactly the artifacts of that compile.
pub proof fn lemma_session(w0: World, recs: Seq<CompileRec>, k: int, d: Seq<int>)
    requires w0.state is None, 0 <= k <= recs.len(), all_ok(w0, recs, k, d),
    ensures
        world_inv(run(w0, recs, k), d),
        forall|i: int| 0 <= i < k && (#[trigger] recs[i]).outcome is Succeeded ==>
            files_match(run(w0, recs, i + 1).dir, &recs[i].st, d)
            && recs[i].st.reflects(recs[i].arts, recs[i].arts.len() as int)
            && run(w0, recs, i + 1).state == Some(recs[i].st),
        // no plan fails by itself: whenever a compile got as far as planning, its plan applies
        // completely to the directory as the session left it (an Err from the apply step can
        // only be a genuine I/O failure)
        forall|i: int| 0 <= i < k && !((#[trigger] recs[i]).outcome is FailedBeforePlanning) ==>
            apply_all(run(w0, recs, i).dir, recs[i].ops, recs[i].ops.len() as int, contents_of(recs[i].arts)) is Some,
    decreases k
{
    if k > 0 {
        assert(all_ok(w0, recs, k - 1, d));
        lemma_session(w0, recs, k - 1, d);
        let w = run(w0, recs, k - 1);
        let r = recs[k - 1];
        assert(rec_ok(w, r, d));
        assert(run(w0, recs, k) == step(w, r));
        if !(r.outcome is FailedBeforePlanning) { lemma_root_artifact_nonempty(&r.st, r.arts); }
        if r.outcome is Succeeded {
            let h = contents_of(r.arts);
            let a = apply_all(w.dir, r.ops, r.ops.len() as int, h);
            assert(files_match(a->Some_0, &r.st, d));
        }
        assert forall|i: int| 0 <= i < k && (#[trigger] recs[i]).outcome is Succeeded implies
            files_match(run(w0, recs, i + 1).dir, &recs[i].st, d)
            && recs[i].st.reflects(recs[i].arts, recs[i].arts.len() as int)
            && run(w0, recs, i + 1).state == Some(recs[i].st) by {
            if i == k - 1 { } 
        }
        assert forall|i: int| 0 <= i < k && !((#[trigger] recs[i]).outcome is FailedBeforePlanning) implies
            apply_all(run(w0, recs, i).dir, recs[i].ops, recs[i].ops.len() as int, contents_of(recs[i].arts)) is Some by {
            if i == k - 1 {
                assert(world_inv(w, d));
                assert(planned(w.state, r.arts, d, r.ops, r.st));
            }
        }
    }
}

} // verus!
fn main() {}
