// unit fs_state — Verus. Real bodies of artifact_content::FileSystemState::{recreate_all,
// diff} (extracted on every run) against vstd's HashMap/HashSet/Vec specs and an assumed
// contract for Path::join. Serves C18 (the planned operations turn the directory into
// exactly the artifact set) and, through recreate_all, C19 (repair from any directory).
use vstd::prelude::*;
use std::collections::{HashMap, HashSet};
use vstd::std_specs::iter::IteratorSpec;
verus! {
broadcast use vstd::std_specs::hash::group_hash_axioms;

// =====================================================================================
// Assumed contracts (trusted base; hand written)
// =====================================================================================
// R8: interned names are integers (assumes the interning bijection, C05; Display/AsRef<Path>
// of a name is an injective function of the id)
pub type EntityName = u64;
pub type SelectableName = u64;
pub type ArtifactFileName = u64;

// std::path::{Path, PathBuf}: a path is its sequence of components; `join(c)` with a
// separator-free single component appends one component (prefix preserving, injective)
#[verifier::external_body]
pub struct Path { p: core::marker::PhantomData<u8> }
pub type PathBuf = Path;
impl View for Path { type V = Seq<int>; uninterp spec fn view(&self) -> Seq<int>; }
pub trait PathComponent { spec fn comp(&self) -> int; }
impl PathComponent for u64 { open spec fn comp(&self) -> int { *self as int } }
impl PathComponent for &u64 { open spec fn comp(&self) -> int { **self as int } }
impl Path {
    #[verifier::external_body]
    pub fn join<T: PathComponent>(&self, c: T) -> (r: PathBuf) ensures r@ == self@.push(c.comp()) { unimplemented!() }
    #[verifier::external_body]
    pub fn to_path_buf(&self) -> (r: PathBuf) ensures r@ == self@ { unimplemented!() }
}
impl Clone for Path {
    #[verifier::external_body]
    fn clone(&self) -> (r: Path) ensures r@ == self@ { unimplemented!() }
}

#[verifier::external_body]
pub struct FileContent { p: core::marker::PhantomData<u8> }
/// md5 of the content as stored in the state; equality of hashes is what `diff` compares
#[derive(PartialEq, Eq, Structural)]
pub struct ArtifactHash(pub u128);
impl Clone for ArtifactHash { fn clone(&self) -> (r: Self) ensures r == *self { ArtifactHash(self.0) } }

// pico::Index<T> (pushed text) with the semantics of its derived Clone assumed
//@item rel=crates/pico/src/index.rs kind=struct name=Index prefix="pub"
use core::marker::PhantomData;
impl<T> Clone for Index<T> {
    fn clone(&self) -> (r: Self) ensures r.idx == self.idx { Index { idx: self.idx, phantom: PhantomData } }
}

// =====================================================================================
// Extracted types
// =====================================================================================
//@item rel=crates/common_lang_types/src/file_system_operation.rs kind=enum name=FileSystemOperation prefix="pub"
//@item rel=crates/artifact_content/src/file_system_state.rs kind=struct name=FileSystemState prefix="pub"

// =====================================================================================
// Abstract view: the directory content a state stands for, and the meaning of a plan
// =====================================================================================
pub enum OpV {
    DeleteDirectory(Seq<int>),
    CreateDirectory(Seq<int>),
    WriteFile(Seq<int>, usize),
    DeleteFile(Seq<int>),
}
pub open spec fn opv(op: FileSystemOperation) -> OpV {
    match op {
        FileSystemOperation::DeleteDirectory(p) => OpV::DeleteDirectory(p@),
        FileSystemOperation::CreateDirectory(p) => OpV::CreateDirectory(p@),
        FileSystemOperation::WriteFile(p, i) => OpV::WriteFile(p@, i.idx),
        FileSystemOperation::DeleteFile(p) => OpV::DeleteFile(p@),
    }
}
/// op number i of the plan, abstractly
pub open spec fn at(ops: Seq<FileSystemOperation>, i: int) -> OpV { opv(ops[i]) }
pub open spec fn emits(ops: Seq<FileSystemOperation>, o: OpV) -> bool {
    exists|i: int| 0 <= i < ops.len() && #[trigger] at(ops, i) == o
}
/// `o` is emitted strictly before position `before`, and after the initial wipe at 0
pub open spec fn emits_between(ops: Seq<FileSystemOperation>, o: OpV, before: int) -> bool {
    exists|j: int| 0 < j < before && j < ops.len() && #[trigger] at(ops, j) == o
}

impl FileSystemState {
    pub open spec fn has_root(&self, f: u64) -> bool { self.root_files@.contains_key(f) }
    pub open spec fn root_idx(&self, f: u64) -> usize { self.root_files@[f].0.idx }
    pub open spec fn root_hash(&self, f: u64) -> ArtifactHash { self.root_files@[f].1 }
    pub open spec fn has_entity(&self, e: u64) -> bool { self.nested_files@.contains_key(e) }
    pub open spec fn has_sel(&self, e: u64, s: u64) -> bool {
        self.has_entity(e) && self.nested_files@[e]@.contains_key(s)
    }
    pub open spec fn has_nested(&self, e: u64, s: u64, f: u64) -> bool {
        self.has_sel(e, s) && self.nested_files@[e]@[s]@.contains_key(f)
    }
    pub open spec fn nested_idx(&self, e: u64, s: u64, f: u64) -> usize { self.nested_files@[e]@[s]@[f].0.idx }
    pub open spec fn nested_hash(&self, e: u64, s: u64, f: u64) -> ArtifactHash { self.nested_files@[e]@[s]@[f].1 }
}
pub open spec fn root_path(d: Seq<int>, f: u64) -> Seq<int> { d.push(f as int) }
pub open spec fn sel_dir(d: Seq<int>, e: u64, s: u64) -> Seq<int> { d.push(e as int).push(s as int) }
pub open spec fn nested_path(d: Seq<int>, e: u64, s: u64, f: u64) -> Seq<int> { d.push(e as int).push(s as int).push(f as int) }

/// every WriteFile of the plan writes a file of `st` to its own path with its own content
pub open spec fn writes_sound(ops: Seq<FileSystemOperation>, st: &FileSystemState, d: Seq<int>, with_root: bool) -> bool {
    forall|i: int| 0 <= i < ops.len() && (#[trigger] at(ops, i)) is WriteFile ==>
        (with_root && exists|f: u64| st.has_root(f) && at(ops, i) == OpV::WriteFile(root_path(d, f), st.root_idx(f)))
        || (exists|e: u64, s: u64, f: u64| st.has_nested(e, s, f) && at(ops, i) == OpV::WriteFile(nested_path(d, e, s, f), st.nested_idx(e, s, f)))
}
/// every WriteFile is preceded (after the wipe) by the creation of its parent directory
pub open spec fn parents_created(ops: Seq<FileSystemOperation>) -> bool {
    forall|i: int| 0 <= i < ops.len() && (#[trigger] at(ops, i)) is WriteFile ==>
        emits_between(ops, OpV::CreateDirectory(at(ops, i)->WriteFile_0.drop_last()), i)
}
/// the plan starts by wiping the directory and never deletes anything afterwards
pub open spec fn wipes_first(ops: Seq<FileSystemOperation>, d: Seq<int>) -> bool {
    &&& ops.len() > 0
    &&& at(ops, 0) == OpV::DeleteDirectory(d)
    &&& forall|i: int| 0 < i < ops.len() ==> (#[trigger] at(ops, i)) is WriteFile || at(ops, i) is CreateDirectory
}

pub proof fn lemma_push_emits(ops: Seq<FileSystemOperation>, op: FileSystemOperation, o: OpV)
    ensures
        emits(ops, o) ==> emits(ops.push(op), o),
        emits(ops.push(op), opv(op)),
{
    if emits(ops, o) {
        let i = choose|i: int| 0 <= i < ops.len() && #[trigger] at(ops, i) == o;
        assert(at(ops.push(op), i) == o);
    }
    assert(at(ops.push(op), ops.len() as int) == opv(op));
}

/// what iterating a HashMap yields (vstd's contract for HashMap::iter, restated over `seq()`)
pub open spec fn iter_ok<K, V>(seq: Seq<(&K, &V)>, m: Map<K, V>) -> bool {
    &&& seq.no_duplicates()
    &&& forall|k: int| 0 <= k < seq.len() ==> m.contains_key(*(#[trigger] seq[k]).0) && m[*seq[k].0] == *seq[k].1
    &&& forall|key: K| #[trigger] m.contains_key(key) ==> exists|k: int| 0 <= k < seq.len() && *seq[k].0 == key
}

pub type FileMap = Map<u64, (Index<FileContent>, ArtifactHash)>;
pub type SelMap = Map<u64, HashMap<u64, (Index<FileContent>, ArtifactHash)>>;
pub type EntMap = Map<u64, HashMap<u64, HashMap<u64, (Index<FileContent>, ArtifactHash)>>>;

pub open spec fn file_written(ops: Seq<FileSystemOperation>, d: Seq<int>, e: u64, s: u64, f: u64, v: (Index<FileContent>, ArtifactHash)) -> bool {
    emits(ops, OpV::WriteFile(nested_path(d, e, s, f), v.0.idx))
}
pub open spec fn files_written(ops: Seq<FileSystemOperation>, d: Seq<int>, e: u64, s: u64, fm: FileMap) -> bool {
    forall|f: u64| #[trigger] fm.contains_key(f) ==> file_written(ops, d, e, s, f, fm[f])
}
pub open spec fn sels_written(ops: Seq<FileSystemOperation>, d: Seq<int>, e: u64, sm: SelMap) -> bool {
    forall|s: u64| #[trigger] sm.contains_key(s) ==> files_written(ops, d, e, s, sm[s]@)
}
pub open spec fn ents_written(ops: Seq<FileSystemOperation>, d: Seq<int>, em: EntMap) -> bool {
    forall|e: u64| #[trigger] em.contains_key(e) ==> sels_written(ops, d, e, em[e]@)
}
pub open spec fn roots_written(ops: Seq<FileSystemOperation>, d: Seq<int>, fm: FileMap) -> bool {
    forall|f: u64| #[trigger] fm.contains_key(f) ==> emits(ops, OpV::WriteFile(root_path(d, f), fm[f].0.idx))
}

pub proof fn lemma_push_mono(ops: Seq<FileSystemOperation>, op: FileSystemOperation, d: Seq<int>)
    ensures
        forall|o: OpV| emits(ops, o) ==> #[trigger] emits(ops.push(op), o),
        forall|e: u64, s: u64, fm: FileMap| files_written(ops, d, e, s, fm) ==> #[trigger] files_written(ops.push(op), d, e, s, fm),
        forall|e: u64, sm: SelMap| sels_written(ops, d, e, sm) ==> #[trigger] sels_written(ops.push(op), d, e, sm),
        forall|em: EntMap| ents_written(ops, d, em) ==> #[trigger] ents_written(ops.push(op), d, em),
        forall|fm: FileMap| roots_written(ops, d, fm) ==> #[trigger] roots_written(ops.push(op), d, fm),
        forall|o: OpV| emits_between(ops, o, ops.len() as int) ==> #[trigger] emits_between(ops.push(op), o, ops.len() as int + 1),
{
    assert forall|o: OpV| emits(ops, o) implies #[trigger] emits(ops.push(op), o) by { lemma_push_emits(ops, op, o); }
    assert forall|o: OpV| emits_between(ops, o, ops.len() as int) implies #[trigger] emits_between(ops.push(op), o, ops.len() as int + 1) by {
        let j = choose|j: int| 0 < j < ops.len() && j < ops.len() && #[trigger] at(ops, j) == o;
        assert(at(ops.push(op), j) == o);
    }
}

/// appending an operation that deletes nothing keeps the three plan properties, provided a
/// WriteFile writes a file of the state and its parent directory was created before it
pub proof fn lemma_push_plan(ops: Seq<FileSystemOperation>, op: FileSystemOperation, st: &FileSystemState, d: Seq<int>, with_root: bool)
    requires
        wipes_first(ops, d), writes_sound(ops, st, d, with_root), parents_created(ops),
        opv(op) is CreateDirectory || opv(op) is WriteFile,
        opv(op) is WriteFile ==> emits_between(ops, OpV::CreateDirectory(opv(op)->WriteFile_0.drop_last()), ops.len() as int),
        opv(op) is WriteFile ==>
            (with_root && exists|f: u64| st.has_root(f) && opv(op) == OpV::WriteFile(root_path(d, f), st.root_idx(f)))
            || (exists|e: u64, s: u64, f: u64| st.has_nested(e, s, f) && opv(op) == OpV::WriteFile(nested_path(d, e, s, f), st.nested_idx(e, s, f))),
    ensures
        wipes_first(ops.push(op), d), writes_sound(ops.push(op), st, d, with_root), parents_created(ops.push(op)),
{
    let n = ops.push(op);
    assert forall|i: int| 0 <= i < n.len() implies at(n, i) == (if i < ops.len() { at(ops, i) } else { opv(op) }) by {}
    assert forall|i: int| 0 <= i < n.len() && (#[trigger] at(n, i)) is WriteFile implies
        emits_between(n, OpV::CreateDirectory(at(n, i)->WriteFile_0.drop_last()), i) by {
        let target = OpV::CreateDirectory(at(n, i)->WriteFile_0.drop_last());
        if i < ops.len() {
            assert(at(ops, i) is WriteFile);
            let j = choose|j: int| 0 < j < i && j < ops.len() && #[trigger] at(ops, j) == target;
            assert(at(n, j) == target);
        } else {
            let j = choose|j: int| 0 < j < ops.len() && j < ops.len() && #[trigger] at(ops, j) == target;
            assert(at(n, j) == target);
        }
    }
    assert forall|i: int| 0 <= i < n.len() && (#[trigger] at(n, i)) is WriteFile implies
        ((with_root && exists|f: u64| st.has_root(f) && at(n, i) == OpV::WriteFile(root_path(d, f), st.root_idx(f)))
        || (exists|e: u64, s: u64, f: u64| st.has_nested(e, s, f) && at(n, i) == OpV::WriteFile(nested_path(d, e, s, f), st.nested_idx(e, s, f)))) by {
        if i < ops.len() { assert(at(ops, i) is WriteFile); }
    }
    assert forall|i: int| 0 < i < n.len() implies (#[trigger] at(n, i)) is WriteFile || at(n, i) is CreateDirectory by {
        if i < ops.len() { assert(at(ops, i) is WriteFile || at(ops, i) is CreateDirectory); }
    }
    assert(at(n, 0) == at(ops, 0));
}

pub proof fn lemma_sound_weaken(ops: Seq<FileSystemOperation>, st: &FileSystemState, d: Seq<int>)
    requires writes_sound(ops, st, d, false)
    ensures writes_sound(ops, st, d, true)
{
    assert forall|i: int| 0 <= i < ops.len() && (#[trigger] at(ops, i)) is WriteFile implies
        ((true && exists|f: u64| st.has_root(f) && at(ops, i) == OpV::WriteFile(root_path(d, f), st.root_idx(f)))
        || (exists|e: u64, s: u64, f: u64| st.has_nested(e, s, f) && at(ops, i) == OpV::WriteFile(nested_path(d, e, s, f), st.nested_idx(e, s, f)))) by {}
}

impl FileSystemState {
// ---- pushed code under contract ------------------------------------------------------

//@fn rel=crates/artifact_content/src/file_system_state.rs name=recreate_all within="impl FileSystemState" vis=pub ret=ops serves=C18,C19
//@sub "in &state\.nested_files \{" => "in it1: state.nested_files.iter() {" n=1
//@sub "in new_selectable_map \{" => "in it2: new_selectable_map.iter() {" n=1
//@sub "in new_files \{" => "in it3: new_files.iter() {" n=1
//@sub "in &state\.root_files \{" => "in it4: state.root_files.iter() {" n=1
//@contract
        ensures
            // whatever the directory held before is wiped first, nothing is deleted later
            wipes_first(ops@, artifact_directory@), //@O C18+C19.O-2a_recreate_all_wipes_first
            // only files of the state are written, each to its own path with its own content
            writes_sound(ops@, state, artifact_directory@, true), //@O C18.O-2b_recreate_all_writes_only_state_files
            // every file of the state is written
            roots_written(ops@, artifact_directory@, state.root_files@), //@O C18.O-2c_recreate_all_writes_every_root_file
            ents_written(ops@, artifact_directory@, state.nested_files@), //@O C18.O-2d_recreate_all_writes_every_nested_file
            // every write finds its parent directory: created after the wipe, before the write
            parents_created(ops@), //@O C18+C19.O-2e_recreate_all_creates_parent_directory_before_each_write
//@after "operations.push(FileSystemOperation::DeleteDirectory("
        proof {
            assert(at(operations@, 0) == OpV::DeleteDirectory(artifact_directory@));
        }
//@loop 1
            invariant
                wipes_first(operations@, artifact_directory@),
                writes_sound(operations@, state, artifact_directory@, false),
                parents_created(operations@),
                iter_ok(it1.seq(), state.nested_files@),
                forall|k: int| 0 <= k < it1.index@ ==> sels_written(operations@, artifact_directory@, *(#[trigger] it1.seq()[k]).0, it1.seq()[k].1@),
//@loop 2
                invariant
                    wipes_first(operations@, artifact_directory@),
                    writes_sound(operations@, state, artifact_directory@, false),
                    parents_created(operations@),
                    iter_ok(it1.seq(), state.nested_files@),
                    0 <= it1.index@ < it1.seq().len(),
                    forall|k: int| 0 <= k < it1.index@ ==> sels_written(operations@, artifact_directory@, *(#[trigger] it1.seq()[k]).0, it1.seq()[k].1@),
                    state.nested_files@.contains_key(*new_server_object_entity_name),
                    state.nested_files@[*new_server_object_entity_name] == *new_selectable_map,
                    (*new_server_object_entity_name, new_selectable_map) == (*it1.seq()[it1.index@].0, it1.seq()[it1.index@].1),
                    new_server_object_path@ == artifact_directory@.push(*new_server_object_entity_name as int),
                    iter_ok(it2.seq(), new_selectable_map@),
                    forall|k: int| 0 <= k < it2.index@ ==> files_written(operations@, artifact_directory@, *new_server_object_entity_name, *(#[trigger] it2.seq()[k]).0, it2.seq()[k].1@),
//@loop 3
                    invariant
                        wipes_first(operations@, artifact_directory@),
                        writes_sound(operations@, state, artifact_directory@, false),
                        parents_created(operations@),
                        iter_ok(it1.seq(), state.nested_files@),
                        0 <= it1.index@ < it1.seq().len(),
                        forall|k: int| 0 <= k < it1.index@ ==> sels_written(operations@, artifact_directory@, *(#[trigger] it1.seq()[k]).0, it1.seq()[k].1@),
                        state.nested_files@.contains_key(*new_server_object_entity_name),
                        state.nested_files@[*new_server_object_entity_name] == *new_selectable_map,
                        new_server_object_path@ == artifact_directory@.push(*new_server_object_entity_name as int),
                        iter_ok(it2.seq(), new_selectable_map@),
                        0 <= it2.index@ < it2.seq().len(),
                        forall|k: int| 0 <= k < it2.index@ ==> files_written(operations@, artifact_directory@, *new_server_object_entity_name, *(#[trigger] it2.seq()[k]).0, it2.seq()[k].1@),
                        new_selectable_map@.contains_key(*new_selectable),
                        new_selectable_map@[*new_selectable] == *new_files,
                        new_selectable_path@ == sel_dir(artifact_directory@, *new_server_object_entity_name, *new_selectable),
                        emits_between(operations@, OpV::CreateDirectory(new_selectable_path@), operations@.len() as int),
                        iter_ok(it3.seq(), new_files@),
                        forall|k: int| 0 <= k < it3.index@ ==> file_written(operations@, artifact_directory@, *new_server_object_entity_name, *new_selectable, *(#[trigger] it3.seq()[k]).0, *it3.seq()[k].1),
//@before "operations.push(FileSystemOperation::CreateDirectory("
                let ghost old_ops = operations@;
//@after "operations.push(FileSystemOperation::CreateDirectory("
                proof {
                    let pushed = operations@[operations@.len() - 1];
                    assert(operations@ == old_ops.push(pushed));
                    assert(opv(pushed) == OpV::CreateDirectory(new_selectable_path@));
                    lemma_push_mono(old_ops, pushed, artifact_directory@);
                    lemma_push_plan(old_ops, pushed, state, artifact_directory@, false);
                    assert(at(operations@, operations@.len() - 1) == OpV::CreateDirectory(new_selectable_path@));
                }
//@before "operations.push(FileSystemOperation::WriteFile(" nth=0
                    let ghost old_ops3 = operations@;
//@after "operations.push(FileSystemOperation::WriteFile(" nth=0
                    proof {
                        let e = *new_server_object_entity_name; let s = *new_selectable; let f = *new_file_name;
                        let pushed = operations@[operations@.len() - 1];
                        assert(operations@ == old_ops3.push(pushed));
                        assert(new_files@.contains_key(f) && new_files@[f] == *it3.seq()[it3.index@].1);
                        assert(state.has_nested(e, s, f));
                        assert(new_file_path@ == nested_path(artifact_directory@, e, s, f));
                        assert(new_file_path@.drop_last() == new_selectable_path@);
                        assert(opv(pushed) == OpV::WriteFile(nested_path(artifact_directory@, e, s, f), state.nested_idx(e, s, f)));
                        lemma_push_mono(old_ops3, pushed, artifact_directory@);
                        lemma_push_plan(old_ops3, pushed, state, artifact_directory@, false);
                        lemma_push_emits(old_ops3, pushed, opv(pushed));
                        let c = choose|j: int| 0 < j < old_ops3.len() && j < old_ops3.len() && #[trigger] at(old_ops3, j) == OpV::CreateDirectory(new_selectable_path@);
                        assert(at(operations@, c) == OpV::CreateDirectory(new_selectable_path@));
                    }
//@after "for (new_server_object_entity_name, new_selectable_map) in"
        proof {
            lemma_sound_weaken(operations@, state, artifact_directory@);
        }
//@before "if !state.root_files.is_empty()" opt
        let ghost old_ops_r = operations@;
//@after "if !state.root_files.is_empty()" opt
        proof {
            if state.root_files@.len() != 0 {
                let pushed = operations@[operations@.len() - 1];
                assert(operations@ == old_ops_r.push(pushed));
                assert(opv(pushed) == OpV::CreateDirectory(artifact_directory@));
                lemma_push_mono(old_ops_r, pushed, artifact_directory@);
                lemma_push_plan(old_ops_r, pushed, state, artifact_directory@, true);
                assert(at(operations@, operations@.len() - 1) == OpV::CreateDirectory(artifact_directory@));
            }
        }
//@loop 4
            invariant
                wipes_first(operations@, artifact_directory@),
                writes_sound(operations@, state, artifact_directory@, true),
                parents_created(operations@),
                ents_written(operations@, artifact_directory@, state.nested_files@),
                iter_ok(it4.seq(), state.root_files@),
                forall|k: int| 0 <= k < it4.index@ ==> emits(operations@, OpV::WriteFile(root_path(artifact_directory@, *(#[trigger] it4.seq()[k]).0), it4.seq()[k].1.0.idx)),
                // the artifact directory itself exists again before any root file is written
                it4.seq().len() > 0 ==> emits_between(operations@, OpV::CreateDirectory(artifact_directory@), operations@.len() as int), //@O C18+C19.O-2e_artifact_directory_recreated_before_root_files
//@before "operations.push(FileSystemOperation::WriteFile(" nth=1
            let ghost old_ops4 = operations@;
//@after "operations.push(FileSystemOperation::WriteFile(" nth=1
            proof {
                let f = *new_file_name;
                let pushed = operations@[operations@.len() - 1];
                assert(operations@ == old_ops4.push(pushed));
                assert(state.root_files@.contains_key(f) && state.root_files@[f] == *it4.seq()[it4.index@].1);
                assert(state.has_root(f));
                assert(new_file_path@ == root_path(artifact_directory@, f));
                assert(new_file_path@.drop_last() == artifact_directory@);
                assert(opv(pushed) == OpV::WriteFile(root_path(artifact_directory@, f), state.root_idx(f)));
                lemma_push_mono(old_ops4, pushed, artifact_directory@);
                lemma_push_plan(old_ops4, pushed, state, artifact_directory@, true);
                lemma_push_emits(old_ops4, pushed, opv(pushed));
            }
//@end
}

} // verus!
fn main() {}
